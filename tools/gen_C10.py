"""C10 translator (T-real): pymoto/common/mma.py  ->  coq/gen/C10/MMAGen.v

Fail-closed: everything that is not understood raises py2coq.Unsupported (reported as a broken tie).

Two dialects, both emitting terms generic over the classes Num (Base/Num.v) and NumOrd (Base/MMANum.v):

* component dialect (MMA.mmasub): every numpy operation in mmasub is elementwise, so each array variable is read
  as its j-th (or (i,j)-th) component and the statements become scalar formulas.  Kinds track the numpy shapes
  (S scalar option, V per variable j, M per response i and variable j, R per response i) to validate broadcasting.
  The only reduction (np.dot(P, 1/shift)) is emitted at row level with its operands as component definitions.
* vector dialect (subsolv, residual): expressions are typed S (scalar), V (vector), M (matrix = list of rows),
  N (length), I (integer literal) and emitted with map / vmap2 / vmap3 / dot / matvec / vecmat / lmin / lmax.

Local names never matter: locals are resolved by substitution (SSA), so renaming a local or reordering independent
statements gives the same generated terms.  Only interface names are used as symbols: the parameters of mmasub, subsolv
and residual, the attributes of the MMA object (self.low, self.upp, self.offset, self.dx, ...), and role names derived
from the position of a local in the `residual(...)` call, the `return` statement and the line-search updates.

Decimal literals are read as the rationals they denote (1.001 -> 1001/1000, 1e-5 -> 1/100000).
"""
import ast
import os
from fractions import Fraction
from py2coq import Unsupported, parse_file, find_class, find_func


class Val:
    def __init__(self, text, kind, syms=()):
        self.text, self.kind, self.syms = text, kind, frozenset(syms)


class Poison:
    """a local whose defining expression is outside the dialect: an error only if it is used"""

    def __init__(self, why):
        self.why = why


def lit(value):
    """python numeric constant -> Coq term over K"""
    if isinstance(value, bool) or not isinstance(value, (int, float)):
        raise Unsupported(f'T-real: constant {value!r}')
    f = Fraction(repr(value)) if isinstance(value, float) else Fraction(value)
    if f < 0:
        raise Unsupported('negative literal')
    if f.denominator == 1:
        return f'(nofZ {f.numerator})'
    return f'(dec {f.numerator} {f.denominator})'


BIN = {ast.Add: 'nadd', ast.Sub: 'nsub', ast.Mult: 'nmul', ast.Div: 'ndiv'}


def fname(call):
    return ast.unparse(call.func)


def is_self_attr(n, attr=None):
    return isinstance(n, ast.Attribute) and isinstance(n.value, ast.Name) and n.value.id == 'self' and \
        (attr is None or n.attr == attr)


def is_doc(s):
    return isinstance(s, ast.Expr) and isinstance(s.value, ast.Constant) and isinstance(s.value.value, str)


# ======================================================================================= component dialect
JOIN = {}
for a, b, r in (('S', 'S', 'S'), ('S', 'V', 'V'), ('V', 'V', 'V'), ('V', 'M', 'M'), ('S', 'M', 'M'), ('M', 'M', 'M'),
                ('S', 'R', 'R'), ('R', 'R', 'R')):
    JOIN[(a, b)] = r
    JOIN[(b, a)] = r


class CompEmitter:
    def __init__(self, env):
        self.env = dict(env)     # name or 'self.attr' -> Val | Poison

    def fail(self, n, why=''):
        raise Unsupported(f'T-real(component): unsupported {type(n).__name__} {why}: {ast.unparse(n)[:140]}')

    def join(self, n, *vals):
        k = vals[0].kind
        for v in vals[1:]:
            if (k, v.kind) not in JOIN:
                self.fail(n, f'broadcast {k} with {v.kind}')
            k = JOIN[(k, v.kind)]
        return k

    def mk(self, n, fmt, *vals, kind=None):
        s = frozenset().union(*[v.syms for v in vals]) if vals else frozenset()
        return Val(fmt.format(*[v.text for v in vals]), kind or self.join(n, *vals), s)

    def lookup(self, n, key):
        if key in self.env:
            v = self.env[key]
            if isinstance(v, Poison):
                raise Unsupported(f'{key} is used but its definition is outside the dialect: {v.why}')
            return v
        self.fail(n, 'unbound name')

    def tr(self, n):
        if isinstance(n, ast.Constant):
            return Val(lit(n.value), 'S')
        if isinstance(n, ast.Name):
            return self.lookup(n, n.id)
        if isinstance(n, ast.Attribute):
            return self.lookup(n, ast.unparse(n))
        if isinstance(n, ast.UnaryOp):
            a = self.tr(n.operand)
            if isinstance(n.op, ast.USub):
                return self.mk(n, '(nopp {})', a)
            if isinstance(n.op, ast.UAdd):
                return a
            self.fail(n)
        if isinstance(n, ast.BinOp):
            if isinstance(n.op, ast.Pow):
                if isinstance(n.right, ast.Constant) and n.right.value == 2 and not isinstance(n.right.value, bool):
                    return self.mk(n, '(sq {})', self.tr(n.left))
                self.fail(n, 'power')
            if type(n.op) not in BIN:
                self.fail(n, 'operator')
            return self.mk(n, '(' + BIN[type(n.op)] + ' {} {})', self.tr(n.left), self.tr(n.right))
        if isinstance(n, ast.Compare):
            if len(n.ops) != 1:
                self.fail(n, 'chained comparison')
            a, b = self.tr(n.left), self.tr(n.comparators[0])
            op = type(n.ops[0])
            fm = {ast.Lt: '(nltb {0} {1})', ast.Gt: '(nltb {1} {0})', ast.LtE: '(nleb {0} {1})', ast.GtE: '(nleb {1} {0})'}
            if op not in fm:
                self.fail(n, 'comparison')
            v = self.mk(n, fm[op], a, b)
            return Val(v.text, 'B' + v.kind, v.syms)
        if isinstance(n, ast.Call):
            f = fname(n)
            if n.keywords:
                self.fail(n, 'keyword arguments')
            args = n.args
            if f in ('np.maximum', 'np.minimum') and len(args) == 2:
                return self.mk(n, '(' + ('nmax' if f == 'np.maximum' else 'nmin') + ' {} {})', self.tr(args[0]), self.tr(args[1]))
            if f in ('np.maximum.reduce', 'np.minimum.reduce') and len(args) == 1 and isinstance(args[0], ast.List) \
                    and len(args[0].elts) >= 2:
                op = 'nmax' if 'maximum' in f else 'nmin'
                acc = self.tr(args[0].elts[0])
                for e in args[0].elts[1:]:
                    acc = self.mk(n, '(' + op + ' {} {})', acc, self.tr(e))
                return acc
            if f == 'np.abs' and len(args) == 1:
                return self.mk(n, '(nabs {})', self.tr(args[0]))
            if f == 'np.clip' and len(args) == 3:
                return self.mk(n, '(clip {} {} {})', *[self.tr(a) for a in args])
            if f == 'np.ones' and len(args) == 1 and ast.unparse(args[0]) == 'self.n':
                return Val('(nofZ 1)', 'V')
            if isinstance(n.func, ast.Attribute) and n.func.attr == 'copy' and not args:
                return self.tr(n.func.value)
            self.fail(n, 'call')
        self.fail(n)


# canonical parameter order of the generated component definitions
ORDER = ['asyinit', 'asyincr', 'asydecr', 'asybound', 'albefa', 'move', 'xval', 'xmin', 'xmax', 'xold1', 'xold2',
         'offset', 'dx', 'low', 'upp', 'dg', 'g']


def cdef(name, val):
    ps = [s for s in ORDER if s in val.syms]
    if set(ps) != set(val.syms):
        raise Unsupported(f'unknown symbols in {name}: {sorted(val.syms)}')
    args = ''.join(f' ({p} : K)' for p in ps)
    return f'  Definition {name}{args} : K :=\n    {val.text}.\n'


def sym(name, kind):
    return Val(name, kind, [name])


def assigned_attrs(func):
    """self.<attr> names assigned (or augmented / tuple-assigned / subscript-assigned) anywhere in a function"""
    out = []
    for n in ast.walk(func):
        tg = []
        if isinstance(n, ast.Assign):
            tg = n.targets
        elif isinstance(n, (ast.AugAssign, ast.AnnAssign)):
            tg = [n.target]
        for t in tg:
            for e in (t.elts if isinstance(t, ast.Tuple) else [t]):
                while isinstance(e, ast.Subscript):
                    e = e.value
                if is_self_attr(e):
                    out.append(e.attr)
    return out


class RowTerm:
    """a per-response (row level) expression: text over list parameters op1, op2, ... and per-response scalars"""

    def __init__(self, text, ops, rsyms, skip=0):
        self.text, self.ops, self.rsyms, self.skip = text, ops, rsyms, skip


def gen_mmasub(cls, subsolv_fn, out):
    f = find_func(cls, 'mmasub')
    argn = [a.arg for a in f.args.args]
    if argn != ['self', 'xval', 'g', 'dg']:
        raise Unsupported(f'mmasub signature {argn}')
    # attributes that must be constant during the iterations: only __init__ / response (bound expansion) set them
    for fn in cls.body:
        if isinstance(fn, ast.FunctionDef):
            asg = assigned_attrs(fn)
            for a in ('asyinit', 'asyincr', 'asydecr', 'asybound', 'albefa', 'mmaversion'):
                if a in asg and fn.name != '__init__':
                    raise Unsupported(f'self.{a} assigned in {fn.name}')
            for a in ('xmin', 'xmax', 'move'):
                if a in asg and fn.name not in ('__init__', 'response'):
                    raise Unsupported(f'self.{a} assigned in {fn.name}')
            for a in ('dx', 'offset', 'low', 'upp', 'xold1', 'xold2'):
                if a in asg and fn.name not in ('__init__', 'mmasub'):
                    raise Unsupported(f'self.{a} assigned in {fn.name}')
    init = find_func(cls, '__init__')
    for s in init.body:
        if isinstance(s, ast.Assign) and len(s.targets) == 1 and is_self_attr(s.targets[0]) and \
                s.targets[0].attr in ('dx', 'offset', 'low', 'upp', 'xold1', 'xold2'):
            if ast.unparse(s.value) != 'None':
                raise Unsupported(f'__init__: self.{s.targets[0].attr} = {ast.unparse(s.value)}')
    env0 = {'xval': sym('xval', 'V'), 'g': sym('g', 'R'), 'dg': sym('dg', 'M')}
    for a in ('asyinit', 'asyincr', 'asydecr', 'asybound', 'albefa'):
        env0['self.' + a] = sym(a, 'S')
    # self.move is a scalar or a per-variable array: per component it is the component's move limit
    for a in ('move', 'xmin', 'xmax', 'xold1', 'xold2'):
        env0['self.' + a] = sym(a, 'V')
    emitted = {}
    sub_params = [a.arg for a in subsolv_fn.args.args]
    result = dict(forks=[], versions=[])

    def emit(name, text):
        if name in emitted:
            if emitted[name] != text:
                raise Unsupported(f'{name} defined twice with different terms')
            return
        emitted[name] = text
        out.append(text)

    def bind(em, target, node):
        """local assignment: translate now, poison when outside the dialect"""
        try:
            em.env[target] = em.tr(node)
        except Unsupported as e:
            em.env[target] = Poison(str(e))

    def row_term(em, n, ops):
        """row-level translation of an expression containing np.dot(M, V)"""
        if isinstance(n, ast.BinOp) and type(n.op) in (ast.Add, ast.Sub):
            a, b = row_term(em, n.left, ops), row_term(em, n.right, ops)
            return RowTerm(f'({BIN[type(n.op)]} {a.text} {b.text})', ops, a.rsyms | b.rsyms)
        if isinstance(n, ast.Call) and fname(n) == 'np.dot' and len(n.args) == 2 and not n.keywords:
            m, v = em.tr(n.args[0]), em.tr(n.args[1])
            if m.kind != 'M' or v.kind != 'V':
                raise Unsupported('np.dot operands must be a matrix and a vector: ' + ast.unparse(n))
            ops.append(m)
            ops.append(v)
            return RowTerm(f'(dot op{len(ops) - 1} op{len(ops)})', ops, frozenset())
        v = em.tr(n)
        if v.kind != 'R' or v.text not in v.syms:
            raise Unsupported('row-level operand: ' + ast.unparse(n))
        return RowTerm(v.text, ops, v.syms)

    def has_dot(n):
        return any(isinstance(c, ast.Call) and fname(c) == 'np.dot' for c in ast.walk(n))

    def do_block(em, stmts, st, tag=None, masked_ok=False):
        for idx, s in enumerate(stmts):
            if is_doc(s):
                continue
            # ---- if self.X is None: self.X = expr      (lazy initialisation)
            if isinstance(s, ast.If) and isinstance(s.test, ast.Compare) and len(s.test.ops) == 1 and \
                    isinstance(s.test.ops[0], ast.Is) and ast.unparse(s.test.comparators[0]) == 'None' and \
                    is_self_attr(s.test.left) and s.test.left.attr in ('dx', 'offset'):
                a = s.test.left.attr
                if tag or s.orelse or len(s.body) != 1 or not isinstance(s.body[0], ast.Assign) or \
                        ast.unparse(s.body[0].targets[0]) != 'self.' + a:
                    raise Unsupported('lazy initialisation of self.' + a)
                emit(f'gen_{a}_init', cdef(f'gen_{a}_init', em.tr(s.body[0].value)))
                em.env['self.' + a] = sym(a, 'V')
                continue
            # ---- if self.xold1 is not None and self.xold2 is not None:   (asymptote adaptation)
            if isinstance(s, ast.If) and ast.unparse(s.test) == 'self.xold1 is not None and self.xold2 is not None':
                if tag or s.orelse or 'self.offset' not in em.env:
                    raise Unsupported('asymptote adaptation block')
                inner = CompEmitter(em.env)
                do_block(inner, s.body, st, masked_ok=True)
                for k, v in inner.env.items():
                    if k.startswith('self.') and k != 'self.offset' and em.env.get(k) is not v:
                        raise Unsupported(f'adaptation block assigns {k}')
                emit('gen_offset_adapt', cdef('gen_offset_adapt', inner.lookup(s, 'self.offset')))
                em.env['self.offset'] = sym('offset', 'V')     # locals of the conditional block are dropped
                continue
            # ---- self.offset[mask] *= c
            if masked_ok and isinstance(s, ast.AugAssign) and isinstance(s.target, ast.Subscript) and \
                    ast.unparse(s.target.value) == 'self.offset' and isinstance(s.op, ast.Mult):
                mask = em.tr(s.target.slice)
                if mask.kind != 'BV':
                    raise Unsupported('mask kind ' + mask.kind)
                old = em.lookup(s, 'self.offset')
                c = em.tr(s.value)
                if c.kind != 'S':
                    raise Unsupported('masked update by a non-scalar')
                em.env['self.offset'] = Val(f'(if {mask.text} then (nmul {old.text} {c.text}) else {old.text})', 'V',
                                            mask.syms | old.syms | c.syms)
                continue
            # ---- MMA version dispatch: the rest of the function is translated once per version
            if isinstance(s, ast.If) and isinstance(s.test, ast.Compare) and isinstance(s.test.ops[0], ast.In):
                if tag:
                    raise Unsupported('nested version dispatch')
                node = s
                while True:
                    t = node.test
                    if not (isinstance(t, ast.Compare) and len(t.ops) == 1 and isinstance(t.ops[0], ast.In) and
                            isinstance(t.left, ast.Constant) and isinstance(t.left.value, str) and
                            ast.unparse(t.comparators[0]) == 'self.mmaversion'):
                        raise Unsupported('version test ' + ast.unparse(t))
                    vt = t.left.value
                    if not vt.isalnum():
                        raise Unsupported('version tag ' + vt)
                    result['versions'].append(vt)
                    fork = CompEmitter(em.env)
                    for b in node.body:
                        if not (isinstance(b, ast.Assign) and len(b.targets) == 1 and isinstance(b.targets[0], ast.Name)):
                            raise Unsupported('version branch statement ' + ast.unparse(b))
                        bind(fork, b.targets[0].id, b.value)
                    fst = dict(seen_call=False, hist=False, ret=None)
                    do_block(fork, stmts[idx + 1:], fst, tag=vt)
                    if not (fst['seen_call'] and fst['hist'] and fst['ret']):
                        raise Unsupported(f'version {vt}: subsolv call / history update / return not found')
                    result['forks'].append(fst)
                    if len(node.orelse) == 1 and isinstance(node.orelse[0], ast.If):
                        node = node.orelse[0]
                        continue
                    if not (len(node.orelse) == 1 and isinstance(node.orelse[0], ast.Raise) and
                            ast.unparse(node.orelse[0].exc).startswith('ValueError(')):
                        raise Unsupported('version dispatch must end in raise ValueError')
                    break
                return
            # ---- the subproblem solve
            if isinstance(s, ast.Assign) and isinstance(s.value, ast.Call) and fname(s.value) == 'subsolv':
                if st['seen_call'] or not tag:
                    raise Unsupported('subsolv call outside a version branch / twice')
                st['seen_call'] = True
                call = s.value
                bound = dict(zip(sub_params, call.args))
                for kw in call.keywords:
                    bound[kw.arg] = kw.value
                binding = []
                for p in ('low', 'upp', 'x0'):
                    v = em.tr(bound[p]) if p in bound else None
                    if v is None or len(v.syms) != 1 or v.text not in v.syms:
                        raise Unsupported(f'subsolv argument {p} is not a plain quantity')
                    binding.append((p, v.text))
                st['binding'] = binding
                for p, kind in (('alfa', 'V'), ('beta', 'V'), ('P', 'M'), ('Q', 'M')):
                    if p not in bound:
                        raise Unsupported(f'subsolv argument {p} missing')
                    v = em.tr(bound[p])
                    if v.kind != kind:
                        raise Unsupported(f'subsolv argument {p} has kind {v.kind}')
                    nm = f'gen_arg_{p}' + (f'_{tag}' if kind == 'M' else '')
                    emit(nm, cdef(nm, v))
                if 'b' not in bound or not isinstance(bound['b'], ast.Name):
                    raise Unsupported('subsolv argument b')
                bv = em.env.get(bound['b'].id)
                if not isinstance(bv, RowTerm) or bv.skip != 1:
                    raise Unsupported('subsolv argument b must be the row-level right-hand side without its first entry')
                for k, opv in enumerate(bv.ops):
                    nm = f'gen_rhs_op{k + 1}_{tag}'
                    emit(nm, cdef(nm, opv))
                rs = [r for r in ORDER if r in bv.rsyms]
                if set(rs) != set(bv.rsyms):
                    raise Unsupported('row-level symbols')
                params = ''.join(f' (op{k + 1} : list K)' for k in range(len(bv.ops))) + ''.join(f' ({r} : K)' for r in rs)
                emit('gen_rhs_row', f'  Definition gen_rhs_row{params} : K :=\n    {bv.text}.\n')
                emit('gen_b', '  Definition gen_b (rhs : list K) : list K := skipn 1 rhs.\n')
                t = s.targets[0]
                if not (isinstance(t, ast.Tuple) and all(isinstance(e, ast.Name) for e in t.elts)):
                    raise Unsupported('subsolv result unpacking')
                st['unpack'] = [e.id for e in t.elts]
                for e in t.elts:
                    em.env[e.id] = Poison('result of subsolv')
                continue
            # ---- history update
            if isinstance(s, ast.Assign) and isinstance(s.targets[0], ast.Tuple) and isinstance(s.value, ast.Tuple):
                tg = [ast.unparse(e) for e in s.targets[0].elts]
                if tg == ['self.xold2', 'self.xold1']:
                    if not st['seen_call']:
                        raise Unsupported('history updated before the subproblem is solved')
                    vals = [em.tr(e) for e in s.value.elts]
                    emit('gen_xold2_next', cdef('gen_xold2_next', vals[0]))
                    emit('gen_xold1_next', cdef('gen_xold1_next', vals[1]))
                    st['hist'] = True
                    continue
                if tg == ['self.gold2', 'self.gold1']:
                    continue          # not used by the algorithm
                raise Unsupported('tuple assignment ' + ast.unparse(s))
            if isinstance(s, ast.If) and ast.unparse(s.test).startswith('self.verbosity >='):
                for n in ast.walk(s):
                    if isinstance(n, (ast.Assign, ast.AugAssign)):
                        tgs = n.targets if isinstance(n, ast.Assign) else [n.target]
                        for t in tgs:
                            if 'self' in ast.unparse(t):
                                raise Unsupported('printing block assigns state: ' + ast.unparse(n))
                            for e in ast.walk(t):
                                if isinstance(e, ast.Name) and e.id in em.env and isinstance(e.ctx, ast.Store):
                                    em.env[e.id] = Poison('assigned inside a printing block')
                continue
            if isinstance(s, ast.Return):
                if not (isinstance(s.value, ast.Tuple) and len(s.value.elts) == 2 and isinstance(s.value.elts[0], ast.Name)):
                    raise Unsupported('return ' + ast.unparse(s))
                st['ret'] = s.value.elts[0].id
                continue
            if isinstance(s, ast.Assign) and len(s.targets) == 1:
                t = s.targets[0]
                if is_self_attr(t):
                    if t.attr not in ('offset', 'low', 'upp'):
                        raise Unsupported('assignment to self.' + t.attr)
                    v = em.tr(s.value)
                    if v.kind != 'V':
                        raise Unsupported(f'self.{t.attr} kind')
                    if t.attr == 'offset':
                        em.env['self.offset'] = v
                    else:
                        if tag:
                            raise Unsupported(f'self.{t.attr} assigned inside a version branch')
                        emit('gen_' + t.attr, cdef('gen_' + t.attr, v))
                        em.env['self.' + t.attr] = sym(t.attr, 'V')
                    continue
                if isinstance(t, ast.Name):
                    # row level:  rhs = np.dot(P, 1/shift) + np.dot(Q, 1/shift) - g   and   b = rhs[1:]
                    if has_dot(s.value):
                        em.env[t.id] = row_term(em, s.value, [])
                        continue
                    if isinstance(s.value, ast.Subscript) and isinstance(s.value.value, ast.Name) and \
                            isinstance(em.env.get(s.value.value.id), RowTerm):
                        r = em.env[s.value.value.id]
                        if ast.unparse(s.value.slice) != '1:' or r.skip:
                            raise Unsupported('slice of the right-hand side: ' + ast.unparse(s.value))
                        em.env[t.id] = RowTerm(r.text, r.ops, r.rsyms, skip=1)
                        continue
                    bind(em, t.id, s.value)
                    continue
            raise Unsupported('mmasub statement: ' + ast.unparse(s)[:160])

    top = dict(seen_call=False, hist=False, ret=None)
    do_block(CompEmitter(env0), f.body, top)
    for nme in ('gen_dx_init', 'gen_offset_init', 'gen_offset_adapt', 'gen_low', 'gen_upp', 'gen_arg_alfa', 'gen_arg_beta',
                'gen_rhs_row', 'gen_xold1_next'):
        if nme not in emitted:
            raise Unsupported(nme + ' not found in mmasub')
    forks = result['forks']
    if not forks or any(fk['binding'] != forks[0]['binding'] or fk['unpack'] != forks[0]['unpack'] or fk['ret'] != forks[0]['ret']
                        for fk in forks):
        raise Unsupported('version branches disagree about the subsolv call / return')
    fk = forks[0]
    if fk['ret'] not in fk['unpack']:
        raise Unsupported('mmasub does not return a subsolv result')
    idx = fk['unpack'].index(fk['ret'])
    sret = [s for s in subsolv_fn.body if isinstance(s, ast.Return)]
    if len(sret) != 1 or not isinstance(sret[0].value, ast.Tuple) or idx != 0:
        raise Unsupported('subsolv return / mmasub must return the first result')
    out.append('  Definition gen_versions : list string := [' + '; '.join(f'"{v}"' for v in result['versions']) + ']%string.\n')
    out.append('  Definition gen_subsolv_binding : list (string * string) := [' +
               '; '.join(f'("{p}", "{v}")' for p, v in fk['binding']) + ']%string.\n')
    out.append(f'  Definition gen_returned_index : nat := {idx}.\n')


# ======================================================================================= vector dialect
class VecEmitter:
    """types: S scalar, V vector, M matrix, N length (nat), I integer literal, B boolean"""

    def __init__(self, env):
        self.env = dict(env)

    def fail(self, n, why=''):
        raise Unsupported(f'T-real(vector): unsupported {type(n).__name__} {why}: {ast.unparse(n)[:140]}')

    @staticmethod
    def asS(v):
        return Val(f'(nofZ {v.text})', 'S', v.syms) if v.kind == 'I' else v

    @staticmethod
    def asN(v):
        return Val(v.text, 'N', v.syms) if v.kind == 'I' else v

    def binop(self, n, op, a, b):
        a, b = self.asS(a), self.asS(b)
        s = a.syms | b.syms
        if a.kind == 'S' and b.kind == 'S':
            return Val(f'({op} {a.text} {b.text})', 'S', s)
        if a.kind == 'V' and b.kind == 'V':
            return Val(f'(vmap2 {op} {a.text} {b.text})', 'V', s)
        if a.kind == 'S' and b.kind == 'V':
            return Val(f'(map (fun v_ => {op} {a.text} v_) {b.text})', 'V', s)
        if a.kind == 'V' and b.kind == 'S':
            return Val(f'(map (fun v_ => {op} v_ {b.text}) {a.text})', 'V', s)
        self.fail(n, f'operand types {a.kind},{b.kind}')

    def lookup(self, n, key):
        if key in self.env:
            v = self.env[key]
            if isinstance(v, Poison):
                raise Unsupported(f'{key} is used but its definition is outside the dialect: {v.why}')
            return v
        self.fail(n, 'unbound name')

    def tr(self, n):
        if isinstance(n, ast.Constant):
            if isinstance(n.value, int) and not isinstance(n.value, bool) and n.value >= 0:
                return Val(str(n.value), 'I')
            return Val(lit(n.value), 'S')
        if isinstance(n, ast.Name):
            return self.lookup(n, n.id)
        if isinstance(n, ast.UnaryOp):
            a = self.asS(self.tr(n.operand))
            if isinstance(n.op, ast.USub):
                if a.kind == 'S':
                    return Val(f'(nopp {a.text})', 'S', a.syms)
                if a.kind == 'V':
                    return Val(f'(map nopp {a.text})', 'V', a.syms)
            if isinstance(n.op, ast.UAdd):
                return a
            self.fail(n)
        if isinstance(n, ast.BinOp):
            if isinstance(n.op, ast.Pow):
                if isinstance(n.right, ast.Constant) and n.right.value == 2 and not isinstance(n.right.value, bool):
                    a = self.asS(self.tr(n.left))
                    if a.kind == 'S':
                        return Val(f'(sq {a.text})', 'S', a.syms)
                    if a.kind == 'V':
                        return Val(f'(map sq {a.text})', 'V', a.syms)
                self.fail(n, 'power')
            if type(n.op) not in BIN:
                self.fail(n, 'operator')
            a, b = self.tr(n.left), self.tr(n.right)
            if isinstance(n.op, ast.Add) and {a.kind, b.kind} <= {'N', 'I'} and 'N' in (a.kind, b.kind):
                return Val(f'({a.text} + {b.text})%nat', 'N', a.syms | b.syms)
            return self.binop(n, BIN[type(n.op)], a, b)
        if isinstance(n, ast.Compare):
            if len(n.ops) != 1:
                self.fail(n, 'chained comparison')
            a, b = self.tr(n.left), self.tr(n.comparators[0])
            op = type(n.ops[0])
            if 'N' in (a.kind, b.kind) and {a.kind, b.kind} <= {'N', 'I'}:
                fm = {ast.Lt: '(Nat.ltb {0} {1})', ast.Gt: '(Nat.ltb {1} {0})', ast.LtE: '(Nat.leb {0} {1})', ast.GtE: '(Nat.leb {1} {0})'}
                if op in fm:
                    return Val(fm[op].format(a.text, b.text), 'B', a.syms | b.syms)
            a, b = self.asS(a), self.asS(b)
            if a.kind == 'S' and b.kind == 'S':
                fm = {ast.Lt: '(nltb {0} {1})', ast.Gt: '(nltb {1} {0})', ast.LtE: '(nleb {0} {1})', ast.GtE: '(nleb {1} {0})'}
                if op in fm:
                    return Val(fm[op].format(a.text, b.text), 'B', a.syms | b.syms)
            self.fail(n, 'comparison')
        if isinstance(n, ast.BoolOp) and isinstance(n.op, ast.And):
            vs = [self.tr(v) for v in n.values]
            if any(v.kind != 'B' for v in vs):
                self.fail(n, 'boolop')
            return Val('(' + ' && '.join(v.text for v in vs) + ')', 'B', frozenset().union(*[v.syms for v in vs]))
        if isinstance(n, ast.Call):
            f = fname(n)
            args = n.args
            if n.keywords:
                self.fail(n, 'keyword arguments')
            if f in ('np.maximum', 'np.minimum') and len(args) == 2:
                return self.binop(n, 'nmax' if f == 'np.maximum' else 'nmin', self.tr(args[0]), self.tr(args[1]))
            if f in ('max', 'min') and len(args) >= 2:
                vs = [self.asS(self.tr(a)) for a in args]
                if any(v.kind != 'S' for v in vs):
                    self.fail(n, 'builtin max/min of non-scalars')
                acc = vs[0]
                for v in vs[1:]:
                    acc = Val(f'({"nmax" if f == "max" else "nmin"} {acc.text} {v.text})', 'S', acc.syms | v.syms)
                return acc
            if f in ('np.min', 'np.max') and len(args) == 1:
                a = self.tr(args[0])
                if a.kind != 'V':
                    self.fail(n, 'reduction of a non-vector')
                return Val(f'({"lmin" if f == "np.min" else "lmax"} {a.text})', 'S', a.syms)
            if f == 'np.abs' and len(args) == 1:
                a = self.asS(self.tr(args[0]))
                if a.kind == 'V':
                    return Val(f'(map nabs {a.text})', 'V', a.syms)
                if a.kind == 'S':
                    return Val(f'(nabs {a.text})', 'S', a.syms)
            if f == 'np.clip' and len(args) == 3:
                vs = [self.tr(a) for a in args]
                if all(v.kind == 'V' for v in vs):
                    return Val(f'(vmap3 clip {vs[0].text} {vs[1].text} {vs[2].text})', 'V', vs[0].syms | vs[1].syms | vs[2].syms)
            if f == 'np.ones' and len(args) == 1:
                a = self.asN(self.tr(args[0]))
                if a.kind == 'N':
                    return Val(f'(repeat (nofZ 1) {a.text})', 'V', a.syms)
            if f == 'len' and len(args) == 1:
                a = self.tr(args[0])
                if a.kind == 'V':
                    return Val(f'(length {a.text})', 'N', a.syms)
            if f == 'np.dot' and len(args) == 2:
                a, b = self.tr(args[0]), self.tr(args[1])
                s = a.syms | b.syms
                if (a.kind, b.kind) == ('V', 'V'):
                    return Val(f'(dot {a.text} {b.text})', 'S', s)
                if (a.kind, b.kind) == ('M', 'V'):
                    return Val(f'(matvec {a.text} {b.text})', 'V', s)
                if (a.kind, b.kind) == ('V', 'M'):
                    return Val(f'(vecmat {a.text} {b.text})', 'V', s)
            if f == 'np.array' and len(args) == 1 and isinstance(args[0], ast.List) and len(args[0].elts) == 1:
                a = self.asS(self.tr(args[0].elts[0]))
                if a.kind == 'S':
                    return Val(f'[{a.text}]', 'V', a.syms)
            if f == 'np.concatenate' and len(args) == 1 and isinstance(args[0], ast.List):
                vs = [self.tr(a) for a in args[0].elts]
                if all(v.kind == 'V' for v in vs):
                    return Val('(concat [' + ';\n      '.join(v.text for v in vs) + '])', 'V',
                               frozenset().union(*[v.syms for v in vs]))
            if f == 'np.ascontiguousarray' and len(args) == 1 and isinstance(args[0], ast.Subscript):
                m = self.tr(args[0].value)
                sl = ast.unparse(args[0].slice)
                if m.kind == 'M' and sl in ('0, :', '(0, :)'):
                    return Val(f'(nthL {m.text} 0)', 'V', m.syms)
                if m.kind == 'M' and sl in ('1:, :', '(1:, :)'):
                    return Val(f'(skipn 1 {m.text})', 'M', m.syms)
            if isinstance(n.func, ast.Attribute) and n.func.attr == 'copy' and not args:
                return self.tr(n.func.value)
            self.fail(n, 'call')
        self.fail(n)

    def bind(self, name, node):
        try:
            self.env[name] = self.tr(node)
        except Unsupported as e:
            self.env[name] = Poison(str(e))


TY = {'S': 'K', 'V': 'list K', 'M': 'list (list K)', 'N': 'nat', 'B': 'bool', 'I': 'nat'}


def vdef(name, val, order):
    ps = [s for s in order if s in val.syms]
    if set(ps) != set(val.syms):
        raise Unsupported(f'unknown symbols in {name}: {sorted(val.syms)}')
    args = ''.join(f' ({p} : {TY[order[p]]})' for p in ps)
    body = VecEmitter.asN(val) if val.kind == 'I' else val
    return f'  Definition {name}{args} : {TY[val.kind]} :=\n    {body.text}.\n'


RES_PARAMS = ['x', 'y', 'z', 'lam', 'xsi', 'eta', 'mu', 'zet', 's', 'upp', 'low', 'P0', 'P1', 'Q0', 'Q1', 'epsi', 'a0',
              'a', 'b', 'c', 'd', 'alfa', 'beta']
RES_KINDS = dict(x='V', y='V', z='S', lam='V', xsi='V', eta='V', mu='V', zet='S', s='V', upp='V', low='V', P0='V',
                 P1='M', Q0='V', Q1='M', epsi='S', a0='S', a='V', b='V', c='V', d='V', alfa='V', beta='V')
STATE = RES_PARAMS[:9]
DIRS = ['dx', 'dy', 'dz', 'dlam', 'dxsi', 'deta', 'dmu', 'dzet', 'ds']


def gen_residual(tree, out):
    f = find_func(tree, 'residual')
    params = [a.arg for a in f.args.args]
    if params != RES_PARAMS:
        raise Unsupported(f'residual signature {params}')
    em = VecEmitter({p: Val(p, RES_KINDS[p], [p]) for p in params})
    ret = None
    for s in f.body:
        if is_doc(s):
            continue
        if isinstance(s, ast.Assign) and len(s.targets) == 1 and isinstance(s.targets[0], ast.Name):
            if s.targets[0].id in params:
                raise Unsupported('residual re-binds a parameter')
            em.bind(s.targets[0].id, s.value)
        elif isinstance(s, ast.Return):
            ret = em.tr(s.value)
        else:
            raise Unsupported('residual statement ' + ast.unparse(s)[:100])
    if ret is None or ret.kind != 'V':
        raise Unsupported('residual return')
    out.append(vdef('gen_residual', Val(ret.text, 'V', RES_PARAMS), RES_KINDS))


def stores(stmts):
    """names stored anywhere in the statements (also subscript / augmented / tuple / loop targets)"""
    outl = []
    for s in stmts:
        for n in ast.walk(s):
            if isinstance(n, ast.Name) and isinstance(n.ctx, ast.Store):
                outl.append(n.id)
            elif isinstance(n, (ast.Subscript, ast.Attribute)) and isinstance(n.ctx, ast.Store):
                e = n
                while isinstance(e, (ast.Subscript, ast.Attribute)):
                    e = e.value
                if isinstance(e, ast.Name):
                    outl.append(e.id)
    return outl


def residual_call_locals(call):
    if not (isinstance(call, ast.Call) and fname(call) == 'residual' and not call.keywords and
            len(call.args) == len(RES_PARAMS) and all(isinstance(a, ast.Name) for a in call.args)):
        raise Unsupported('residual call: ' + ast.unparse(call)[:200])
    return [a.id for a in call.args]


def gen_subsolv(tree, out):
    f = find_func(tree, 'subsolv')
    params = [a.arg for a in f.args.args]
    if params != ['epsimin', 'low', 'upp', 'alfa', 'beta', 'P', 'Q', 'a0', 'a', 'b', 'c', 'd', 'x0']:
        raise Unsupported(f'subsolv signature {params}')
    pk = dict(epsimin='S', low='V', upp='V', alfa='V', beta='V', P='M', Q='M', a0='S', a='V', b='V', c='V', d='V', x0='V')
    kinds = dict(pk)
    kinds.update(RES_KINDS)
    kinds.update({d: RES_KINDS[k] for d, k in zip(DIRS, STATE)})
    kinds.update(steg='S', residu='V', residunorm='S', normnew='S', ittt='N')
    order = {k: kinds[k] for k in ['epsimin', 'epsi', 'low', 'upp', 'alfa', 'beta', 'P', 'Q', 'a0', 'a', 'b', 'c', 'd', 'x0'] +
             STATE + DIRS + ['steg', 'residu', 'residunorm', 'normnew', 'ittt']}
    body = [s for s in f.body if not is_doc(s)]
    outer = [s for s in body if isinstance(s, ast.While)]
    if len(outer) != 1 or outer[0].orelse:
        raise Unsupported('subsolv: exactly one outer while expected')
    outer = outer[0]
    pre, post = body[:body.index(outer)], body[body.index(outer) + 1:]
    if len(post) != 1 or not isinstance(post[0], ast.Return) or not isinstance(post[0].value, ast.Tuple) or \
            not all(isinstance(e, ast.Name) for e in post[0].value.elts) or len(post[0].value.elts) != 9:
        raise Unsupported('subsolv: return statement')
    L = [e.id for e in post[0].value.elts]              # locals holding x, y, z, lam, xsi, eta, mu, zet, s
    role = dict(zip(L, STATE))
    # every residual call passes the state in order and the same locals for the data
    calls = [n for n in ast.walk(f) if isinstance(n, ast.Call) and fname(n) == 'residual']
    if len(calls) < 2:
        raise Unsupported('residual calls')
    locs = residual_call_locals(calls[0])
    for c in calls[1:]:
        if residual_call_locals(c) != locs:
            raise Unsupported('residual calls differ')
    if locs[:9] != L:
        raise Unsupported('residual is not called on the returned variables')
    for nm, r in zip(locs[9:], RES_PARAMS[9:]):
        if r in params and nm != r:
            raise Unsupported(f'residual argument {r} is not the subsolv parameter')
        role[nm] = r
    epsi_l = locs[RES_PARAMS.index('epsi')]
    allst = stores(f.body)
    for p in params:
        if p in allst:
            raise Unsupported(f'subsolv modifies its parameter {p}')
    for nm in locs[9:]:
        if role[nm] in ('P0', 'P1', 'Q0', 'Q1') and allst.count(nm) != 1:
            raise Unsupported(f'{nm} assigned more than once')
    # ---------------- preamble: initial point, constants
    em = VecEmitter({p: Val(p, pk[p], [p]) for p in params})
    inner = [s for s in outer.body if isinstance(s, ast.While)]
    if len(inner) != 1 or inner[0].orelse:
        raise Unsupported('subsolv: exactly one inner while expected')
    inner = inner[0]
    for s in pre:
        if isinstance(s, ast.Assign) and len(s.targets) == 1 and isinstance(s.targets[0], ast.Tuple) and \
                isinstance(s.value, ast.Tuple) and len(s.targets[0].elts) == len(s.value.elts):
            for t, v in zip(s.targets[0].elts, s.value.elts):
                if not isinstance(t, ast.Name):
                    raise Unsupported('preamble tuple target')
                em.bind(t.id, v)
            continue
        if not (isinstance(s, ast.Assign) and len(s.targets) == 1 and isinstance(s.targets[0], ast.Name)):
            raise Unsupported('subsolv preamble: ' + ast.unparse(s)[:100])
        name = s.targets[0].id
        r = role.get(name)
        if r == 'x':
            v = s.value
            if not (isinstance(v, ast.IfExp) and ast.unparse(v.test) == 'x0 is None'):
                raise Unsupported('x initialisation')
            out.append(vdef('gen_x_init_mid', em.tr(v.body), order))
            out.append(vdef('gen_x_init_x0', em.tr(v.orelse), order))
            em.env[name] = Val('x', 'V', ['x'])
        elif r in STATE or r in ('P0', 'P1', 'Q0', 'Q1'):
            v = em.tr(s.value)
            if v.kind != RES_KINDS[r] and not (v.kind == 'I' and RES_KINDS[r] == 'S'):
                raise Unsupported(f'{r} initial kind')
            out.append(vdef('gen_' + r + ('_init' if r in STATE else ''), em.asS(v), order))
            em.env[name] = Val(r, RES_KINDS[r], [r])
        elif r == 'epsi':
            out.append(vdef('gen_epsi0', em.asS(em.tr(s.value)), order))
            em.env[name] = Val('epsi', 'S', ['epsi'])
        else:
            em.bind(name, s.value)
    for nm in L + [n for n in locs[9:] if role[n] in ('P0', 'P1', 'Q0', 'Q1', 'epsi')]:
        v = em.env.get(nm)
        if not isinstance(v, Val) or v.text != role[nm]:
            raise Unsupported(f'subsolv: {role[nm]} not initialised before the loop')
    # ---------------- outer loop
    out.append(vdef('gen_outer_test', em.tr(outer.test), order))
    ob = outer.body
    i0 = ob.index(inner)
    pro, tail = ob[:i0], ob[i0 + 1:]
    if set(stores(pro)) & set(L) or set(stores(tail)) & set(L):
        raise Unsupported('outer loop modifies the variables outside the inner loop')
    # epsi update: the only store to epsi in the outer body, after the inner loop
    upd = [s for s in tail if epsi_l in stores([s])]
    if len(upd) != 1 or epsi_l in stores(pro) or epsi_l in stores(inner.body):
        raise Unsupported('epsi update')
    u = upd[0]
    if isinstance(u, ast.AugAssign) and isinstance(u.target, ast.Name) and type(u.op) in BIN:
        out.append(vdef('gen_epsi_next', em.binop(u, BIN[type(u.op)], em.env[epsi_l], em.tr(u.value)), order))
    elif isinstance(u, ast.Assign) and isinstance(u.targets[0], ast.Name):
        out.append(vdef('gen_epsi_next', em.tr(u.value), order))
    else:
        raise Unsupported('epsi update form')
    for s in tail:
        if s is not u and not (isinstance(s, ast.If) and not stores([s])):
            raise Unsupported('outer loop tail: ' + ast.unparse(s)[:80])

    def residual_block(stmts, em2, where):
        """R = residual(...); RN = np.linalg.norm(R); RM = f(R); other plain assignments -> env"""
        res_name = None
        for s in stmts:
            if not (isinstance(s, ast.Assign) and len(s.targets) == 1 and isinstance(s.targets[0], ast.Name)):
                raise Unsupported(f'{where}: ' + ast.unparse(s)[:80])
            nm = s.targets[0].id
            if isinstance(s.value, ast.Call) and fname(s.value) == 'residual':
                res_name = nm
                em2.env[nm] = Val('residu', 'V', ['residu'])
            elif ast.unparse(s.value).startswith('np.linalg.norm(') and len(s.value.args) == 1 and \
                    isinstance(s.value.args[0], ast.Name) and isinstance(em2.env.get(s.value.args[0].id), Val) and \
                    em2.env[s.value.args[0].id].text == 'residu':
                em2.env[nm] = Val('residunorm', 'S', ['residunorm'])
            else:
                em2.bind(nm, s.value)
        return res_name
    residual_block(pro, em, 'outer loop prologue')
    # ---------------- inner loop
    ib = inner.body
    cnt = ib[0]
    if not (isinstance(cnt, ast.Assign) and isinstance(cnt.targets[0], ast.Name) and
            ast.unparse(cnt.value) in (f'{cnt.targets[0].id} + 1', f'1 + {cnt.targets[0].id}')):
        raise Unsupported('inner loop must start by incrementing its counter')
    counter = cnt.targets[0].id
    c0 = em.env.get(counter)
    if not (isinstance(c0, Val) and c0.kind == 'I' and c0.text == '0') or stores(ib).count(counter) != 1:
        raise Unsupported('inner loop counter')
    test_env = VecEmitter(em.env)
    test_env.env[counter] = Val('ittt', 'N', ['ittt'])
    inner_test_pro = test_env.tr(inner.test)
    fors = [s for s in ib if isinstance(s, ast.For)]
    if len(fors) != 1 or fors[0].orelse:
        raise Unsupported('line search loop')
    ls = fors[0]
    k_ls = ib.index(ls)
    newton, epilogue = ib[1:k_ls], ib[k_ls + 1:]
    if set(stores(newton)) & (set(L) | {epsi_l}) or set(stores(epilogue)) & (set(L) | {epsi_l}):
        raise Unsupported('the variables are modified outside the line search')
    # ---- line search structure: v = OLD + STEP * DIR for every variable
    lb = ls.body
    upd, k = {}, 0
    step = None
    olds, dirs = {}, {}
    while k < len(lb) and isinstance(lb[k], ast.Assign) and len(lb[k].targets) == 1:
        t = lb[k].targets[0]
        base = t.value if isinstance(t, ast.Subscript) else t
        if not isinstance(base, ast.Name) or base.id not in L:
            break
        if isinstance(t, ast.Subscript) and ast.unparse(t.slice) != ':':
            raise Unsupported('line search update target ' + ast.unparse(t))
        v = lb[k].value
        if not (isinstance(v, ast.BinOp) and isinstance(v.op, ast.Add) and isinstance(v.left, ast.Name) and
                isinstance(v.right, ast.BinOp) and isinstance(v.right.op, ast.Mult) and
                isinstance(v.right.left, ast.Name) and isinstance(v.right.right, ast.Name)):
            raise Unsupported('line search update form: ' + ast.unparse(lb[k]))
        if base.id in upd or (step is not None and v.right.left.id != step):
            raise Unsupported('line search updates')
        step = v.right.left.id
        olds[base.id], dirs[base.id] = v.left.id, v.right.right.id
        upd[base.id] = v
        k += 1
    if sorted(upd) != sorted(L):
        raise Unsupported('line search must update every variable exactly once')
    if len(set(dirs.values())) != 9 or len(set(olds.values())) != 9:
        raise Unsupported('line search directions / saved values must be distinct')
    # ---- Newton part: directions are abstract symbols, everything else is substituted
    nst = stores(newton)
    for v in L:
        if nst.count(dirs[v]) != 1 or nst.count(olds[v]) != 1:
            raise Unsupported(f'direction / saved value of {role[v]} must be assigned exactly once per Newton step')
    if nst.count(step) != 1:
        raise Unsupported('step length must be assigned exactly once before the line search')
    dir_role = {dirs[v]: 'd' + role[v] for v in L}
    emn = VecEmitter(em.env)
    for s in newton:
        if isinstance(s, ast.Assign) and len(s.targets) == 1 and isinstance(s.targets[0], ast.Name):
            nm = s.targets[0].id
            if nm in dir_role:
                emn.env[nm] = Val(dir_role[nm], kinds[dir_role[nm]], [dir_role[nm]])
            else:
                emn.bind(nm, s.value)
        else:
            for nm in stores([s]):
                emn.env[nm] = Poison('assigned by a statement outside the dialect: ' + ast.unparse(s)[:60])
    for v in L:
        o = emn.env.get(olds[v])
        if not isinstance(o, Val) or o.text != role[v]:
            raise Unsupported(f'{olds[v]} is not a copy of {role[v]}')
    steg = emn.lookup(ls, step)
    if steg.kind != 'S':
        raise Unsupported('step length kind')
    out.append(vdef('gen_steg', steg, order))
    # ---- line search body
    if not (isinstance(ls.iter, ast.Call) and fname(ls.iter) == 'range' and len(ls.iter.args) == 1):
        raise Unsupported('line search range')
    out.append(vdef('gen_ls_fuel', emn.asN(emn.tr(ls.iter.args[0])), order))
    eml = VecEmitter(emn.env)
    eml.env[step] = Val('steg', 'S', ['steg'])
    for v in L:
        val = eml.tr(upd[v])
        if val.kind != RES_KINDS[role[v]]:
            raise Unsupported('line search update kind')
        out.append(vdef('gen_new_' + role[v], val, order))
    rest = lb[k:]
    if len(rest) != 3:
        raise Unsupported('line search tail')
    if not (isinstance(rest[0], ast.Assign) and isinstance(rest[0].value, ast.Call) and fname(rest[0].value) == 'residual'
            and isinstance(rest[0].targets[0], ast.Name)):
        raise Unsupported('line search residual')
    rname = rest[0].targets[0].id
    t = rest[1]
    if not (isinstance(t, ast.If) and len(t.body) == 1 and isinstance(t.body[0], ast.Break) and not t.orelse and
            isinstance(t.test, ast.Compare) and ast.unparse(t.test.left) == f'np.linalg.norm({rname})'):
        raise Unsupported('line search acceptance test')
    eml.env['__normnew'] = Val('normnew', 'S', ['normnew'])
    tst = ast.Compare(left=ast.Name(id='__normnew', ctx=ast.Load()), ops=t.test.ops, comparators=t.test.comparators)
    out.append(vdef('gen_ls_accept', eml.tr(tst), order))
    h = rest[2]
    if isinstance(h, ast.AugAssign) and isinstance(h.target, ast.Name) and h.target.id == step and type(h.op) in BIN:
        out.append(vdef('gen_steg_next', eml.binop(h, BIN[type(h.op)], eml.env[step], eml.tr(h.value)), order))
    elif isinstance(h, ast.Assign) and isinstance(h.targets[0], ast.Name) and h.targets[0].id == step:
        out.append(vdef('gen_steg_next', eml.tr(h.value), order))
    else:
        raise Unsupported('step halving')
    # ---- epilogue: the loop test sees the residual of the new point
    eme = VecEmitter(em.env)
    eme.env[rname] = Val('residu', 'V', ['residu'])
    residual_block(epilogue, eme, 'inner loop epilogue')
    eme.env[counter] = Val('ittt', 'N', ['ittt'])
    inner_test_epi = eme.tr(inner.test)
    if inner_test_epi.text != inner_test_pro.text:
        raise Unsupported('inner loop test sees different quantities on entry and after a Newton step')
    out.append(vdef('gen_inner_test', inner_test_pro, order))


# ======================================================================================= MMA.response: variable handling
# The statements of MMA.response that build the design vector, expand xmin / xmax / move and write the design back to
# the variable signals  ->  coq/gen/C10/VarsGen.v, proved equal to the typed model of Model/MMAvars.v
# (expand_bound_t / expand_move_t / writeback) in bridge/C10/VarsBridge.v.  Array-bookkeeping dialect of tools/gen_utils.py,
# extended by: np.zeros_like / np.ones_like of the design vector, scalar * ones_like, np.asarray(x, dtype=float) /
# x.astype(float), np.asarray(x).copy(), slice assignment of one entry of a specification.
import gen_utils
from gen_utils import ArrEmitter, Val as AVal


class RespEmitter(ArrEmitter):
    """env is keyed by the unparsed source text of names / attributes.  Extra kinds:
    C  a scalar specification (its dtype tag sdt and value a);  Q  a sequence specification (sdt, l);  E  one entry of it;
    A  one value"""

    def tr(self, n):
        key = ast.unparse(n)
        if key in self.env and not isinstance(n, ast.Name):
            v = self.env[key]
            if isinstance(v, str):
                raise Unsupported(f'{key} is used but its definition is outside the dialect: {v}')
            return v
        if isinstance(n, ast.BinOp) and isinstance(n.op, ast.Mult):
            for a, b in ((n.left, n.right), (n.right, n.left)):
                if isinstance(b, ast.Call) and ast.unparse(b.func) == 'np.ones_like' and len(b.args) == 1 and not b.keywords:
                    sc, x = self.want(a, 'C'), self.want(b.args[0], 'T')
                    return AVal(f'(scal_times_ones_like conv {sc.text} {x.text})', 'T')
            self.fail(n, 'product')
        if isinstance(n, ast.Call):
            f = ast.unparse(n.func)
            kw = {k.arg: k.value for k in n.keywords}
            if f == 'np.zeros_like' and len(n.args) == 1 and not kw:
                return AVal(f'(zeros_like zero {self.want(n.args[0], "T").text})', 'T')
            if f == 'len' and len(n.args) == 1 and not kw:
                v = self.tr(n.args[0])
                if v.kind == 'Q':
                    return AVal(f'(length (snd {v.text}))', 'N')
            if f == 'np.asarray' and len(n.args) == 1 and set(kw) == {'dtype'} and gen_utils._is_float_dtype(kw['dtype']):
                v = self.tr(n.args[0])
                if v.kind in ('T', 'Q'):
                    return AVal(f'(as_float conv {v.text})', 'T')
            if isinstance(n.func, ast.Attribute) and n.func.attr == 'astype' and len(n.args) == 1 and not kw and gen_utils._is_float_dtype(n.args[0]):
                v = self.tr(n.func.value)
                if v.kind in ('T', 'Q'):
                    return AVal(f'(as_float conv {v.text})', 'T')
            # np.asarray(seq) / np.asarray(seq).copy(): the sequence as an array of its own dtype
            if f == 'np.asarray' and len(n.args) == 1 and not kw:
                return self.want(n.args[0], 'Q')
            if isinstance(n.func, ast.Attribute) and n.func.attr == 'copy' and not n.args and not kw:
                v = self.tr(n.func.value)
                if v.kind in ('Q', 'T'):
                    return v
        if isinstance(n, ast.Attribute) and n.attr == 'size':
            v = self.tr(n.value)
            if v.kind == 'Q':
                return AVal(f'(length (snd {v.text}))', 'N')
        if isinstance(n, ast.Subscript) and not isinstance(n.slice, ast.Slice):
            v = self.tr(n.value)
            if v.kind == 'Q':
                return AVal(f'(fst {v.text}) (nth {self.want(n.slice, "N").text} (snd {v.text}) d)', 'E')
            if v.kind == 'V':
                return AVal(f'(nth {self.want(n.slice, "N").text} {v.text} d)', 'A')
        return super().tr(n)


def _single_assign(stmts, what):
    if len(stmts) != 1 or not isinstance(stmts[0], ast.Assign) or len(stmts[0].targets) != 1:
        raise Unsupported(f'MMA.response: {what}: one assignment expected: ' + '; '.join(ast.unparse(s)[:60] for s in stmts))
    return stmts[0]


def _fill_loop(em, loop, attr, out):
    """for i in range(<count>): self.<attr>[self.cumlens[i]:self.cumlens[i+1]] = <seq>[i]"""
    if not (isinstance(loop, ast.For) and not loop.orelse and isinstance(loop.target, ast.Name) and isinstance(loop.iter, ast.Call)
            and ast.unparse(loop.iter.func) == 'range' and len(loop.iter.args) == 1 and len(loop.body) == 1):
        raise Unsupported(f'MMA.response: {attr}: per-signal loop')
    out.append(f'  Definition gen_{attr}_fill_count (b : tarr A) : nat :=\n    {em.want(loop.iter.args[0], "N").text}.\n')
    st = loop.body[0]
    t = st.targets[0] if isinstance(st, ast.Assign) and len(st.targets) == 1 else None
    if not (isinstance(t, ast.Subscript) and ast.unparse(t.value) == f'self.{attr}' and isinstance(t.slice, ast.Slice)
            and t.slice.lower is not None and t.slice.upper is not None and t.slice.step is None):
        raise Unsupported(f'MMA.response: {attr}: per-signal assignment: ' + ast.unparse(st)[:100])
    el = RespEmitter(em.env)
    el.env[loop.target.id] = AVal('i', 'N')
    lo, hi, e = el.want(t.slice.lower, 'N'), el.want(t.slice.upper, 'N'), el.want(st.value, 'E')
    out.append(f'  Definition gen_{attr}_fill_step (cum : list nat) (b : tarr A) (acc : tarr A) (i : nat) : tarr A :=\n'
               f'    (assign_range_t conv acc {lo.text} {hi.text} {e.text}).\n')


def _raise_test(st, what):
    if not (isinstance(st, ast.If) and len(st.body) == 1 and isinstance(st.body[0], ast.Raise)
            and isinstance(st.body[0].exc, ast.Call) and ast.unparse(st.body[0].exc.func) == 'RuntimeError'):
        raise Unsupported(f'MMA.response: {what}: `if <length test>: raise RuntimeError` expected: ' + ast.unparse(st)[:80])
    return st.test


def _len_bad(base_env, test, attr):
    """len(self.<attr>) != self.n  ->  negb (len =? n)"""
    if not (isinstance(test, ast.Compare) and len(test.ops) == 1 and isinstance(test.ops[0], ast.NotEq)):
        raise Unsupported(f'MMA.response: {attr}: length test: ' + ast.unparse(test))
    e2 = RespEmitter(dict(base_env))
    e2.env[f'self.{attr}'] = AVal('b', 'Q')
    return f'(negb ({e2.want(test.left, "N").text} =? {e2.want(test.comparators[0], "N").text}))'


def gen_bound_block(stmts, attr, base_env, out):
    """the three statements that treat self.xmin / self.xmax"""
    if len(stmts) != 3:
        raise Unsupported(f'MMA.response: {attr}: expected expansion, length test, conversion')
    ex, lt, cv = stmts
    A = f'self.{attr}'
    if not (isinstance(ex, ast.If) and ast.unparse(ex.test) == f"not hasattr({A}, '__len__')" and len(ex.orelse) == 1 and isinstance(ex.orelse[0], ast.If)):
        raise Unsupported(f'MMA.response: {attr}: `if not hasattr(.., "__len__"): .. elif ..` expected')
    # scalar
    a = _single_assign(ex.body, attr + ' scalar branch')
    if ast.unparse(a.targets[0]) != A:
        raise Unsupported(f'MMA.response: {attr}: scalar branch target')
    em = RespEmitter(dict(base_env))
    em.env[A] = AVal('sdt a', 'C')
    out.append(f'  Definition gen_{attr}_scalar (xval : tarr A) (sdt : dtype) (a : A) : tarr A :=\n    {em.want(a.value, "T").text}.\n')
    # per signal
    ps = ex.orelse[0]
    if ps.orelse:
        raise Unsupported(f'MMA.response: {attr}: unexpected else branch')
    em = RespEmitter(dict(base_env))
    em.env[A] = AVal('b', 'Q')
    if not (isinstance(ps.test, ast.Compare) and len(ps.test.ops) == 1 and isinstance(ps.test.ops[0], ast.Eq)):
        raise Unsupported(f'MMA.response: {attr}: per-signal test')
    out.append(f'  Definition gen_{attr}_is_per_signal (nvars : nat) (b : tarr A) : bool :=\n'
               f'    ({em.want(ps.test.left, "N").text} =? {em.want(ps.test.comparators[0], "N").text}).\n')
    if len(ps.body) != 3:
        raise Unsupported(f'MMA.response: {attr}: per-signal branch: save the values, allocate, loop')
    sv, al, loop = ps.body
    if not (isinstance(sv, ast.Assign) and isinstance(sv.targets[0], ast.Name) and ast.unparse(sv.value) == A):
        raise Unsupported(f'MMA.response: {attr}: per-signal values are not saved first')
    em.env[sv.targets[0].id] = AVal('b', 'Q')
    if not (isinstance(al, ast.Assign) and ast.unparse(al.targets[0]) == A):
        raise Unsupported(f'MMA.response: {attr}: per-signal allocation')
    out.append(f'  Definition gen_{attr}_fill_init (zero : A) (xval : tarr A) : tarr A :=\n    {em.want(al.value, "T").text}.\n')
    em.env[A] = AVal('acc', 'T')                 # from here on self.<attr> is the new array
    _fill_loop(em, loop, attr, out)
    # length test and conversion
    out.append(f'  Definition gen_{attr}_len_bad (xval : tarr A) (b : tarr A) : bool :=\n    {_len_bad(base_env, _raise_test(lt, attr), attr)}.\n')
    if lt.orelse:
        raise Unsupported(f'MMA.response: {attr}: length test has an else branch')
    if not (isinstance(cv, ast.Assign) and len(cv.targets) == 1 and ast.unparse(cv.targets[0]) == A):
        raise Unsupported(f'MMA.response: {attr}: conversion statement')
    em = RespEmitter(dict(base_env))
    em.env[A] = AVal('b', 'Q')
    out.append(f'  Definition gen_{attr}_final (b : tarr A) : tarr A :=\n    {em.want(cv.value, "T").text}.\n')
    out.append(EXPAND_SKELETON.replace('@', attr))


EXPAND_SKELETON = """  (* if not hasattr(b, '__len__'): <scalar>  elif <per signal>: <fill>;  if <bad length>: raise RuntimeError;  b = <final> *)
  Definition gen_expand_@ (zero : A) (xval : tarr A) (nvars : nat) (cum : list nat) (s : tbspec A) : option (tarr A) :=
    let b' := match s with
              | TBScal sdt a => gen_@_scalar xval sdt a
              | TBList sdt l => if gen_@_is_per_signal nvars (sdt, l)
                                then fold_left (gen_@_fill_step cum (sdt, l)) (seq 0 (gen_@_fill_count (sdt, l))) (gen_@_fill_init zero xval)
                                else (sdt, l)
              end in
    if gen_@_len_bad xval b' then None else Some (gen_@_final b').
"""

MOVE_SKELETON = """  (* if hasattr(move, '__len__'): if <per signal>: <fill>  elif <bad length>: raise RuntimeError  else: move = <final> *)
  Definition gen_expand_move (zero : A) (xval : tarr A) (nvars : nat) (cum : list nat) (s : tbspec A) : option (tarr A) :=
    match s with
    | TBScal sdt a => Some (sdt, repeat a (length (snd xval)))         (* no __len__: left as it is (broadcast later) *)
    | TBList sdt l =>
        if gen_move_is_per_signal nvars (sdt, l)
        then Some (fold_left (gen_move_fill_step cum (sdt, l)) (seq 0 (gen_move_fill_count (sdt, l))) (gen_move_fill_init zero xval))
        else if gen_move_len_bad xval (sdt, l) then None else Some (gen_move_final (sdt, l))
    end.
"""


def gen_move_block(st, base_env, out):
    A = 'self.move'
    if not (isinstance(st, ast.If) and ast.unparse(st.test) == f"hasattr({A}, '__len__')" and not st.orelse and len(st.body) == 2):
        raise Unsupported('MMA.response: move: `if hasattr(self.move, "__len__"):` with two statements expected')
    inp, br = st.body
    em = RespEmitter(dict(base_env))
    em.env[A] = AVal('b', 'Q')
    if not (isinstance(inp, ast.Assign) and isinstance(inp.targets[0], ast.Name)):
        raise Unsupported('MMA.response: move: move_input')
    em.env[inp.targets[0].id] = em.want(inp.value, 'Q')
    if not (isinstance(br, ast.If) and isinstance(br.test, ast.Compare) and isinstance(br.test.ops[0], ast.Eq) and len(br.orelse) == 1
            and isinstance(br.orelse[0], ast.If)):
        raise Unsupported('MMA.response: move: per-signal test')
    out.append('  Definition gen_move_is_per_signal (nvars : nat) (b : tarr A) : bool :=\n'
               f'    ({em.want(br.test.left, "N").text} =? {em.want(br.test.comparators[0], "N").text}).\n')
    if len(br.body) != 2 or not (isinstance(br.body[0], ast.Assign) and ast.unparse(br.body[0].targets[0]) == A):
        raise Unsupported('MMA.response: move: per-signal branch')
    e2 = RespEmitter(dict(em.env))
    out.append(f'  Definition gen_move_fill_init (zero : A) (xval : tarr A) : tarr A :=\n    {e2.want(br.body[0].value, "T").text}.\n')
    e2.env[A] = AVal('acc', 'T')
    _fill_loop(e2, br.body[1], 'move', out)
    el = br.orelse[0]
    if len(el.orelse) != 1:
        raise Unsupported('MMA.response: move: `elif <length test>: raise ... else: <conversion>` expected')
    out.append(f'  Definition gen_move_len_bad (xval : tarr A) (b : tarr A) : bool :=\n    {_len_bad(base_env, _raise_test(el, "move"), "move")}.\n')
    cv = el.orelse[0]
    if not (isinstance(cv, ast.Assign) and ast.unparse(cv.targets[0]) == A):
        raise Unsupported('MMA.response: move: conversion statement')
    out.append(f'  Definition gen_move_final (b : tarr A) : tarr A :=\n    {em.want(cv.value, "T").text}.\n')
    out.append(MOVE_SKELETON)


CONCAT_STATES = '_concatenate_to_array([s.state for s in self.variables])'


def gen_response_vars(cls, out):
    fn = find_func(cls, 'response')
    body = [s for s in fn.body if not is_doc(s)]
    whiles = [s for s in body if isinstance(s, ast.While)]
    if len(whiles) != 1:
        raise Unsupported('MMA.response: one while loop expected')
    k = body.index(whiles[0])
    pre = [s for s in body[:k] if not (isinstance(s, ast.Assign) and isinstance(s.targets[0], ast.Name) and isinstance(s.value, ast.Constant))]
    if len(pre) != 9:
        raise Unsupported(f'MMA.response: {len(pre)} statements before the iteration loop, expected 9 (concatenate, n, 3 for xmin, 3 for xmax, 1 for move)')
    if ast.unparse(pre[0]) != ast.unparse(ast.parse(f'xval, self.cumlens = {CONCAT_STATES}')):
        raise Unsupported('MMA.response: design vector: ' + ast.unparse(pre[0])[:120])
    if ast.unparse(pre[1]) != 'self.n = len(xval)':
        raise Unsupported('MMA.response: self.n: ' + ast.unparse(pre[1])[:80])
    base = {'xval': AVal('xval', 'T'), 'self.cumlens': AVal('cum', 'L'), 'self.n': AVal('(length (snd xval))', 'N'),
            'len(self.variables)': AVal('nvars', 'N')}
    gen_bound_block(pre[2:5], 'xmin', base, out)
    gen_bound_block(pre[5:8], 'xmax', base, out)
    gen_move_block(pre[8], base, out)
    # ---- inside the iteration loop: write-back, callback / response, read-back
    wb = whiles[0].body
    loops = [s for s in wb if isinstance(s, ast.For) and ast.unparse(s.iter) == 'enumerate(self.variables)']
    if not loops:
        raise Unsupported('MMA.response: the write-back loop was not found')
    lp = loops[0]
    if not (isinstance(lp.target, ast.Tuple) and len(lp.target.elts) == 2 and len(lp.body) == 1 and isinstance(lp.body[0], ast.If)):
        raise Unsupported('MMA.response: write-back loop shape')
    iname, sname = [e.id for e in lp.target.elts]
    cond = lp.body[0]
    a1, a2 = _single_assign(cond.body, 'write-back scalar'), _single_assign(cond.orelse, 'write-back array')
    if ast.unparse(a1.targets[0]) != f'{sname}.state' or ast.unparse(a2.targets[0]) != f'{sname}.state':
        raise Unsupported('MMA.response: write-back target')
    em = RespEmitter({'xval': AVal('xval', 'V'), 'self.cumlens': AVal('cum', 'L'), iname: AVal('i', 'N')})
    tst = em.want(cond.test, 'B')
    v1, v2 = em.want(a1.value, 'A'), em.want(a2.value, 'V')
    out.append('  (* for i, s in enumerate(self.variables): s.state = <item> *)\n'
               '  Definition gen_writeback_item (xval : list A) (cum : list nat) (i : nat) : sval A :=\n'
               f'    if {tst.text} then Scal {v1.text} else Arr {v2.text}.\n')
    # only the reset may come before the write-back; the network response comes after it, then the read-back of the design
    for s in wb[:wb.index(lp)]:
        if ast.unparse(s) != 'self.funbl.reset()':
            raise Unsupported('MMA.response: statement before the write-back: ' + ast.unparse(s)[:80])
    rest = [ast.unparse(s) for s in wb[wb.index(lp) + 1:]]
    rb = ast.unparse(ast.parse(f'xval, _ = {CONCAT_STATES}'))
    if 'self.funbl.response()' not in rest or rb not in rest or rest.index(rb) < rest.index('self.funbl.response()'):
        raise Unsupported('MMA.response: response / read-back of the design vector not found after the write-back')


def _stores_of(fn, name):
    """all statements of the function that bind the local `name` (assignment, augmented assignment, loop target, with / except)"""
    out = []
    for n in ast.walk(fn):
        if isinstance(n, (ast.Assign, ast.AnnAssign, ast.AugAssign)):
            tg = n.targets if isinstance(n, ast.Assign) else [n.target]
            for t in tg:
                if any(isinstance(m, ast.Name) and m.id == name for m in ast.walk(t) if isinstance(m, ast.Name) and isinstance(m.ctx, ast.Store)):
                    out.append(n)
        elif isinstance(n, (ast.For, ast.comprehension)):
            if any(isinstance(m, ast.Name) and m.id == name for m in ast.walk(n.target)):
                out.append(n)
        elif isinstance(n, ast.NamedExpr) and n.target.id == name:
            out.append(n)
    return out


def gen_response_sens(cls, out):
    """"Calculate and save sensitivities" of MMA.response: inside the iteration loop, for every response a FRESH row is built from
    what the variable signals hold after the sensitivity run (v.sensitivity, or 0*v.state when it is None) and the rows of this
    iteration (and nothing else) are handed to mmasub.  Emits gen_sens_item / gen_sens_row (Model/MMAvars.sens_row)."""
    fn = find_func(cls, 'response')
    loop = [s for s in fn.body if isinstance(s, ast.While)][0]
    wb = loop.body
    U = ast.unparse
    rl = [s for s in wb if isinstance(s, ast.For) and U(s.iter) == 'enumerate(self.responses)']
    if len(rl) != 1:
        raise Unsupported('MMA.response: the loop over the responses that collects the sensitivities was not found (exactly one expected)')
    rl = rl[0]
    if rl.orelse or not (isinstance(rl.target, ast.Tuple) and len(rl.target.elts) == 2 and all(isinstance(e, ast.Name) for e in rl.target.elts)):
        raise Unsupported('MMA.response: sensitivity loop target')
    rname = rl.target.elts[1].id
    body = rl.body
    if len(body) != 8:
        raise Unsupported(f'MMA.response: sensitivity loop has {len(body)} statements, expected 8 (reset the responses, seed, sensitivity run, '
                          'empty list, append per variable, concatenate, store the row, reset)')
    rs, seed, run, init, app, cat, store, reset = body
    if not (isinstance(rs, ast.For) and U(rs.iter) == 'self.responses' and len(rs.body) == 1 and isinstance(rs.target, ast.Name)
            and U(rs.body[0]) == f'{rs.target.id}.reset()' and not rs.orelse):
        raise Unsupported('MMA.response: sensitivities of all responses are not reset before the seed is set: ' + U(rs)[:100])
    if not (isinstance(seed, ast.Assign) and U(seed.targets[0]) == f'{rname}.sensitivity'
            and U(seed.value) in (f'{rname}.state * 0 + 1.0', f'0 * {rname}.state + 1.0', '1.0')):
        raise Unsupported('MMA.response: seed of the response: ' + U(seed)[:100])
    if U(run) != 'self.funbl.sensitivity()' or U(reset) != 'self.funbl.reset()':
        raise Unsupported('MMA.response: sensitivity run / reset for the next response: ' + U(run)[:60] + ' ... ' + U(reset)[:60])
    if not (isinstance(init, ast.Assign) and isinstance(init.targets[0], ast.Name) and U(init.value) == '[]'):
        raise Unsupported('MMA.response: the list of sensitivities must start empty for every response: ' + U(init)[:80])
    lname = init.targets[0].id
    if not (isinstance(app, ast.For) and U(app.iter) == 'self.variables' and isinstance(app.target, ast.Name) and not app.orelse and len(app.body) == 1
            and isinstance(app.body[0], ast.Expr) and isinstance(app.body[0].value, ast.Call) and U(app.body[0].value.func) == f'{lname}.append'
            and len(app.body[0].value.args) == 1 and not app.body[0].value.keywords):
        raise Unsupported('MMA.response: one append per variable signal expected: ' + U(app)[:120])
    v = app.target.id
    item = app.body[0].value.args[0]

    def value(n):
        if U(n) == f'{v}.sensitivity':
            return 'g'
        if U(n) in (f'0 * {v}.state', f'{v}.state * 0', f'0.0 * {v}.state', f'{v}.state * 0.0'):
            return 'smap zmul state'
        raise Unsupported('MMA.response: entry of the sensitivity list: ' + U(n)[:100])
    if not (isinstance(item, ast.IfExp) and isinstance(item.test, ast.Compare) and len(item.test.ops) == 1
            and U(item.test.left) == f'{v}.sensitivity' and U(item.test.comparators[0]) == 'None'
            and isinstance(item.test.ops[0], (ast.Is, ast.IsNot))):
        raise Unsupported('MMA.response: `<sensitivity> if <sensitivity> is not None else <zeros>` expected: ' + U(item)[:120])
    some, none = (item.body, item.orelse) if isinstance(item.test.ops[0], ast.IsNot) else (item.orelse, item.body)
    vs, vn = value(some), value(none)
    if vn == 'g':
        raise Unsupported('MMA.response: a None sensitivity is used as a value')
    out.append('  (* sens_list.append(<item>) for every variable signal: its sensitivity, or 0*state when it has none *)\n'
               '  Definition gen_sens_item (zmul : A -> A) (state : sval A) (sens : option (sval A)) : sval A :=\n'
               f'    match sens with Some g => {vs} | None => {vn} end.\n')
    if not (isinstance(cat, ast.Assign) and isinstance(cat.targets[0], ast.Tuple) and len(cat.targets[0].elts) == 2
            and isinstance(cat.targets[0].elts[0], ast.Name) and U(cat.value) == f'_concatenate_to_array({lname})'):
        raise Unsupported('MMA.response: the row is not the concatenation of the list: ' + U(cat)[:100])
    row = cat.targets[0].elts[0].id
    if not (isinstance(store, ast.AugAssign) and isinstance(store.op, ast.Add) and isinstance(store.target, ast.Name)
            and U(store.value) in (f'({row},)',)):
        raise Unsupported('MMA.response: the row is not appended to the tuple of rows: ' + U(store)[:100])
    rows = store.target.id
    # the tuple of rows starts empty in EVERY iteration (inside the while loop, before the loop over the responses) ...
    before = wb[:wb.index(rl)]
    inits = [s for s in before if isinstance(s, ast.Assign) and U(s.targets[0]) == rows]
    if len(inits) != 1 or U(inits[0].value) != '()':
        raise Unsupported(f'MMA.response: `{rows} = ()` expected inside the iteration loop before the sensitivities are collected')
    # ... is bound nowhere else, and the rows, the list and the row are not kept anywhere else
    for nm, cnt in ((rows, 2), (lname, 1), (row, 1)):
        st = _stores_of(fn, nm)
        if len(st) != cnt:
            raise Unsupported(f'MMA.response: {nm} is bound {len(st)} times, expected {cnt}')
    # and mmasub gets exactly these rows
    calls = [n for n in ast.walk(loop) if isinstance(n, ast.Call) and U(n.func) == 'self.mmasub']
    if len(calls) != 1 or len(calls[0].args) != 3 or calls[0].keywords or U(calls[0].args[2]) != f'np.vstack({rows})':
        raise Unsupported('MMA.response: mmasub must be called once with np.vstack(<rows of this iteration>)')
    after = wb[wb.index(rl) + 1:]
    if not any(calls[0] in list(ast.walk(s)) for s in after):
        raise Unsupported('MMA.response: mmasub is not called after the sensitivities were collected')
    out.append('  (* dff, _ = _concatenate_to_array(sens_list) with sens_list built from [] for this response *)\n'
               '  Definition gen_sens_row (zmul : A -> A) (states : list (sval A)) (sens : list (option (sval A))) : list A :=\n'
               '    fst (concat_to_array (map (fun p => gen_sens_item zmul (fst p) (snd p)) (combine states sens))).\n')


VARS_HEADER = """(* GENERATED by tools/gen_C10.py from pymoto/common/mma.py (MMA.response: variable handling) -- do not edit *)
From Coq Require Import Arith List Bool.
From Pymoto Require Import Model.MMAvars.
Import ListNotations.

Section Gen.
  Context {A : Type}.
  Variable d : A.
  Variable conv : dtype -> dtype -> A -> A.
"""


def generate_vars(repo):
    tree, _ = parse_file(os.path.join(repo, 'pymoto/common/mma.py'))
    out = [VARS_HEADER]
    gen_response_vars(find_class(tree, 'MMA'), out)
    gen_response_sens(find_class(tree, 'MMA'), out)
    out.append('End Gen.\n')
    return '\n'.join(out)


HEADER = '''(* GENERATED by tools/gen_C10.py from pymoto/common/mma.py -- do not edit *)
From Coq Require Import ZArith String List Bool.
From Pymoto Require Import Base.Num Base.MMANum.
Import ListNotations.

Section Gen.
  Context {K : Type} `{Num K} `{NumOrd K}.
'''


def generate(repo):
    tree, _ = parse_file(os.path.join(repo, 'pymoto/common/mma.py'))
    out = [HEADER]
    cls = find_class(tree, 'MMA')
    sub = find_func(tree, 'subsolv')
    out.append('  (* ---- MMA.mmasub, component dialect *)\n')
    gen_mmasub(cls, sub, out)
    out.append('  (* ---- residual, vector dialect *)\n')
    gen_residual(tree, out)
    out.append('  (* ---- subsolv: initial point, loop tests, step length, line search *)\n')
    gen_subsolv(tree, out)
    out.append('End Gen.\n')
    return '\n'.join(out)


if __name__ == '__main__':
    import sys
    if len(sys.argv) > 2 and sys.argv[2] == 'vars':
        print(generate_vars(sys.argv[1]))
    else:
        print(generate(sys.argv[1] if len(sys.argv) > 1 else '/repo'))
