#!/usr/bin/env python3
"""tools/baseline_cmp.py <junit.xml>: list baseline (stable_pass) tests that did not pass in the given junit report"""
import json, sys, xml.etree.ElementTree as ET
base = set(json.load(open('/root/.vp/BASELINE.json'))['stable_pass'])
ok = set()
for tc in ET.parse(sys.argv[1]).getroot().iter('testcase'):
    if not any(ch.tag in ('failure', 'error', 'skipped') for ch in tc):
        ok.add(tc.get('classname') + '::' + tc.get('name'))
missing = sorted(base - ok)
print('baseline', len(base), 'passing now', len(base & ok), 'missing', missing)
sys.exit(1 if missing else 0)
