"""C11 translator: regenerates from pymoto/modules/linalg.py, EigenSolve._sparse_eigs, the state machine around the
ARPACK call, statement by statement (fail closed: anything that does not have exactly the expected shape raises
py2coq.Unsupported):

    if self.nmodes is None: self.nmodes = <int>                        -> gen_default_nmodes
    if self.sigma is None:  self.sigma = <zero>                        -> gen_default_sigma
    if <T1>: mat_shifted = A                                           -> gen_no_shift   (T1 translated, see _btest)
    else:
        if B is None: B = sps.eye(*A.shape)                            -> gen_b_identity
        mat_shifted = A - self.sigma * B
    if self.Ainv is None:                                              -> gen_create
        self.Ainv = auto_determine_solver(mat_shifted, ishermitian=self.is_hermitian); self.do_solve = True
    if <T2>: self.do_solve = True                                      -> gen_force_solve (T2 translated)
    if self.do_solve: self.Ainv.update(mat_shifted)                    -> gen_do_solve / gen_update
    AinvOp = LinearOperator(mat_shifted.shape, matvec=self.Ainv.solve, rmatvec=...)
    if self.is_hermitian: return eigsh(A, M=B, k=self.nmodes, OPinv=AinvOp, sigma=self.sigma, mode=self.mode)
    else: [mode check]    return eigs (A, M=B, k=self.nmodes, OPinv=AinvOp, sigma=self.sigma)

The tests T1 / T2 are boolean expressions over the atoms  self.sigma == 0 | self.sigma != 0  (0, 0.0: the numeric zero;
either operand order), not / and / or.  They are emitted over an abstract scalar type with its EXACT equality test
`eqb`: a tolerance (np.isclose, abs(...) < eps, math.isclose) is not an equality and is refused.
coq/bridge/C11/SparseEigsBridge.v proves that Model/Eig.v (sparse_eigs) is this machine for every state and pencil.
"""
import ast, os
from py2coq import Unsupported, parse_file, find_class, find_func


def _is_zero(n):
    return isinstance(n, ast.Constant) and isinstance(n.value, (int, float)) and not isinstance(n.value, bool) and n.value == 0


def _btest(n):
    """boolean expression over `self.sigma == 0` / `self.sigma != 0` -> Coq term over eqb, zero, sigma"""
    if isinstance(n, ast.Compare) and len(n.ops) == 1 and isinstance(n.ops[0], (ast.Eq, ast.NotEq)):
        l, r = n.left, n.comparators[0]
        if (ast.unparse(l) == 'self.sigma' and _is_zero(r)) or (_is_zero(l) and ast.unparse(r) == 'self.sigma'):
            return 'eqb sigma zero' if isinstance(n.ops[0], ast.Eq) else 'negb (eqb sigma zero)'
        raise Unsupported('comparison in a shift test: ' + ast.unparse(n))
    if isinstance(n, ast.UnaryOp) and isinstance(n.op, ast.Not):
        return f'negb ({_btest(n.operand)})'
    if isinstance(n, ast.BoolOp):
        op = ' && ' if isinstance(n.op, ast.And) else ' || '
        return '(' + op.join(f'({_btest(v)})' for v in n.values) + ')'
    raise Unsupported('shift test is not an exact comparison of self.sigma with zero: ' + ast.unparse(n))


def _expect(cond, what, node):
    if not cond:
        raise Unsupported(f'EigenSolve._sparse_eigs, {what}: ' + (ast.unparse(node)[:200] if node is not None else 'missing'))


def _one_line(n):
    return ' '.join(ast.unparse(n).split())


def _cmt(n):
    """source text that is safe inside a Coq comment"""
    return _one_line(n).replace('(*', '( *').replace('*)', '* )')


def gen_sparse_eigs(repo):
    tree, _ = parse_file(os.path.join(repo, 'pymoto/modules/linalg.py'))
    f = find_func(find_class(tree, 'EigenSolve'), '_sparse_eigs')
    body = [s for s in f.body if not (isinstance(s, ast.Expr) and isinstance(s.value, ast.Constant))]   # docstring
    _expect([a.arg for a in f.args.args] == ['self', 'A', 'B'], 'arguments', f.args)
    _expect(len(body) == 8, 'expected 8 statements, found %d' % len(body), body[-1] if body else None)
    s0, s1, s2, s3, s4, s5, s6, s7 = body
    # defaults
    _expect(isinstance(s0, ast.If) and _one_line(s0.test) == 'self.nmodes is None' and not s0.orelse and len(s0.body) == 1
            and isinstance(s0.body[0], ast.Assign) and _one_line(s0.body[0].targets[0]) == 'self.nmodes'
            and isinstance(s0.body[0].value, ast.Constant) and type(s0.body[0].value.value) is int, 'default of nmodes', s0)
    nmodes = s0.body[0].value.value
    _expect(isinstance(s1, ast.If) and _one_line(s1.test) == 'self.sigma is None' and not s1.orelse and len(s1.body) == 1
            and isinstance(s1.body[0], ast.Assign) and _one_line(s1.body[0].targets[0]) == 'self.sigma'
            and _is_zero(s1.body[0].value), 'default of sigma', s1)
    # shift branch
    _expect(isinstance(s2, ast.If) and len(s2.body) == 1 and _one_line(s2.body[0]) == 'mat_shifted = A', 'no-shift branch', s2)
    t1 = _btest(s2.test)
    _expect(len(s2.orelse) == 2 and _one_line(s2.orelse[0]) == 'if B is None: B = sps.eye(*A.shape)'
            and _one_line(s2.orelse[1]) == 'mat_shifted = A - self.sigma * B', 'shift branch', s2)
    # solver creation
    _expect(isinstance(s3, ast.If) and _one_line(s3.test) == 'self.Ainv is None' and not s3.orelse and len(s3.body) == 2
            and _one_line(s3.body[0]) == 'self.Ainv = auto_determine_solver(mat_shifted, ishermitian=self.is_hermitian)'
            and _one_line(s3.body[1]) == 'self.do_solve = True', 'creation of the solver', s3)
    _expect(isinstance(s4, ast.If) and not s4.orelse and len(s4.body) == 1 and _one_line(s4.body[0]) == 'self.do_solve = True',
            'forced refactorisation', s4)
    t2 = _btest(s4.test)
    _expect(_one_line(s5) == 'if self.do_solve: self.Ainv.update(mat_shifted)', 'update of the solver', s5)
    _expect(isinstance(s6, ast.Assign) and _one_line(s6.targets[0]) == 'AinvOp'
            and _one_line(s6.value).startswith('spsla.LinearOperator(mat_shifted.shape, matvec=self.Ainv.solve, rmatvec='),
            'shift-invert operator', s6)
    # the ARPACK calls: what is passed as M, k, OPinv, sigma
    _expect(isinstance(s7, ast.If) and _one_line(s7.test) == 'self.is_hermitian' and len(s7.body) == 1
            and _one_line(s7.body[0]) == 'return spsla.eigsh(A, M=B, k=self.nmodes, OPinv=AinvOp, sigma=self.sigma, mode=self.mode)',
            'Hermitian call', s7)
    _expect(len(s7.orelse) == 2 and isinstance(s7.orelse[0], ast.If) and isinstance(s7.orelse[0].body[0], ast.Raise)
            and _one_line(s7.orelse[0].test) == "self.mode.lower() not in ['normal']"
            and _one_line(s7.orelse[1]) == 'return spsla.eigs(A, M=B, k=self.nmodes, OPinv=AinvOp, sigma=self.sigma)',
            'general call', s7)
    # nothing else in the function may touch the state of the machine
    for n in ast.walk(f):
        if isinstance(n, (ast.Assign, ast.AugAssign)):
            for t in (n.targets if isinstance(n, ast.Assign) else [n.target]):
                if _one_line(t) in ('self.sigma', 'self.nmodes', 'self.do_solve', 'self.Ainv', 'mat_shifted', 'B'):
                    _expect(n in (s0.body[0], s1.body[0], s2.body[0], s2.orelse[0].body[0], s2.orelse[1], s3.body[0], s3.body[1],
                                  s4.body[0]), 'unexpected assignment', n)
    out = ['(* GENERATED by tools/gen_C11.py from pymoto/modules/linalg.py (EigenSolve._sparse_eigs) -- do not edit *)',
           'From Coq Require Import ZArith Bool.', '',
           'Section Gen.',
           '  Context {K : Type}.',
           '  Variable eqb : K -> K -> bool.      (* x == y on the scalars, EXACT *)',
           '  Variable zero : K.', '',
           f'  Definition gen_default_nmodes : Z := {nmodes}%Z.                 (* if self.nmodes is None: self.nmodes = {nmodes} *)',
           '  Definition gen_default_sigma : K := zero.                     (* if self.sigma is None: self.sigma = 0.0 *)',
           f'  (* if {_cmt(s2.test)}:  mat_shifted = A *)',
           f'  Definition gen_no_shift (sigma : K) : bool := {t1}.',
           '  (* else: if B is None: B = sps.eye( *A.shape );  mat_shifted = A - self.sigma * B *)',
           '  Definition gen_b_identity (sigma : K) (b_none : bool) : bool := negb (gen_no_shift sigma) && b_none.',
           f'  (* if {_cmt(s4.test)}:  self.do_solve = True *)',
           f'  Definition gen_force_solve (sigma : K) : bool := {t2}.',
           '  (* if self.Ainv is None: ...; self.do_solve = True   THEN the forced refactorisation   THEN',
           '     if self.do_solve: self.Ainv.update(mat_shifted) *)',
           '  Definition gen_do_solve (sigma : K) (ainv_none do_solve : bool) : bool :=',
           '    let ds1 := if ainv_none then true else do_solve in',
           '    if gen_force_solve sigma then true else ds1.',
           'End Gen.', '']
    return '\n'.join(out)


if __name__ == '__main__':
    import sys
    print(gen_sparse_eigs(sys.argv[1] if len(sys.argv) > 1 else '/repo'))
