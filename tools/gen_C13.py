"""(T) tie for the C13 frame condition: a conservative, fail-closed effect analysis of the methods of DomainDefinition
(pymoto/common/domain.py).  For every method other than __init__ it computes

  writes  : attributes of `self` that may be written -- assigned, deleted, augmented, written through an alias (a local
            name bound to self.X, to a slice / view / item of it, to a container holding it, a loop variable running
            over it), mutated through a method (sort, fill, append, ...), through `out=`, `np.<ufunc>.at`, np.copyto ...;
            and arrays handed in as ARGUMENTS that may be written in place ('@name');
  returns : attributes of `self` the returned object may alias (the object itself or a view of it).

The result is emitted as the Coq list `gen_effects`; coq/bridge/C13/EffectsBridge.v proves it is empty for every method,
which is the frame condition Model/GridHist.v builds in (`step` never changes the object, every query allocates).
Statement or expression forms the analysis does not know raise Unsupported: the obligation fails rather than guesses.
Soundness of the analysis itself is trusted (it is validated on every run by the history oracle of tools/checks/c13_hist.py)."""
import ast, os
from py2coq import Unsupported, parse_file, find_class

VIEW_ATTRS = {'T', 'real', 'imag', 'flat', 'base'}
VALUE_ATTRS = {'shape', 'size', 'ndim', 'dtype', 'nbytes', 'itemsize', 'strides'}
VIEW_METHODS = {'reshape', 'ravel', 'view', 'transpose', 'squeeze', 'swapaxes', 'diagonal', 'items', 'values', 'keys', 'get', '__getitem__'}
COPY_METHODS = {'copy', 'tolist', 'sum', 'prod', 'min', 'max', 'mean', 'flatten', 'any', 'all', 'dot', 'nonzero', 'argsort', 'index', 'count',
                'lower', 'upper', 'encode', 'format', '__format__', 'tobytes', 'cumsum', 'round', 'clip', 'repeat', 'take', 'item'}
MUTATORS = {'sort', 'fill', 'resize', 'append', 'extend', 'insert', 'remove', 'pop', 'clear', 'reverse', 'update', 'put', 'itemset', 'setfield',
            'setflags', 'partition', 'byteswap', 'setdefault', 'popitem', '__setitem__', '__iadd__', '__imul__', 'add', 'discard'}
NP_VIEW = {'asarray', 'asanyarray', 'reshape', 'ravel', 'transpose', 'squeeze', 'atleast_1d', 'atleast_2d', 'atleast_3d', 'broadcast_to',
           'ascontiguousarray', 'asfortranarray', 'swapaxes', 'moveaxis', 'expand_dims', 'broadcast_arrays', 'diagonal', 'flip', 'fliplr', 'flipud',
           'rollaxis', 'split', 'array_split', 'hsplit', 'vsplit', 'nditer', 'real', 'imag'}
NP_WRITE_FIRST = {'put', 'copyto', 'place', 'putmask', 'fill_diagonal', 'put_along_axis'}
PURE_BUILTINS = {'slice', 'divmod', 'ord', 'chr', 'range', 'len', 'int', 'float', 'max', 'min', 'any', 'all', 'next', 'str', 'abs', 'bool', 'round', 'sum', 'isinstance', 'print', 'open',
                 'repr', 'type', 'hasattr', 'getattr'}
PASS_BUILTINS = {'zip', 'enumerate', 'iter', 'reversed', 'list', 'tuple', 'sorted', 'dict', 'set'}        # the result holds references to the arguments
PURE_MODULES = {'np', 'numpy', 'base64', 'struct', 'warnings', 'os', 'sys', 'math'}


# alias sets hold 'X' (the value IS self.X or a view of it), '@x' (the same for argument x) and the boxed forms '~X' / '~@x'
# (the value is a container -- list, tuple, dict, zip ... -- with such an object among its elements)
def direct(al):
    return {x for x in al if not x.startswith('~')}


def elems(al):
    """an element / item / row of a value with alias set al"""
    return {x.lstrip('~') for x in al}


def boxed(al):
    return {'~' + x.lstrip('~') for x in al}


def dotted(node):
    if isinstance(node, ast.Name):
        return node.id
    if isinstance(node, ast.Attribute):
        d = dotted(node.value)
        return None if d is None else d + '.' + node.attr
    return None


class Effects:
    def __init__(self, fn, method_names, helper_names, attrs):
        self.fn, self.methods, self.helpers, self.attrs = fn, method_names, helper_names, attrs
        self.env = {}
        for a in fn.args.args[1:] + fn.args.kwonlyargs + ([fn.args.vararg] if fn.args.vararg else []) + ([fn.args.kwarg] if fn.args.kwarg else []):
            self.env[a.arg] = {'@' + a.arg}
        pos = fn.args.args
        for a, dflt in zip(pos[len(pos) - len(fn.args.defaults):], fn.args.defaults):
            if isinstance(dflt, ast.Constant) and isinstance(dflt.value, str):
                self.env[a.arg] = set()        # a string: immutable, `name += ...` rebinds
        self.writes, self.returns = set(), set()

    # ---- expressions
    def bind(self, target, al):
        if isinstance(target, ast.Name):
            self.env[target.id] = self.env.get(target.id, set()) | al          # weak update: never forgets an alias
        elif isinstance(target, (ast.Tuple, ast.List)):
            for t in target.elts:
                self.bind(t, elems(al))
        elif isinstance(target, ast.Starred):
            self.bind(target.value, al)
        else:
            self.store(target)

    def bind_iter(self, target, it):
        al = elems(self.alias(it))
        if isinstance(it, ast.Call) and isinstance(it.func, ast.Attribute) and it.func.attr == 'items' and not it.args \
                and isinstance(target, (ast.Tuple, ast.List)) and len(target.elts) == 2:
            self.bind(target.elts[0], set())       # dictionary keys are hashable, i.e. immutable
            self.bind(target.elts[1], al)
        elif isinstance(it, ast.Call) and isinstance(it.func, ast.Name) and it.func.id == 'enumerate' and isinstance(target, (ast.Tuple, ast.List)) \
                and len(target.elts) == 2:
            self.bind(target.elts[0], set())       # the counter
            self.bind(target.elts[1], al)
        elif isinstance(it, ast.Call) and isinstance(it.func, ast.Name) and it.func.id == 'range':
            self.bind(target, set())
        else:
            self.bind(target, al)

    def store(self, target):
        """an assignment / deletion / augmented assignment to target"""
        if isinstance(target, ast.Attribute):
            if isinstance(target.value, ast.Name) and target.value.id == 'self':
                self.writes.add(target.attr)
            else:
                self.writes |= direct(self.alias(target.value))
        elif isinstance(target, ast.Subscript):
            self.writes |= direct(self.alias(target.value))
            self.alias(target.slice)
        elif isinstance(target, (ast.Tuple, ast.List)):
            for t in target.elts:
                self.store(t)
        elif isinstance(target, ast.Name):
            pass
        else:
            raise Unsupported(f'assignment target {ast.dump(target)[:80]}')

    def alias(self, e):
        """the set of self attributes ('X') / arguments ('@x') the VALUE of e may alias; also records effects of calls inside e"""
        if e is None or isinstance(e, (ast.Constant,)):
            return set()
        if isinstance(e, ast.Name):
            return set(self.env.get(e.id, set()))
        if isinstance(e, ast.Attribute):
            if isinstance(e.value, ast.Name) and e.value.id == 'self':
                return {e.attr}
            inner = self.alias(e.value)
            if e.attr in VIEW_ATTRS:
                return inner
            if e.attr in VALUE_ATTRS or not inner:
                return set()
            return inner            # an unknown attribute of an aliased object: assume it reaches into it
        if isinstance(e, ast.Subscript):
            self.alias(e.slice)
            return elems(self.alias(e.value))
        if isinstance(e, ast.Slice):
            for p in (e.lower, e.upper, e.step):
                self.alias(p)
            return set()
        if isinstance(e, (ast.BinOp,)):
            self.alias(e.left), self.alias(e.right)
            return set()
        if isinstance(e, ast.UnaryOp):
            self.alias(e.operand)
            return set()
        if isinstance(e, ast.Compare):
            self.alias(e.left)
            for c in e.comparators:
                self.alias(c)
            return set()
        if isinstance(e, ast.BoolOp):
            out = set()
            for v in e.values:
                out |= self.alias(v)
            return out
        if isinstance(e, ast.IfExp):
            self.alias(e.test)
            return self.alias(e.body) | self.alias(e.orelse)
        if isinstance(e, (ast.Tuple, ast.List, ast.Set)):
            out = set()
            for v in e.elts:
                out |= self.alias(v)
            return boxed(out)
        if isinstance(e, ast.Starred):
            return self.alias(e.value)
        if isinstance(e, ast.Dict):
            out = set()
            for v in list(e.keys) + list(e.values):
                out |= self.alias(v)
            return boxed(out)
        if isinstance(e, ast.JoinedStr):
            for v in e.values:
                self.alias(v)
            return set()
        if isinstance(e, ast.FormattedValue):
            self.alias(e.value)
            return set()
        if isinstance(e, (ast.ListComp, ast.GeneratorExp, ast.SetComp)):
            for g in e.generators:
                self.bind_iter(g.target, g.iter)
                for c in g.ifs:
                    self.alias(c)
            return boxed(self.alias(e.elt))
        if isinstance(e, ast.DictComp):
            for g in e.generators:
                self.bind_iter(g.target, g.iter)
                for c in g.ifs:
                    self.alias(c)
            return boxed(self.alias(e.key) | self.alias(e.value))
        if isinstance(e, ast.Call):
            return self.call(e)
        raise Unsupported(f'expression {type(e).__name__}: {ast.unparse(e)[:80]}')

    def call(self, e):
        args = list(e.args) + [k.value for k in e.keywords]
        arg_al = [self.alias(a) for a in args]
        any_self = set().union(*arg_al) if arg_al else set()
        for k in e.keywords:
            if k.arg == 'out':
                self.writes |= elems(self.alias(k.value))
        f = e.func
        name = dotted(f)
        # self.method(...)
        if isinstance(f, ast.Attribute) and isinstance(f.value, ast.Name) and f.value.id == 'self':
            if f.attr not in self.methods:
                if f.attr in self.attrs:
                    raise Unsupported(f'call of the instance attribute self.{f.attr}')
                return set()        # neither a method nor an attribute ever assigned: the call raises AttributeError before it does anything
            return set()            # every method is shown to return no alias and to write no argument
        # np.<ufunc>.at(a, ...), np.put(a, ...), ...
        if name and name.split('.')[0] in ('np', 'numpy'):
            parts = name.split('.')
            if parts[-1] == 'at' and len(parts) >= 3 and args:
                self.writes |= direct(arg_al[0])
                return set()
            if parts[-1] in NP_WRITE_FIRST and args:
                self.writes |= direct(arg_al[0])
                return set()
            if parts[1:2] == ['random'] and parts[-1] in ('shuffle',) and args:
                self.writes |= direct(arg_al[0])
                return set()
            if parts[-1] in NP_VIEW:
                return elems(any_self)
            return set()
        if name and name.split('.')[0] in PURE_MODULES:
            return set()
        if isinstance(f, ast.Name):
            if f.id in PURE_BUILTINS:
                return set()
            if f.id in PASS_BUILTINS:
                return boxed(any_self)
            if f.id in self.helpers or f.id[:1].isupper():       # module-level helper / constructor of a library class
                if any(a and not all(x.startswith('@') for x in elems(a)) for a in arg_al):
                    raise Unsupported(f'attribute of self handed to {f.id}(...)')
                return set()
            raise Unsupported(f'call of {f.id}(...)')
        if isinstance(f, ast.Attribute):
            recv = self.alias(f.value)
            m = f.attr
            if m in MUTATORS:
                self.writes |= direct(recv)
                if args:      # lst.append(x): the container now holds x
                    root = f.value
                    while isinstance(root, (ast.Subscript, ast.Attribute)):
                        root = root.value
                    if isinstance(root, ast.Name) and root.id != 'self':
                        self.env[root.id] = self.env.get(root.id, set()) | boxed(any_self)
                return set()
            if m in ('items', 'values', 'keys'):
                return boxed(recv)
            if m in ('get', 'pop', '__getitem__'):
                return elems(recv)
            if m in VIEW_METHODS or (m == 'astype' and any(k.arg == 'copy' for k in e.keywords)):
                return recv
            if m in COPY_METHODS or m == 'astype':
                return set()
            own = {x for x in elems(recv) if not x.startswith('@')}
            if own:
                raise Unsupported(f'unknown method .{m}(...) on an object reachable from self.{sorted(own)[0]}')
            if any(a and not all(x.startswith('@') for x in elems(a)) for a in arg_al):
                raise Unsupported(f'attribute of self handed to .{m}(...)')
            return set()
        raise Unsupported(f'call {ast.unparse(f)[:60]}')

    # ---- statements
    def block(self, stmts):
        for s in stmts:
            self.stmt(s)

    def stmt(self, s):
        if isinstance(s, ast.Expr):
            self.alias(s.value)
        elif isinstance(s, ast.Assign):
            al = self.alias(s.value)
            for t in s.targets:
                self.bind(t, al)
                root = t
                while isinstance(root, (ast.Subscript, ast.Attribute)):
                    root = root.value
                if root is not t and isinstance(root, ast.Name) and root.id != 'self':
                    self.env[root.id] = self.env.get(root.id, set()) | boxed(al)        # a local container now holds the reference
        elif isinstance(s, ast.AnnAssign):
            al = self.alias(s.value)
            self.bind(s.target, al)
        elif isinstance(s, ast.AugAssign):
            self.alias(s.value)
            if isinstance(s.target, ast.Name):
                self.writes |= direct(self.env.get(s.target.id, set()))       # in place for arrays / lists
            else:
                self.store(s.target)
        elif isinstance(s, ast.Delete):
            for t in s.targets:
                self.store(t)
        elif isinstance(s, ast.Return):
            self.returns |= self.alias(s.value)
        elif isinstance(s, ast.For):
            self.bind_iter(s.target, s.iter)
            self.block(s.body)
            self.block(s.orelse)
        elif isinstance(s, ast.While):
            self.alias(s.test)
            self.block(s.body)
            self.block(s.orelse)
        elif isinstance(s, ast.If):
            self.alias(s.test)
            self.block(s.body)
            self.block(s.orelse)
        elif isinstance(s, ast.With):
            for it in s.items:
                al = self.alias(it.context_expr)
                if it.optional_vars is not None:
                    self.bind(it.optional_vars, al)
            self.block(s.body)
        elif isinstance(s, ast.Try):
            self.block(s.body)
            for h in s.handlers:
                self.block(h.body)
            self.block(s.orelse)
            self.block(s.finalbody)
        elif isinstance(s, ast.Assert):
            self.alias(s.test)
            self.alias(s.msg)
        elif isinstance(s, ast.Raise):
            self.alias(s.exc)
        elif isinstance(s, (ast.Pass, ast.Break, ast.Continue, ast.Import, ast.ImportFrom)):
            pass
        else:
            raise Unsupported(f'statement {type(s).__name__}: {ast.unparse(s)[:80]}')

    def run(self):
        for _ in range(6):          # weak updates are monotone: iterate to the fixpoint (loops, uses before later bindings)
            before = (repr(sorted((k, sorted(v)) for k, v in self.env.items())), sorted(self.writes), sorted(self.returns))
            self.block(self.fn.body)
            after = (repr(sorted((k, sorted(v)) for k, v in self.env.items())), sorted(self.writes), sorted(self.returns))
            if before == after:
                break
        else:
            raise Unsupported('no fixpoint')
        own_ret = {x for x in elems(self.returns) if not x.startswith('@')}
        return sorted(self.writes), sorted(own_ret)


def domain_effects(repo):
    path = os.path.join(repo, 'pymoto/common/domain.py')
    tree, _ = parse_file(path)
    cls = find_class(tree, 'DomainDefinition')
    helpers = {n.name for n in tree.body if isinstance(n, ast.FunctionDef)}
    fns = [n for n in cls.body if isinstance(n, (ast.FunctionDef, ast.AsyncFunctionDef))]
    for n in cls.body:
        if not isinstance(n, (ast.FunctionDef, ast.Expr, ast.Pass)):       # class-level assignments (shared caches) are not modelled
            raise Unsupported(f'class-level statement {type(n).__name__}: {ast.unparse(n)[:80]}')
    for f in fns:
        if f.decorator_list:
            raise Unsupported(f'decorated method {f.name} ({ast.unparse(f.decorator_list[0])[:60]})')
    names = {f.name for f in fns}
    attrs = {t.attr for n in ast.walk(cls) if isinstance(n, (ast.Assign, ast.AugAssign, ast.AnnAssign))
             for t in (n.targets if isinstance(n, ast.Assign) else [n.target]) for t in ast.walk(t)
             if isinstance(t, ast.Attribute) and isinstance(t.value, ast.Name) and t.value.id == 'self'}
    out = []
    for f in fns:
        if f.name == '__init__':
            continue
        out.append((f.name,) + Effects(f, names, helpers, attrs).run())
    return out


def gen_effects(repo):
    eff = domain_effects(repo)
    sl = lambda xs: '[' + '; '.join('"' + x + '"' for x in xs) + ']'      # noqa
    rows = ';\n  '.join(f'("{n}", ({sl(w)}, {sl(r)}))' for n, w, r in eff)
    return ('(* GENERATED by tools/gen_C13.py from pymoto/common/domain.py -- do not edit *)\n'
            'From Coq Require Import String List.\nImport ListNotations.\nOpen Scope string_scope.\n'
            '(* (method, (attributes of self / "@argument" arrays that may be written, attributes the result may alias)) *)\n'
            f'Definition gen_effects : list (string * (list string * list string)) :=\n [{rows}].\n')


if __name__ == '__main__':
    import sys
    print(gen_effects(sys.argv[1] if len(sys.argv) > 1 else '/repo'))
