"""Translator (fail-closed) for pymoto/utils.py::_concatenate_to_array / _split_from_array  ->  Coq text (UtilsGen.v).

Shared by tools/gen_C10.py (minimize_mma) and tools/gen_C17.py (minimize_oc): both optimisers build their design
vector with these two helpers.  The generated definitions are proved equal to the typed model of Model/MMAvars.v
(concat_init / concat_body / split_assert / split_count / split_item) in coq/bridge/<Cxx>/UtilsBridge.v, which then
derives, for the GENERATED loop, that the concatenated vector is float64 whatever the dtypes of the entries.

"Array bookkeeping" dialect: expressions are typed
    N  natural number          len(x), x.size, i, i + 1, integer literals, a - 1
    T  numpy array with dtype  np.array([]), np.append(T, X)
    L  integer index array     np.zeros(N, dtype=int), L with one entry stored (L[N] = N)
    V  plain value array       (the `values` parameter of _split_from_array; slicing does not change a dtype)
    X  the loop element        (its dtype tag dt and its value v)
    P  the list of entries     (only len(var_list) is used)
    B  bool                    N == N
Locals are resolved by substitution, so renaming a local or reordering independent statements gives the same terms;
roles come from the function signature, the `enumerate` loop header and the positions in the return statement.
Anything else raises py2coq.Unsupported.
"""
import ast
import os
from py2coq import Unsupported, parse_file, find_func


class Val:
    def __init__(self, text, kind):
        self.text, self.kind = text, kind


def _doc(s):
    return isinstance(s, ast.Expr) and isinstance(s.value, ast.Constant) and isinstance(s.value.value, str)


def _is_float_dtype(n):
    return ast.unparse(n) in ('float', 'np.float64', 'np.double', "'float64'", "'d'")


def _is_int_dtype(n):
    return ast.unparse(n) in ('int', 'np.int64', 'np.intp', "'int64'")


class ArrEmitter:
    def __init__(self, env):
        self.env = dict(env)

    def fail(self, n, why=''):
        raise Unsupported(f'T-arr: unsupported {type(n).__name__} {why}: {ast.unparse(n)[:140]}')

    def want(self, n, kind):
        v = self.tr(n)
        if v.kind != kind:
            self.fail(n, f'expected kind {kind}, got {v.kind}')
        return v

    def length(self, n, v):
        if v.kind == 'T':
            return Val(f'(length (snd {v.text}))', 'N')
        if v.kind in ('L', 'V'):
            return Val(f'(length {v.text})', 'N')
        if v.kind == 'P':                       # the list of entries handed to _concatenate_to_array
            return Val('nvars', 'N')
        self.fail(n, 'length of kind ' + v.kind)

    def tr(self, n):
        if isinstance(n, ast.Constant):
            if isinstance(n.value, bool) or not isinstance(n.value, int) or n.value < 0:
                self.fail(n, 'constant')
            return Val(str(n.value), 'N')
        if isinstance(n, ast.Name):
            if n.id in self.env:
                v = self.env[n.id]
                if isinstance(v, str):
                    raise Unsupported(f'{n.id} is used but its definition is outside the dialect: {v}')
                return v
            self.fail(n, 'unbound name')
        if isinstance(n, ast.BinOp):
            if isinstance(n.op, ast.Add):
                # successor: E + 1 / 1 + E (so that the term reduces for a variable E)
                for a, b in ((n.left, n.right), (n.right, n.left)):
                    if isinstance(b, ast.Constant) and b.value == 1 and not isinstance(b.value, bool):
                        return Val(f'(S {self.want(a, "N").text})', 'N')
                return Val(f'({self.want(n.left, "N").text} + {self.want(n.right, "N").text})', 'N')
            if isinstance(n.op, ast.Sub):
                return Val(f'({self.want(n.left, "N").text} - {self.want(n.right, "N").text})', 'N')
            self.fail(n, 'operator')
        if isinstance(n, ast.Attribute) and n.attr == 'size':
            return self.length(n, self.tr(n.value))
        if isinstance(n, ast.Compare) and len(n.ops) == 1 and isinstance(n.ops[0], ast.Eq):
            return Val(f'({self.want(n.left, "N").text} =? {self.want(n.comparators[0], "N").text})', 'B')
        if isinstance(n, ast.Subscript):
            base = self.tr(n.value)
            s = n.slice
            if base.kind == 'L' and not isinstance(s, ast.Slice):
                if isinstance(s, ast.UnaryOp) and isinstance(s.op, ast.USub) and isinstance(s.operand, ast.Constant) and s.operand.value == 1:
                    return Val(f'(last {base.text} 0)', 'N')          # L[-1]
                return Val(f'(nth {self.want(s, "N").text} {base.text} 0)', 'N')
            if base.kind == 'V' and isinstance(s, ast.Slice) and s.lower is not None and s.upper is not None and s.step is None:
                return Val(f'(slice {base.text} {self.want(s.lower, "N").text} {self.want(s.upper, "N").text})', 'V')
            self.fail(n, 'subscript')
        if isinstance(n, ast.Call):
            f = ast.unparse(n.func)
            kw = {k.arg: k.value for k in n.keywords}
            if f == 'len' and len(n.args) == 1 and not kw:
                return self.length(n, self.tr(n.args[0]))
            if f == 'np.array' and len(n.args) == 1 and isinstance(n.args[0], ast.List) and not n.args[0].elts and \
                    (not kw or (set(kw) == {'dtype'} and _is_float_dtype(kw['dtype']))):
                return Val('np_empty', 'T')                             # np.array([]): an empty float64 array
            if f in ('np.zeros', 'np.empty') and len(n.args) == 1 and isinstance(n.args[0], ast.Constant) and n.args[0].value == 0 and \
                    (not kw or (set(kw) == {'dtype'} and _is_float_dtype(kw['dtype']))):
                return Val('np_empty', 'T')
            if f == 'np.zeros' and len(n.args) == 1 and set(kw) == {'dtype'} and _is_int_dtype(kw['dtype']):
                return Val(f'(np_zeros_int {self.want(n.args[0], "N").text})', 'L')
            if f == 'np.append' and len(n.args) == 2 and not kw:
                a, b = self.want(n.args[0], 'T'), self.want(n.args[1], 'X')
                return Val(f'(np_append conv {a.text} {b.text})', 'T')
            self.fail(n, 'call')
        self.fail(n)


def _assign_target(s):
    if isinstance(s, ast.Assign) and len(s.targets) == 1:
        return s.targets[0]
    return None


def gen_concat(fn, out):
    if [a.arg for a in fn.args.args] != ['var_list'] or fn.args.vararg or fn.args.kwarg or fn.args.kwonlyargs or fn.args.defaults:
        raise Unsupported('_concatenate_to_array: signature changed')
    body = [s for s in fn.body if not _doc(s)]
    loops = [s for s in body if isinstance(s, ast.For)]
    if len(loops) != 1 or loops[0].orelse:
        raise Unsupported('_concatenate_to_array: exactly one loop expected')
    loop = loops[0]
    k = body.index(loop)
    pre, post = body[:k], body[k + 1:]
    # header: for i, v in enumerate(var_list)
    if not (isinstance(loop.target, ast.Tuple) and len(loop.target.elts) == 2 and all(isinstance(e, ast.Name) for e in loop.target.elts)
            and ast.unparse(loop.iter) == 'enumerate(var_list)'):
        raise Unsupported('_concatenate_to_array: loop header is not `for i, v in enumerate(var_list)`: ' + ast.unparse(loop.target))
    iname, vname = [e.id for e in loop.target.elts]
    # return: (values, cumulative indices)
    if len(post) != 1 or not isinstance(post[0], ast.Return) or not isinstance(post[0].value, ast.Tuple) or len(post[0].value.elts) != 2 \
            or not all(isinstance(e, ast.Name) for e in post[0].value.elts):
        raise Unsupported('_concatenate_to_array: the statements after the loop are not `return <values>, <indices>`: '
                          + '; '.join(ast.unparse(s)[:80] for s in post))
    vals_name, cum_name = [e.id for e in post[0].value.elts]
    # ---- before the loop
    em = ArrEmitter({'var_list': Val('var_list', 'P')})                 # only its length is used: len(var_list) = nvars
    for s in pre:
        t = _assign_target(s)
        if t is None or not isinstance(t, ast.Name):
            raise Unsupported('_concatenate_to_array: statement before the loop: ' + ast.unparse(s)[:100])
        try:
            em.env[t.id] = em.tr(s.value)
        except Unsupported as e:
            em.env[t.id] = str(e)
    for nm, kind in ((vals_name, 'T'), (cum_name, 'L')):
        v = em.env.get(nm)
        if isinstance(v, str):
            raise Unsupported(v)
        if v is None or v.kind != kind:
            raise Unsupported(f'_concatenate_to_array: {nm} is not initialised before the loop as kind {kind}')
    out.append(f'  Definition gen_concat_init (nvars : nat) : tarr A * list nat :=\n    ({em.env[vals_name].text}, {em.env[cum_name].text}).\n')
    # ---- loop body: the None guard first
    lb = list(loop.body)
    g = lb[0] if lb else None
    if not (isinstance(g, ast.If) and not g.orelse and ast.unparse(g.test) == f'{vname} is None' and len(g.body) == 1
            and isinstance(g.body[0], ast.Raise) and isinstance(g.body[0].exc, ast.Call) and ast.unparse(g.body[0].exc.func) == 'ValueError'):
        raise Unsupported('_concatenate_to_array: the loop does not start with `if v is None: raise ValueError(...)`')
    eb = ArrEmitter({vals_name: Val('(fst st)', 'T'), cum_name: Val('(snd st)', 'L'), iname: Val('i', 'N'), vname: Val('dt v', 'X')})
    for s in lb[1:]:
        t = _assign_target(s)
        if t is None:
            raise Unsupported('_concatenate_to_array: loop statement: ' + ast.unparse(s)[:100])
        if isinstance(t, ast.Name):
            if t.id in (iname, vname):
                raise Unsupported('loop variable reassigned')
            try:
                eb.env[t.id] = eb.tr(s.value)
            except Unsupported as e:
                eb.env[t.id] = str(e)
        elif isinstance(t, ast.Subscript) and isinstance(t.value, ast.Name) and not isinstance(t.slice, ast.Slice):
            base = eb.want(t.value, 'L')
            eb.env[t.value.id] = Val(f'(set_at {base.text} {eb.want(t.slice, "N").text} {eb.want(s.value, "N").text})', 'L')
        else:
            raise Unsupported('_concatenate_to_array: loop statement target: ' + ast.unparse(s)[:100])
    fv, fc = eb.env[vals_name], eb.env[cum_name]
    for v, kind in ((fv, 'T'), (fc, 'L')):
        if isinstance(v, str):
            raise Unsupported(v)
        if v.kind != kind:
            raise Unsupported('_concatenate_to_array: accumulator changed kind inside the loop')
    out.append('  Definition gen_concat_body (i : nat) (dt : dtype) (v : sval A) (st : tarr A * list nat) : tarr A * list nat :=\n'
               f'    ({fv.text}, {fc.text}).\n')
    out.append('''  (* for i, v in enumerate(var_list): if v is None: raise ValueError; <body>        (None = ValueError) *)
  Fixpoint gen_concat_loop (i : nat) (vs : list (tstate A)) (st : tarr A * list nat) : option (tarr A * list nat) :=
    match vs with
    | [] => Some st
    | TNone :: _ => None
    | TVal dt v :: r => gen_concat_loop (S i) r (gen_concat_body i dt v st)
    end.
  Definition gen_concatenate_to_array (vs : list (tstate A)) : option (tarr A * list nat) :=
    gen_concat_loop 0 vs (gen_concat_init (length vs)).
''')


def gen_split(fn, out):
    if [a.arg for a in fn.args.args] != ['values', 'cumulative_inds'] or fn.args.vararg or fn.args.kwarg or fn.args.defaults:
        raise Unsupported('_split_from_array: signature changed')
    body = [s for s in fn.body if not _doc(s)]
    em = ArrEmitter({'values': Val('values', 'V'), 'cumulative_inds': Val('cum', 'L')})
    if len(body) != 4:
        raise Unsupported('_split_from_array: expected assert / empty list / loop / return')
    a, init, loop, ret = body
    if not isinstance(a, ast.Assert):
        raise Unsupported('_split_from_array: size assertion missing')
    out.append(f'  Definition gen_split_assert (values : list A) (cum : list nat) : bool :=\n    {em.want(a.test, "B").text}.\n')
    t = _assign_target(init)
    if not (isinstance(t, ast.Name) and ast.unparse(init.value) in ('list()', '[]')):
        raise Unsupported('_split_from_array: result list initialisation')
    res = t.id
    if not (isinstance(loop, ast.For) and not loop.orelse and isinstance(loop.target, ast.Name) and isinstance(loop.iter, ast.Call)
            and ast.unparse(loop.iter.func) == 'range' and len(loop.iter.args) == 1 and not loop.iter.keywords):
        raise Unsupported('_split_from_array: loop header')
    out.append(f'  Definition gen_split_count (cum : list nat) : nat :=\n    {em.want(loop.iter.args[0], "N").text}.\n')
    if len(loop.body) != 1 or not (isinstance(loop.body[0], ast.Expr) and isinstance(loop.body[0].value, ast.Call)
                                   and ast.unparse(loop.body[0].value.func) == f'{res}.append' and len(loop.body[0].value.args) == 1):
        raise Unsupported('_split_from_array: loop body is not a single append')
    em.env[loop.target.id] = Val('i', 'N')
    out.append('  Definition gen_split_item (values : list A) (cum : list nat) (i : nat) : list A :=\n'
               f'    {em.want(loop.body[0].value.args[0], "V").text}.\n')
    if not (isinstance(ret, ast.Return) and isinstance(ret.value, ast.Name) and ret.value.id == res):
        raise Unsupported('_split_from_array: return')
    out.append('''  (* assert <test>; [<item> for i in range(<count>)]                                   (None = AssertionError) *)
  Definition gen_split_from_array (values : list A) (cum : list nat) : option (list (list A)) :=
    if gen_split_assert values cum then Some (map (gen_split_item values cum) (seq 0 (gen_split_count cum))) else None.
''')


HEADER = '''(* GENERATED by tools/gen_utils.py from pymoto/utils.py -- do not edit *)
From Coq Require Import Arith List Bool.
From Pymoto Require Import Model.MMAvars.
Import ListNotations.

Section Gen.
  Context {A : Type}.
  Variable conv : dtype -> dtype -> A -> A.
'''


def generate(repo):
    tree, _ = parse_file(os.path.join(repo, 'pymoto/utils.py'))
    out = [HEADER]
    out.append('  (* ---- _concatenate_to_array *)\n')
    gen_concat(find_func(tree, '_concatenate_to_array'), out)
    out.append('  (* ---- _split_from_array *)\n')
    gen_split(find_func(tree, '_split_from_array'), out)
    out.append('End Gen.\n')
    return '\n'.join(out)


if __name__ == '__main__':
    import sys
    print(generate(sys.argv[1] if len(sys.argv) > 1 else '/repo'))
