"""C01 (part d) -- the eigenvector / eigenvalue sensitivities of EigenSolve are the exact adjoint of the linearised
eigenproblem.

Tie between /repo and the proof development (coq/theories/Model/EigAdj.v, Proofs/EigAdjP.v, Props/C01d.v; executable mirror
over the Gaussian rationals Model/EigAdjExec.v): the real EigenSolve is run (response, then sensitivity with seeds on the
eigenvalues and / or eigenvectors) and Coq evaluates, in exact (Gaussian-)rational arithmetic on the float data,

  dense (`_dense_sens`; symmetric, symmetric generalised, non-symmetric with real spectrum, generalised with NON-symmetric B,
  complex Hermitian (generalised), complex general):
    (1) witnesses nu_i, alpha_i (the harness solves the bordered systems exactly and rounds to 128-bit dyadic numbers, so that all
        Coq arithmetic stays dyadic and cheap) satisfy P_i [nu_i; alpha_i] = [dq_i; dw_i] to 1e-24 relative,
    (2) the returned gA, gB equal sum_i -nu_i q_i^T, sum_i (w_i nu_i + alpha_i/2 q_i) q_i^T (1e-9 relative),
    (3) a tangent (dA, dB, dw_i, dq_i) -- random direction, the linearised equations solved exactly, rounded to 128 bits --
        satisfies them to 1e-24,
    (4) EXACT instance of C01_eig_dense_adjoint_residual: with the seeds P_i [nu_i; alpha_i] of the witnesses and the residuals
        e1_i, e2_i of the tangent,  sum (row1_i . dq_i + row2_i dw_i) = <gA_model, dA> + <gB_model, dB> + sum (nu_i . e1_i - alpha_i/2 e2_i),
    (5) sum_i (wq_i . dq_i + ww_i dw_i) = <gA, dA> + <gB, dB> for the RETURNED matrices and the real seeds (1e-9 relative): the
        adjoint identity of the implementation itself against the tangent of the linearised equations;
  sparse symmetric (`_sparse_eigvec_sens`, `_sparse_eigval_sens`; with / without B, several nmodes / shifts; eigenvalue-only,
  eigenvector-only, mixed and partial column seeds; histories response / sensitivity / new design / response / sensitivities):
    the same with the sparse formulas (witness vp = exact solution of (A - lam B)^T vp = r, rounded; identity for the model
    matrices at 1e-9 because the float eigenpair has a residual);
  sparse NON-symmetric: model == implementation as a relation (the returned gA is -v phi^T with v = vp + c phi for a solution vp
  of the TRANSPOSED system); the adjoint identity does not hold there (C01_eig_sparse_*_nonsym_refuted, finding
  K08_C01_sparse_eig_nonsymmetric), which the finite-difference comparison of this part reproduces on every run.
Entry point: run_part(ctx, pym), called from tools/checks/C01.py.
"""
import time
import warnings
from fractions import Fraction
import numpy as np
import scipy.sparse as sps
import vlib
from vlib import qlit

HEADER = '''From Coq Require Import ZArith QArith Qabs List Bool.
From Pymoto Require Import Base.Num Base.QMat Model.EigAdjExec.
Import ListNotations.
Open Scope Z_scope.
Definition D (m e : Z) : Dy := (m, e).
Definition MD (w : C) (q wq : cvec) (ww : C) (wit : cvec) (al dw : C) (dq : cvec) : mode :=
  {| m_w := w; m_q := q; m_wq := wq; m_ww := ww; m_wit := wit; m_al := al; m_dw := dw; m_dq := dq |}.
'''

K02 = ('EigenSolve._sparse_eigvec_sens', 'sensitivity completes without raising',
       'sparse pencil whose shifted matrix A - lambda_i B factorises with an exactly zero pivot')
# NEW finding (pending registration in known_findings.json): stable triple
NONSYM = ('EigenSolve._sparse_eigvec_sens', 'Re sum(g*v) = d/dt Re sum(w*y(x+tv))',
          'sparse non-symmetric (or complex Hermitian) pencil: the sparse sensitivities assume A^T = A, B^T = B')


# ------------------------------------------------------------------------------------------ exact Gaussian rationals
class GQ:
    """a + b i with Fractions"""
    __slots__ = ('re', 'im')

    def __init__(self, re=0, im=0):
        self.re = re if isinstance(re, Fraction) else Fraction(re)
        self.im = im if isinstance(im, Fraction) else Fraction(im)

    @staticmethod
    def of(z):
        if isinstance(z, GQ):
            return z
        z = complex(z)
        return GQ(Fraction(z.real), Fraction(z.imag))

    def __add__(self, o):
        return GQ(self.re + o.re, self.im + o.im)

    def __sub__(self, o):
        return GQ(self.re - o.re, self.im - o.im)

    def __neg__(self):
        return GQ(-self.re, -self.im)

    def __mul__(self, o):
        if not self.im and not o.im:
            return GQ(self.re * o.re, 0)
        return GQ(self.re * o.re - self.im * o.im, self.re * o.im + self.im * o.re)

    def inv(self):
        d = self.re * self.re + self.im * self.im
        return GQ(self.re / d, -self.im / d)

    def __truediv__(self, o):
        return self * o.inv()

    def __bool__(self):
        return bool(self.re) or bool(self.im)

    def __complex__(self):
        return complex(float(self.re), float(self.im))

    def lit(self):
        return f'({dylit(self.re)}, {dylit(self.im)})'


def dylit(x):
    """dyadic Fraction -> Coq literal of Base/QMat.v's Dy: mantissa * 2^exponent"""
    if not x:
        return '(D 0 0)'
    d = x.denominator
    e = d.bit_length() - 1
    if d != 1 << e:
        raise ValueError('not a dyadic number')
    m = x.numerator
    if e == 0:
        t = (m & -m).bit_length() - 1
        m, e = m >> t, -t
    return f'(D {vlib.zlit(m)} {vlib.zlit(-e)})'


ZERO, ONE, HALF = GQ(0), GQ(1), GQ(Fraction(1, 2))
BITS = 128


def dy(x):
    """Fraction -> nearest dyadic rational with BITS significant bits (floats are dyadic: exact Q arithmetic in Coq stays cheap)"""
    if not x:
        return Fraction(0)
    e = x.numerator.bit_length() - x.denominator.bit_length()
    k = BITS - e
    if k >= 0:
        return Fraction(round(x * (1 << k)), 1 << k)
    return Fraction(round(x / (1 << -k)) * (1 << -k))


def gdy(z):
    return GQ(dy(z.re), dy(z.im))


def gvec(a):
    return [GQ.of(v) for v in np.asarray(a).ravel()]


def gmat(a):
    return [[GQ.of(v) for v in r] for r in np.asarray(a)]


def vlit(v):
    return '[' + '; '.join(x.lit() for x in v) + ']'


def mlit(m):
    return '[' + '; '.join(vlit(r) for r in m) + ']'


def gdot(a, b):
    s = ZERO
    for x, y in zip(a, b):
        s = s + x * y
    return s


def gmv(M, x):
    return [gdot(r, x) for r in M]


def gT(M):
    return [list(c) for c in zip(*M)]


def solve_exact(M, b):
    """Gaussian elimination over Q[i]; returns None when M is (exactly) singular"""
    n = len(M)
    a = [list(r) + [bi] for r, bi in zip(M, b)]
    for c in range(n):
        p = next((r for r in range(c, n) if a[r][c]), None)
        if p is None:
            return None
        a[c], a[p] = a[p], a[c]
        iv = a[c][c].inv()
        a[c] = [x * iv for x in a[c]]
        for r in range(n):
            if r != c and a[r][c]:
                f = a[r][c]
                a[r] = [x - f * y for x, y in zip(a[r], a[c])]
    return [a[r][n] for r in range(n)]


def pencil(A, B, w):
    return [[a - w * b for a, b in zip(ra, rb)] for ra, rb in zip(A, B)]


def tangent_exact(A, B, w, q, dA, dB):
    """(dq, dw): exact solution of the linearised eigenproblem  Z dq + (dA - dw B - w dB) q = 0,
    q^T (B + B^T) dq + q^T dB q = 0"""
    n = len(q)
    Z = pencil(A, B, w)
    Bq = gmv(B, q)
    BBt = [[B[i][j] + B[j][i] for j in range(n)] for i in range(n)]
    last = gmv(gT(BBt), q)                       # q^T (B + B^T)
    M = [Z[i] + [-Bq[i]] for i in range(n)] + [last + [ZERO]]
    dAq, dBq = gmv(dA, q), gmv(dB, q)
    rhs = [-(dAq[i] - w * dBq[i]) for i in range(n)] + [-gdot(q, dBq)]
    sol = solve_exact(M, rhs)
    if sol is None:
        return None
    return [gdy(x) for x in sol[:n]], gdy(sol[n])


def dense_witness(A, B, w, q, wq, ww):
    """exact solution [nu; alpha] of the bordered system of _dense_sens"""
    n = len(q)
    Zt = gT(pencil(A, B, w))
    Bs = [[HALF * (B[i][j] + B[j][i]) for j in range(n)] for i in range(n)]
    Bsq, Bq = gmv(Bs, q), gmv(B, q)
    P = [Zt[i] + [-Bsq[i]] for i in range(n)] + [[-x for x in Bq] + [ZERO]]
    sol = solve_exact(P, list(wq) + [ww])
    if sol is None:
        return None
    return [gdy(x) for x in sol[:n]], gdy(sol[n])


def pscale(A, B, W, n):
    """size of the entries of the bordered / linearised systems (for the 1e-24 relative tolerance of the witness checks)"""
    b = 1.0 if B is None else absmax(B.toarray() if sps.issparse(B) else B)
    a = absmax(A.toarray() if sps.issparse(A) else A)
    return (n + 1) * max(1.0, a + absmax(W) * b) * 8


def mode_lit(w, q, wq, ww, wit, al, dw, dq):
    return f'(MD {w.lit()} {vlit(q)} {vlit(wq)} {ww.lit()} {vlit(wit)} {al.lit()} {dw.lit()} {vlit(dq)})'


def tol_lit(x, p=9):
    return qlit(Fraction(float(x)) * Fraction(1, 10 ** p)) + '%Q'


def gabsmax(v):
    return max([1.0] + [abs(complex(x)) for x in v])


def absmax(a):
    a = np.asarray(a)
    return float(np.abs(a).max()) if a.size else 0.0


# ------------------------------------------------------------------------------------------ implementation runs
def dyadic(rng, shape, cplx=False, lo=-6, hi=7):
    a = rng.integers(lo, hi, size=shape).astype(float) / 4.0
    if cplx:
        a = a + 1j * rng.integers(lo, hi, size=shape).astype(float) / 4.0
    return a


def todense(g):
    if g is None:
        return None
    if hasattr(g, 'todense'):
        g = g.todense()
    return np.asarray(g)


def dense_problem(rng, kind, n):
    """(A, B, direction maker): spectra separated by >= ~1"""
    lam = np.arange(1, n + 1) * 1.5 + rng.random(n) * 0.3
    spd = lambda: (lambda M: (M @ M.T) / n + np.eye(n))(rng.standard_normal((n, n)))
    sym = lambda M: (M + M.T) / 2
    if kind in ('sym', 'symgen'):
        Qo, _ = np.linalg.qr(rng.standard_normal((n, n)))
        A = sym(Qo @ np.diag(lam) @ Qo.T)
        B = spd() if kind == 'symgen' else None
        mk = lambda: sym(dyadic(rng, (n, n)))
    elif kind in ('gen', 'gengen'):
        X = rng.standard_normal((n, n)) + 2 * np.eye(n)
        S = X @ np.diag(lam) @ np.linalg.inv(X)
        if kind == 'gengen':
            K = rng.standard_normal((n, n)) * 0.4
            B = spd() + (K - K.T)                                    # NON-symmetric, q^T B q > 0 for real q
            A = B @ S
        else:
            A, B = S, None
        mk = lambda: dyadic(rng, (n, n))
    elif kind in ('herm', 'hermgen'):
        M = rng.standard_normal((n, n)) + 1j * rng.standard_normal((n, n))
        U, _ = np.linalg.qr(M)
        A = U @ np.diag(lam) @ U.conj().T
        A = (A + A.conj().T) / 2
        if kind == 'hermgen':
            N = rng.standard_normal((n, n)) + 1j * rng.standard_normal((n, n))
            B = (N @ N.conj().T) / n + np.eye(n)
            B = (B + B.conj().T) / 2
        else:
            B = None
        mk = lambda: (lambda D: (D + D.conj().T) / 2)(dyadic(rng, (n, n), cplx=True))
    elif kind == 'cgen':
        A = np.triu(rng.standard_normal((n, n)) + 1j * rng.standard_normal((n, n)), 1) + np.diag(lam + 0.5j * rng.random(n))
        Pm = rng.standard_normal((n, n)) + 2 * np.eye(n)
        A = Pm @ A @ np.linalg.inv(Pm)
        B = None
        mk = lambda: dyadic(rng, (n, n), cplx=True)
    else:
        raise ValueError(kind)
    return A, B, mk


def eig_instance(pym, ins, **kw):
    sigs = [pym.Signal(f'in{i}', x.copy()) for i, x in enumerate(ins)]
    sW, sQ = pym.Signal('W'), pym.Signal('Q')
    m = pym.EigenSolve(sigs, [sW, sQ], **kw)
    return m, sigs, sW, sQ


def make_seeds(rng, seed_kind, W, Q, cplx):
    """(dW, dQ) with None for an unseeded output; small dyadic values"""
    k = W.size
    dW = dyadic(rng, (k,), cplx and np.iscomplexobj(W))
    dQ = dyadic(rng, Q.shape, cplx)
    if seed_kind == 'eigval':
        return dW, None
    if seed_kind == 'eigvec':
        return None, dQ
    if seed_kind == 'partial':                       # some columns / entries zero: those modes are skipped by the code
        keepq = rng.random(k) < 0.5
        keepw = rng.random(k) < 0.5
        if not keepq.any():
            keepq[int(rng.integers(k))] = True
        dQ[:, ~keepq] = 0
        dW[~keepw] = 0
        return dW, dQ
    return dW, dQ


# ------------------------------------------------------------------------------------------ dense cases
def dense_case(ctx, pym, rng, kind, n, seed_kind, out):
    A, B, mk = dense_problem(rng, kind, n)
    cplx = np.iscomplexobj(A)
    ins = [A] if B is None else [A, B]
    m, sigs, sW, sQ = eig_instance(pym, ins)
    m.response()
    W, Q = np.array(sW.state), np.array(sQ.state)
    dW, dQ = make_seeds(rng, seed_kind, W, Q, cplx)
    if dW is not None:
        sW.sensitivity = dW.copy()
    if dQ is not None:
        sQ.sensitivity = dQ.copy()
    case = dict(part='dense', kind=kind, n=n, seed_kind=seed_kind, A=str(A.tolist()), B=None if B is None else str(B.tolist()),
                dW=None if dW is None else str(dW.tolist()), dQ=None if dQ is None else str(dQ.tolist()))
    try:
        m.sensitivity()
    except Exception as e:  # noqa
        ctx.violation('impl-violates', 'EigenSolve._dense_sens', 'response/sensitivity complete without raising', f'dense {kind}', case,
                      got=f'{type(e).__name__}: {str(e)[:300]}')
        return
    gA = todense(sigs[0].sensitivity)
    gB = todense(sigs[1].sensitivity) if B is not None else None
    dA = mk()
    dB = 0.25 * mk() if B is not None else np.zeros((n, n))
    Aq, Bq = gmat(A), gmat(B if B is not None else np.eye(n))
    dAq, dBq = gmat(dA), gmat(dB)
    modes, scaleI, scaleS = [], 1.0, 1.0
    for i in range(W.size):
        wq = np.zeros(n) if dQ is None else dQ[:, i]
        ww = 0.0 if dW is None else dW[i]
        if np.linalg.norm(wq) == 0 and ww == 0:
            continue                                                                        # skipped by the code as well
        w_, q_ = GQ.of(W[i]), gvec(Q[:, i])
        wit = dense_witness(Aq, Bq, w_, q_, gvec(wq), GQ.of(ww))
        tan = tangent_exact(Aq, Bq, w_, q_, dAq, dBq)
        if wit is None or tan is None:
            ctx.count('eig:dense:exactly singular bordered system (skipped)')
            return
        modes.append(mode_lit(w_, q_, gvec(wq), GQ.of(ww), wit[0], wit[1], tan[1], tan[0]))
        scaleS = max(scaleS, gabsmax(wit[0] + [wit[1]]), gabsmax(tan[0] + [tan[1]]))
        scaleI += float(np.abs(wq) @ np.abs(np.array([complex(x) for x in tan[0]]))) + abs(ww) * abs(complex(tan[1]))
    if not modes:
        return
    scaleI += float(np.abs(gA).ravel() @ np.abs(dA).ravel()) + (float(np.abs(gB).ravel() @ np.abs(dB).ravel()) if gB is not None else 0.0)
    hasB = B is not None
    args = (f'{n}%nat {"true" if hasB else "false"} {mlit(Aq)} {mlit(Bq)} {mlit(dAq)} {mlit(dBq)} {mlit(gmat(gA))} '
            f'{mlit(gmat(gB)) if hasB else "[]"} [' + '; '.join(modes) + '] '
            f'{tol_lit(scaleS * pscale(A, B, W, n), 24)} {tol_lit(max(1.0, absmax(gA)))} {tol_lit(max(1.0, absmax(gB) if hasB else 1.0))} {tol_lit(scaleI)}')
    label = ('eig-dense', kind, n, seed_kind, hasB)
    ctx.count(f'eig:dense:{kind}:{seed_kind}')
    ctx.count(f'eig:dense:n{n}:modes seeded {len(modes)}')
    ctx.case((label, str(A.tolist())[:200], str(dW), str(dQ)[:200]), n >= 2 and len(modes) >= 1,
             sample=dict(kind='EigenSolve dense adjoint', pencil=kind, n=n, seeds=seed_kind, modes_seeded=len(modes)))
    # finite-difference oracle on the same direction (testing): class-preserving direction, sign normalisation stable
    fd = None
    seeded_vec = [i for i in range(W.size) if dQ is not None and np.linalg.norm(dQ[:, i]) > 0]
    if all(abs(np.real(np.average(Q[:, i]))) > 1e-3 for i in seeded_vec):
        fd = fd_check(pym, lambda ins_: eig_instance(pym, ins_), ins, [dA] + ([dB] if hasB else []), dW, dQ,
                      [gA] + ([gB] if hasB else []), 1e-6)
        ctx.search_evaluations += 1
    out.append(dict(kind='dense', expr='dense_check ' + args, parts='dense_check_parts ' + args, label=label, case=case, fd=fd,
                    names=['bordered systems solved by the witnesses (1e-24)', 'gA == sum -nu_i q_i^T (1e-9)',
                           'gB == sum (w_i nu_i + alpha_i/2 q_i) q_i^T (1e-9)', 'tangent satisfies the linearised equations (1e-24)',
                           'adjoint identity with residuals, model matrices (exact)', 'adjoint identity, returned matrices (1e-9)'],
                    site='EigenSolve._dense_sens'))


def fd_check(pym, make, ins, dirs, dW, dQ, grads, h):
    def f(t):
        m, sigs, sW, sQ = make([x + t * d for x, d in zip(ins, dirs)])
        m.response()
        W, Q = np.asarray(sW.state), np.asarray(sQ.state)
        return (0.0 if dW is None else float(np.real(np.sum(dW * W)))) + (0.0 if dQ is None else float(np.real(np.sum(dQ * Q))))
    try:
        d1 = (f(h) - f(-h)) / (2 * h)
        d2 = (f(2 * h) - f(-2 * h)) / (4 * h)
    except Exception:  # noqa
        return None
    fdv = (4 * d1 - d2) / 3
    an = sum(float(np.real(np.sum(np.asarray(g) * (d.toarray() if sps.issparse(d) else d)))) for g, d in zip(grads, dirs))
    return dict(fd=fdv, an=an, err=abs(fdv - an) / max(1.0, abs(fdv), abs(an)), spread=abs(d1 - d2) / max(1.0, abs(d1)))


# ------------------------------------------------------------------------------------------ sparse cases
def sparse_problem(rng, n, withB):
    kd = 2.0 + rng.random(n) + 0.35 * np.arange(n)
    ko = -(0.5 + 0.4 * rng.random(n - 1))
    K = sps.diags([ko, kd, ko], [-1, 0, 1], format='csc')
    if not withB:
        return K, None
    md = 1.0 + rng.random(n)
    mo = 0.1 * rng.random(n - 1)
    return K, sps.diags([mo, md, mo], [-1, 0, 1], format='csc')


def sparse_record(ctx, n, K, M, W, Q, dW, dQ, gA, gB, rng, out, tag, case):
    """one sensitivity() result of the sparse symmetric path -> one Coq case"""
    hasB = M is not None
    A = K.toarray()
    B = M.toarray() if hasB else np.eye(n)
    sym = lambda D: (D + D.T) / 2
    dA = sym(dyadic(rng, (n, n))) if rng.random() < 0.5 else dyadic(rng, (n, n))
    dB = 0.25 * sym(dyadic(rng, (n, n))) if hasB else np.zeros((n, n))
    Aq, Bq, dAq, dBq = gmat(A), gmat(B), gmat(dA), gmat(dB)
    evs, vcs, scaleI, scaleS = [], [], 1.0, 1.0
    zero = [ZERO] * n
    for i in range(W.size):
        w_, q_ = GQ.of(W[i]), gvec(Q[:, i])
        ww = 0.0 if dW is None else dW[i]
        wq = np.zeros(n) if dQ is None else dQ[:, i]
        seeded_v = wq.min() != 0 or wq.max() != 0
        if ww == 0 and not seeded_v:
            continue
        tan = tangent_exact(Aq, Bq, w_, q_, dAq, dBq)
        if tan is None:
            ctx.count('eig:sparse:exactly singular linearised system (skipped)')
            return
        dqf = np.array([complex(x) for x in tan[0]])
        scaleS = max(scaleS, gabsmax(tan[0] + [tan[1]]))
        if ww != 0:
            iq = gdy(gdot(q_, gmv(Bq, q_)).inv())
            evs.append(mode_lit(w_, q_, zero, GQ.of(ww), zero, iq, tan[1], tan[0]))
            scaleI += abs(ww) * abs(complex(tan[1]))
        if seeded_v:
            dphi = gvec(wq)
            alpha = -gdot(q_, dphi)
            Btphi = gmv(gT(Bq), q_)
            r = [d + alpha * b for d, b in zip(dphi, Btphi)]
            vp = solve_exact(gT(pencil(Aq, Bq, w_)), r)
            if vp is None:
                ctx.count('eig:sparse:A - lam B exactly singular in Q (skipped)')
                return
            vp = [gdy(x) for x in vp]
            scaleS = max(scaleS, gabsmax(vp))
            vcs.append(mode_lit(w_, q_, dphi, ZERO, vp, ZERO, tan[1], tan[0]))
            scaleI += float(np.abs(wq) @ np.abs(dqf))
    if not evs and not vcs:
        return
    scaleI += float(np.abs(gA).ravel() @ np.abs(dA).ravel()) + (float(np.abs(gB).ravel() @ np.abs(dB).ravel()) if hasB else 0.0)
    args = (f'{n}%nat {"true" if hasB else "false"} {mlit(Aq)} {mlit(Bq)} {mlit(dAq)} {mlit(dBq)} {mlit(gmat(gA))} '
            f'{mlit(gmat(gB)) if hasB else "[]"} [' + '; '.join(evs) + '] [' + '; '.join(vcs) + '] '
            f'{tol_lit(max(1.0, absmax(A)))} {tol_lit(scaleS * pscale(A, B, W, n), 24)} {tol_lit(max(1.0, absmax(gA)))} '
            f'{tol_lit(max(1.0, absmax(gB) if hasB else 1.0))} {tol_lit(scaleI)}')
    label = ('eig-sparse', tag, n, hasB, len(evs), len(vcs))
    ctx.count(f'eig:sparse:{tag}:{"B" if hasB else "noB"}:eigval-seeded {len(evs)}:eigvec-seeded {len(vcs)}')
    ctx.case((label, str(case)[:400]), len(evs) + len(vcs) >= 1,
             sample=dict(kind='EigenSolve sparse adjoint', n=n, withB=hasB, eigval_seeds=len(evs), eigvec_seeds=len(vcs), tag=tag))
    out.append(dict(kind='sparse', expr='sparse_check ' + args, parts='sparse_check_parts ' + args, label=label, case=case, fd=None,
                    names=['A, B symmetric; eigenpairs and normalisation hold (1e-9)',
                           'vp solves (A - lam B)^T vp = r; iq * qmq = 1 (1e-24)',
                           'gA == sum dw_i/qmq q_i q_i^T - v_i phi_i^T (1e-9)',
                           'gB == - sum w_i dw_i/qmq q_i q_i^T + sum (alpha_i/2 phi_i + lam_i v_i) phi_i^T (1e-9)',
                           'tangent satisfies the linearised equations (1e-24)',
                           'adjoint identity, model matrices (1e-9)', 'adjoint identity, returned matrices (1e-9)'],
                    site='EigenSolve._sparse_eigvec_sens'))


def sparse_sens(ctx, m, sigs, sW, sQ, dW, dQ, case):
    """seed, call sensitivity(), read the dense input sensitivities, reset; None on a (registered) exception"""
    if dW is not None:
        sW.sensitivity = dW.copy()
    if dQ is not None:
        sQ.sensitivity = dQ.copy()
    try:
        m.sensitivity()
    except Exception as e:  # noqa
        if 'exactly singular' in str(e):
            ctx.violation('impl-violates', *K02, dict(case, note='raised inside C01_eig'), got=str(e)[:200])
        else:
            ctx.violation('impl-violates', 'EigenSolve._sparse_eigvec_sens', 'response/sensitivity complete without raising',
                          'sparse symmetric pencil', case, got=f'{type(e).__name__}: {str(e)[:300]}')
        m.reset()
        return None
    gA = todense(sigs[0].sensitivity)
    gB = todense(sigs[1].sensitivity) if len(sigs) > 1 else None
    m.reset()
    return gA, gB


def sparse_case(ctx, pym, rng, n, withB, kw, seed_kind, out, history=False):
    K, M = sparse_problem(rng, n, withB)
    ins = [K] if M is None else [K, M]
    m, sigs, sW, sQ = eig_instance(pym, ins, **kw)
    m.response()
    W, Q = np.array(sW.state), np.array(sQ.state)
    if np.iscomplexobj(Q) or np.iscomplexobj(W):
        ctx.count('eig:sparse:complex output for a symmetric pencil (skipped)')
        return
    base = dict(part='sparse', n=n, withB=withB, options=str(kw), seed_kind=seed_kind, K=str(K.toarray().tolist()),
                M=None if M is None else str(M.toarray().tolist()))
    if not history:
        dW, dQ = make_seeds(rng, seed_kind, W, Q, False)
        case = dict(base, dW=None if dW is None else str(dW.tolist()), dQ=None if dQ is None else str(dQ.tolist()))
        r = sparse_sens(ctx, m, sigs, sW, sQ, dW, dQ, case)
        if r is not None and r[0] is not None:
            sparse_record(ctx, n, K, M, W, Q, dW, dQ, r[0], r[1], rng, out, seed_kind, case)
        return
    # history: every mode seeded for design 1; a NEW design; then the modes seeded one after the other in separate
    # sensitivity() calls (several response functions depending on different modes)
    k = W.size
    dQ = dyadic(rng, Q.shape)
    case = dict(base, step='design 1, all modes', dQ=str(dQ.tolist()))
    r = sparse_sens(ctx, m, sigs, sW, sQ, None, dQ, case)
    if r is not None and r[0] is not None:
        sparse_record(ctx, n, K, M, W, Q, None, dQ, r[0], r[1], rng, out, 'history:design1', case)
    K2, M2 = sparse_problem(rng, n, withB)
    sigs[0].state = K2
    if M2 is not None:
        sigs[1].state = M2
    m.response()
    W2, Q2 = np.array(sW.state), np.array(sQ.state)
    order = list(range(k))
    rng.shuffle(order)
    for step, i in enumerate(order):
        dQi = np.zeros(Q2.shape)
        dQi[:, i] = dyadic(rng, (n,))
        if not dQi[:, i].any():
            dQi[0, i] = 0.5
        case = dict(base, step=f'design 2, call {step + 1}: only mode {i} seeded', K2=str(K2.toarray().tolist()),
                    M2=None if M2 is None else str(M2.toarray().tolist()), dQ=str(dQi.tolist()))
        r = sparse_sens(ctx, m, sigs, sW, sQ, None, dQi, case)
        if r is not None and r[0] is not None:
            sparse_record(ctx, n, K2, M2, W2, Q2, None, dQi, r[0], r[1], rng, out, f'history:design2:call{step + 1}', case)


# ------------------------------------------------------------------------------------------ sparse non-symmetric: relation + finding
def nonsym_problem(rng, n, withB):
    kd = 2.0 + rng.random(n) + 0.7 * np.arange(n)
    ku = -(0.5 + 0.4 * rng.random(n - 1))
    kl = -(0.15 + 0.2 * rng.random(n - 1))                   # ku * kl > 0: real spectrum
    A = sps.diags([kl, kd, ku], [-1, 0, 1], format='csc')
    B = sps.diags([1.0 + rng.random(n)], [0], format='csc') if withB else None
    return A, B


def nonsym_case(ctx, pym, rng, n, withB, out):
    A, B = nonsym_problem(rng, n, withB)
    ins = [A] if B is None else [A, B]
    k = 2
    m, sigs, sW, sQ = eig_instance(pym, ins, nmodes=k, sigma=0.0)
    m.response()
    W, Q = np.array(sW.state), np.array(sQ.state)
    if absmax(np.imag(W)) > 0 or absmax(np.imag(Q)) > 0:
        ctx.count('eig:nonsym:complex eigenpair (skipped)')
        return
    W, Q = np.real(W), np.real(Q)
    i = int(rng.integers(k))
    dQ = np.zeros(Q.shape)
    dQ[:, i] = dyadic(rng, (n,))
    if not dQ[:, i].any():
        dQ[0, i] = 0.5
    case = dict(part='sparse non-symmetric', n=n, withB=withB, A=str(A.toarray().tolist()),
                B=None if B is None else str(B.toarray().tolist()), mode=i, dQ=str(dQ.tolist()))
    sQ.sensitivity = dQ.copy()
    try:
        m.sensitivity()
    except Exception as e:  # noqa
        if 'exactly singular' in str(e):
            ctx.violation('impl-violates', *K02, dict(case, note='raised inside C01_eig'), got=str(e)[:200])
        else:
            ctx.violation('impl-violates', 'EigenSolve._sparse_eigvec_sens', 'response/sensitivity complete without raising',
                          'sparse non-symmetric pencil', case, got=f'{type(e).__name__}: {str(e)[:300]}')
        return
    gA = np.real(todense(sigs[0].sensitivity))
    Ad, Bd = A.toarray(), (B.toarray() if B is not None else np.eye(n))
    phi, lam, dphi = Q[:, i], W[i], dQ[:, i]
    v = -gA @ phi / (phi @ phi)
    Zt = (Ad - lam * Bd).T
    r = dphi - (phi @ dphi) * (Bd.T @ phi)
    zp = Zt @ phi
    c = float((Zt @ v - r) @ zp / (zp @ zp)) if zp @ zp > 0 else 0.0
    tolV = max(1.0, absmax(Zt) * absmax(v) * n)
    args = (f'{mlit(gmat(Ad))} {mlit(gmat(Bd))} {mlit(gmat(gA))} {GQ.of(lam).lit()} {vlit(gvec(phi))} {vlit(gvec(dphi))} '
            f'{vlit(gvec(v))} {GQ.of(c).lit()} {tol_lit(tolV)} {tol_lit(max(1.0, absmax(gA)))}')
    label = ('eig-nonsym', n, withB, i)
    ctx.count(f'eig:nonsym:{"B" if withB else "noB"}')
    ctx.case((label, str(case)[:400]), True, sample=dict(kind='EigenSolve sparse non-symmetric: model == implementation (relation)', n=n, withB=withB))
    # the finding: finite differences disagree with the returned sensitivity
    dA = nonsym_problem(rng, n, False)[0] * 0.5
    fd = fd_check(pym, lambda ins_: eig_instance(pym, ins_, nmodes=k, sigma=0.0), ins, [dA] + ([0.0 * B] if withB else []), None, dQ,
                  [gA] + ([np.zeros((n, n))] if withB else []), 1e-6)
    ctx.search_evaluations += 1
    if fd is not None and fd['spread'] < 1e-4 and abs(np.real(np.average(phi))) > 1e-3:
        if fd['err'] > 1e-4:
            ctx.count('eig:nonsym:finding K08_C01_sparse_eig_nonsymmetric reproduced (finite differences != sensitivity)')
            if any(f.get('status') == 'known' and (f['call_site'], f['predicate'], f['input_class']) == NONSYM for f in ctx.findings):
                ctx.violation('impl-violates', *NONSYM, case, expected=fd['fd'], got=fd['an'])
        else:
            ctx.count('eig:nonsym:finite differences agree')
    out.append(dict(kind='nonsym', expr='sparse_relation ' + args, parts='sparse_relation_parts ' + args, label=label, case=case, fd=None,
                    names=['gA == - v phi^T (1e-9)', '(A - lam B)^T v == r + c (A - lam B)^T phi: v = vp + c phi with the TRANSPOSED solve (1e-9)',
                           'v . B phi == 0 (1e-9)'], site='EigenSolve._sparse_eigvec_sens'))


# ------------------------------------------------------------------------------------------ entry point
def run_part(ctx, pym):
    warnings.filterwarnings('ignore')
    t0 = time.time()
    quick = ctx.quick()
    rng = np.random.default_rng(ctx.seed + 77)
    out = []
    ctx.assumptions += ['EigenSolve (C01d): the adjoint identity is proved for every tangent of the LINEARISED eigenproblem and as an exact '
                        'finite-difference identity between two eigenpairs; that the eigenpair of a simple eigenvalue depends differentiably '
                        'on (A, B) (implicit function theorem) is NOT proved -- validated by the finite-difference oracle',
                        'EigenSolve (C01d): the model keeps all quantities in one field (real data with real spectrum, or complex data); the '
                        'np.real(...) projection for real matrices with complex eigenpairs is outside the model (oracle only)',
                        'EigenSolve (C01d): the sparse theorems carry A^T = A, B^T = B (refuted otherwise: finding K08_C01_sparse_eig_nonsymmetric)']
    ctx.rule += (' (g) EigenSolve sensitivities: dense pencils of 7 classes x seed kinds (eigenvalue-only / eigenvector-only / mixed / '
                 'partial columns), sparse symmetric pencils x options x seed kinds and call histories, sparse non-symmetric pencils; Coq '
                 'checks witnesses of the linear solves, gA/gB == Model/EigAdj formulas and the adjoint identity against an exactly solved '
                 'tangent (dyadic arithmetic, 1e-9); non-trivial: n >= 2 and >= 1 seeded mode.')
    ctx.trusted += ['Print Assumptions: all C01_eig_* theorems (Props/C01d.v) closed under the global context (mathcomp, algebra-tactics ring)']
    reps = 1 if quick else 5
    seed_kinds = ['mixed', 'eigvec', 'eigval', 'partial']
    kinds = ['sym', 'symgen', 'gen', 'gengen', 'herm', 'hermgen', 'cgen']
    for rep in range(reps):
        for j, kind in enumerate(kinds):
            for s, sk in enumerate(seed_kinds):
                if quick and (j + s + ctx.seed) % 2 and not (kind == 'gengen' and sk in ('mixed', 'eigvec')):
                    continue                                  # quick: half of the (kind, seeds) grid, rotating with the seed
                n = int(rng.integers(2, 5)) if kind in ('herm', 'hermgen', 'cgen') else int(rng.integers(2, 6))
                dense_case(ctx, pym, rng, kind, n, sk, out)
        opts = [dict(nmodes=1), dict(nmodes=2, sigma=0.3, hermitian=True), dict(nmodes=3, sigma=0.0), dict(nmodes=3, sigma=0.5, hermitian=True),
                dict(nmodes=2)]
        for j, kw in enumerate(opts):
            for withB in (False, True):
                sk = seed_kinds[(j + int(withB) + rep + ctx.seed) % 4]
                sparse_case(ctx, pym, rng, int(rng.integers(6, 10)), withB, kw, sk, out)
        for withB in (False, True):
            sparse_case(ctx, pym, rng, int(rng.integers(6, 9)), withB, dict(nmodes=2, sigma=0.0, hermitian=True), 'eigvec', out)
            sparse_case(ctx, pym, rng, int(rng.integers(6, 9)), withB, dict(nmodes=3 if withB else 2, sigma=0.2), 'history', out, history=True)
            nonsym_case(ctx, pym, rng, int(rng.integers(5, 8)), withB, out)
    t_gen = time.time()
    # balance the shards by size
    order = sorted(range(len(out)), key=lambda i: -len(out[i]['expr']))
    nsh = max(1, -(-len(out) // 6))
    perm = [order[j * nsh + k] for k in range(nsh) for j in range(6) if j * nsh + k < len(out)]
    out = [out[i] for i in perm]
    failing, err = vlib.run_cases(ctx, 'eig', HEADER, [o['expr'] for o in out], chunk=nsh)
    ctx.extra['eig_seconds'] = dict(generate=round(t_gen - t0, 1), coq_cases=round(time.time() - t_gen, 1), cases=len(out))
    ctx.obligation('correspondence:EigenSolve case files evaluated', 'correspondence', not err, err)
    ctx.obligation('correspondence:EigenSolve gA, gB == model (witnessed bordered / singular solves); adjoint identity against the exact tangent',
                   'correspondence', not failing and not err, str(failing[:10]))
    if err:
        ctx.violation('correspondence', 'EigenSolve._sensitivity', 'case files compile', 'harness', dict(error=err[-3000:]), theorem='cases_eig')
    for idx in failing[:6]:
        o = out[idx]
        vals, e2 = vlib.eval_coq(ctx, f'eig_fail_{idx}', HEADER, [o['parts']], timeout=300)
        failed = []
        if vals:
            flags = [t.strip() for t in vals[0].strip().strip('[]').split(';')]
            failed = [nm for nm, fl in zip(o['names'], flags) if fl != 'true']
        failed = failed or o['names'][:1]
        ctx.violation('correspondence', o['site'], failed[0], o['kind'], dict(o['case'], failed=failed, label=str(o['label'])),
                      note='Coq model (Model/EigAdj.v via Model/EigAdjExec.v) and implementation differ', theorem='cases_eig')
    # oracle verdicts of the dense cases (finite differences along the tangent direction)
    for o in out:
        fd = o['fd']
        if fd is not None and fd['spread'] < 1e-5 and fd['err'] > 1e-5:
            ctx.violation('impl-violates', o['site'], 'Re sum(g*v) = d/dt Re sum(w*y(x+tv))', o['kind'] + ' ' + str(o['label'][1]), o['case'],
                          expected=fd['fd'], got=fd['an'], note=f"relative error {fd['err']:.3e}")
