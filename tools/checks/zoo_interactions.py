"""Interaction scenarios for the module zoo (C01 / C04): everything a check that builds ONE fresh module per case and
calls it once cannot see.  All scenarios are deterministic in the seed, run on every seed, and compare with a pristine
reference (a fresh instance evaluated alone, or an independent numpy formula).

  accumulate_check      inputs that ALREADY hold a sensitivity (dense real / dense complex / real or complex DyadCarrier /
                        python scalars): sensitivity() must ADD g, also twice, and the result must stay readable
  shared_signal_check   two instances fed by the SAME input Signal objects (fan-out): contributions add up
  interleaved_check     several instances (two per configuration, different input values, the option objects -- domain,
                        kernels, element matrices, index arrays -- shared) evaluated in interleaved orders and re-evaluated
  shared_strategy_check aggregation modules sharing ONE AggScaling / AggActiveSet object, second response before the first
                        sensitivity, re-evaluations with damping history
  input_layout_check    caller-owned input arrays in every memory layout (strided / negative-stride / transposed views,
                        other sparse formats): same results, buffers unchanged
  linsolve_formula_check  LinSolve under every option against numpy formulas with seeds in every memory layout
"""
import contextlib
import warnings
import numpy as np
import scipy.sparse as sps
import modzoo
from modzoo import snapshot, same, close, dense, _c, make_seeds

class ImplLimit(Exception):
    pass


@contextlib.contextmanager
def limited(cpu_seconds=20.0, extra_bytes=2 << 30):
    """CPU-time alarm + address-space cap around one scenario: a faulty implementation may loop or grow without bound
    (e.g. a DyadCarrier added to itself through shared lists); that must end as a reported failure"""
    import signal, resource

    def on_alarm(signum, frame):
        raise ImplLimit(f'implementation exceeded {cpu_seconds} s of CPU time in one scenario')
    old_handler = signal.signal(signal.SIGVTALRM, on_alarm)
    soft, hard = resource.getrlimit(resource.RLIMIT_AS)
    try:
        with open('/proc/self/statm') as f:
            now = int(f.read().split()[0]) * resource.getpagesize()
        cap = now + extra_bytes
        if hard != resource.RLIM_INFINITY:
            cap = min(cap, hard)
        if soft != resource.RLIM_INFINITY:
            cap = min(cap, soft)
        resource.setrlimit(resource.RLIMIT_AS, (cap, hard))
    except (OSError, ValueError):
        pass
    signal.setitimer(signal.ITIMER_VIRTUAL, cpu_seconds)
    try:
        yield
    finally:
        signal.setitimer(signal.ITIMER_VIRTUAL, 0)
        signal.signal(signal.SIGVTALRM, old_handler)
        try:
            resource.setrlimit(resource.RLIMIT_AS, (soft, hard))
        except (OSError, ValueError):
            pass


def strict_snapshot(x, pym):
    """dense image of a sensitivity; discarding an imaginary part or a failing conversion is an error"""
    with warnings.catch_warnings():
        warnings.simplefilter('error')
        if isinstance(x, pym.DyadCarrier):
            d = np.array(x.todense())
            if d.size == 0:
                return None          # a carrier without any dyad is the zero matrix
            if bool(x.iscomplex()) != bool(np.iscomplexobj(d)) and np.iscomplexobj(d) and np.any(d.imag != 0):
                raise TypeError('DyadCarrier with complex content reports iscomplex() == False')
            # the contraction used by the assembly modules agrees with the dense image
            n0, n1 = d.shape
            if n0 and n1:
                E = sps.coo_matrix((np.ones(min(n0, n1)), (np.arange(min(n0, n1)), np.arange(min(n0, n1))[::-1])), shape=d.shape)
                c = x.contract_multi([E])
                r = np.sum(E.toarray() * d)
                if abs(c[0] - r) > 1e-9 * max(1.0, abs(r)):
                    raise TypeError(f'DyadCarrier.contract_multi disagrees with todense(): {c[0]} vs {r}')
            return ('dy', d)
        return snapshot(x)


def vadd(a, b, fa=1.0, fb=1.0):
    if a is None and b is None:
        return None
    za = 0.0 if a is None else fa * a[1]
    zb = 0.0 if b is None else fb * b[1]
    return ('ar', np.asarray(za + zb))


def agree(a, b, tol):
    if a is None and b is None:
        return True
    return close(a, b, tol)


def _uins(entry, ins):
    return [ins[i] for i in modzoo._uniq(entry, ins)]


def _install(outs, seeds):
    for s, w in zip(outs, seeds):
        s.sensitivity = None if w is None else _c(w)


# ------------------------------------------------------------------------------------------- accumulation
def preset_variants(x, pym, rng):
    """admissible sensitivities an input signal may already hold when the module adds its own (label, value)"""
    R = lambda *shape: rng.standard_normal(shape) if shape else rng.standard_normal()
    out = []
    if sps.issparse(x):
        n0, n1 = x.shape
        cplx = np.iscomplexobj(x.data)
        out.append(('real DyadCarrier', pym.DyadCarrier(R(n0), R(n1))))
        out.append(('real DyadCarrier, two dyads', pym.DyadCarrier([R(n0), R(n0)], [R(n1), R(n1)])))
        if cplx:
            out.append(('complex DyadCarrier', pym.DyadCarrier(R(n0) + 1j * R(n0), R(n1) + 1j * R(n1))))
        out.append(('dense array', R(n0, n1) + (1j * R(n0, n1) if cplx else 0)))
        out.append(('empty DyadCarrier', pym.DyadCarrier()))
    elif isinstance(x, np.ndarray):
        cplx = np.iscomplexobj(x)
        out.append(('dense array of the input type', R(*x.shape) + (1j * R(*x.shape) if cplx else 0)))
        out.append(('integer-typed dense array', rng.integers(-3, 4, size=x.shape)))
        if x.ndim == 2:
            out.append(('Fortran-ordered dense array', np.asfortranarray(R(*x.shape) + (1j * R(*x.shape) if cplx else 0))))
        if cplx:
            out.append(('real dense array on a complex input', R(*x.shape)))
    else:
        cplx = isinstance(x, complex) or np.iscomplexobj(x)
        out.append(('python scalar', complex(R(), R()) if cplx else float(R())))
        if cplx:
            out.append(('real python scalar on a complex input', float(R())))
    return out


def accumulate_check(entry, pym, rng):
    """returns list of (call_site|None, predicate, detail) failures"""
    fails = []
    tol = max(entry.get('xtol', 1e-9), 1e-9)
    m, ins, outs = entry['build']()
    uins = _uins(entry, ins)
    m.response()
    seeds = make_seeds(outs, rng, pym)
    _install(outs, seeds)
    m.sensitivity()
    g = [strict_snapshot(s.sensitivity, pym) for s in uins]
    m.reset()
    variants = [preset_variants(s.state, pym, rng) for s in uins]
    for v in range(max(len(x) for x in variants)):
        chosen = [x[v % len(x)] for x in variants]
        labels = [c[0] for c in chosen]
        for s, (lab, val) in zip(uins, chosen):
            s.sensitivity = val.copy() if hasattr(val, 'copy') else val
        pre = [strict_snapshot(s.sensitivity, pym) for s in uins]
        _install(outs, seeds)
        try:
            for rep in (1, 2):
                m.sensitivity()
                now = [strict_snapshot(s.sensitivity, pym) for s in uins]
                bad = [i for i, (p, gi, nw) in enumerate(zip(pre, g, now)) if not agree(vadd(p, gi, 1.0, float(rep)), nw, tol)]
                if bad:
                    fails.append((None, 'sensitivity() ADDS its contribution g to the sensitivity an input already holds',
                                  dict(input=bad[0], already_held=labels[bad[0]], calls=rep)))
                    break
        except ImplLimit:
            raise
        except Exception as ex:
            fails.append((None, 'sensitivity() ADDS its contribution g to the sensitivity an input already holds (completes, result readable)',
                          dict(already_held=labels, error=f'{type(ex).__name__}: {str(ex)[:300]}')))
        for s in uins + list(outs):
            s.sensitivity = None
        m.reset()
        if len(fails) >= 2:
            break
    return fails


# ------------------------------------------------------------------------------------------- fan-out
def shared_signal_check(entry, pym, rng):
    """two instances of the configuration consume the SAME input Signal objects; both are evaluated, then both
    backpropagate (Network order: last module first, then the other order on top)"""
    fails = []
    tol = max(entry.get('xtol', 1e-9), 1e-9)
    m1, ins, outs1 = entry['build']()
    outs2 = [pym.Signal(f'second_out{j}') for j in range(entry['nout'])]
    m2 = entry['mk'](ins, outs2)
    uins = _uins(entry, ins)
    st0 = [snapshot(s.state) for s in uins]
    m1.response()
    m2.response()
    w1, w2 = make_seeds(outs1, rng, pym), make_seeds(outs2, rng, pym)
    _install(outs1, w1)
    m1.sensitivity()
    g1 = [strict_snapshot(s.sensitivity, pym) for s in uins]
    m1.reset()
    _install(outs2, w2)
    m2.sensitivity()
    g2 = [strict_snapshot(s.sensitivity, pym) for s in uins]
    m2.reset()
    _install(outs1, w1)
    _install(outs2, w2)
    m2.sensitivity()
    m1.sensitivity()
    tot = [strict_snapshot(s.sensitivity, pym) for s in uins]
    for i, (a, b, t) in enumerate(zip(g1, g2, tot)):
        if not agree(vadd(a, b), t, tol):
            fails.append((None, 'two modules fed by the same input signal: the input receives the sum of both contributions', dict(input=i, order='second, first')))
            return fails
    m1.sensitivity()
    m2.sensitivity()
    tot = [strict_snapshot(s.sensitivity, pym) for s in uins]
    for i, (a, b, t) in enumerate(zip(g1, g2, tot)):
        if not agree(vadd(a, b, 2.0, 2.0), t, tol):
            fails.append((None, 'two modules fed by the same input signal: the input receives the sum of both contributions', dict(input=i, order='second, first, first, second')))
            return fails
    if any(not same(a, snapshot(s.state)) for a, s in zip(st0, uins)):
        fails.append((None, 'shared input states unchanged', None))
    return fails


# ------------------------------------------------------------------------------------------- interleaving
def _moved_inputs(entry, rng):
    """a second admissible input point of the configuration (same matrix class)"""
    base = [_c(x) for x in entry['ins']]
    dirs = entry['dirs'](rng)
    rep = entry.get('rep_of') or list(range(len(base)))
    out = []
    for i, (x, v) in enumerate(zip(base, dirs)):
        if rep[i] != i:
            out.append(None)
        elif v is None:
            out.append(x)
        elif sps.issparse(x):
            out.append((x + 0.03 * v).asformat(x.format))
        else:
            out.append(x + 0.03 * v)
    return out


def _evaluate_solo(entry, pym, inputs, seeds=None, rng=None):
    m, ins, outs = entry['build']()
    if inputs is not None:
        for s, x in zip(ins, inputs):
            if x is not None:
                s.state = _c(x)
    m.response()
    if seeds is None:
        seeds = make_seeds(outs, rng, pym)
    _install(outs, seeds)
    m.sensitivity()
    return dict(y=[snapshot(s.state) for s in outs], g=[strict_snapshot(s.sensitivity, pym) for s in _uins(entry, ins)], seeds=seeds)


def fd_in_situ(entry, pym, m, ins, outs, seeds, g, rng):
    """relative error between Re sum(g*v) and the Richardson central difference of Re sum(w*y) along an admissible
    direction, evaluated with THIS instance (its inputs are restored afterwards)"""
    uq = modzoo._uniq(entry, ins)
    uins = [ins[i] for i in uq]
    dirs = entry['dirs'](rng)
    udirs = [dirs[i] for i in uq]
    ubase = [_c(s.state) for s in uins]
    if entry['freeze']:
        entry['freeze'](m)
    an = sum(modzoo.pairing(None if gi is None else gi[1], vi, pym) for gi, vi in zip(g, udirs) if vi is not None)
    h = entry['h']

    def f(t):
        modzoo.set_inputs(uins, ubase, udirs, t)
        m.response()
        return modzoo.phi(outs, seeds)
    d1 = (f(h) - f(-h)) / (2 * h)
    d2 = (f(h / 2) - f(-h / 2)) / h
    fd = (4 * d2 - d1) / 3
    modzoo.set_inputs(uins, ubase, udirs, 0.0)
    m.response()
    scale = max(abs(an), abs(fd), 1e-3 * sum(float(np.sum(np.abs(dense(s.state)))) for s in outs) + 1e-12)
    return abs(an - fd) / scale


def interleaved_check(group, pym, rng):
    """group: zoo entries (typically built on the same domain object / kernels / index arrays).  Two instances per entry
    (the entry's point and a moved point).  References: each (entry, point) alone on a fresh instance, BEFORE the
    interleaved instances exist.  Then all instances are built, all responses run, all sensitivities run (so every
    other instance's response lies between an instance's response and its sensitivity), everything is reset and
    re-evaluated in the reverse order."""
    fails = []
    plan = []
    for e in group:
        for moved in (False, True):
            inputs = _moved_inputs(e, rng) if moved else None
            plan.append((e, inputs, _evaluate_solo(e, pym, inputs, rng=rng), moved))
    inst = []
    for e, inputs, ref, moved in plan:
        m, ins, outs = e['build']()
        if inputs is not None:
            for s, x in zip(ins, inputs):
                if x is not None:
                    s.state = _c(x)
        inst.append((m, ins, outs))
    for rnd, order in enumerate((list(range(len(inst))), list(reversed(range(len(inst)))))):
        for k in order:
            inst[k][0].response()
        differs = set()
        for k in order:
            m, ins, outs = inst[k]
            e, inputs, ref, moved = plan[k]
            tol = max(e.get('xtol', 1e-9), 1e-9)
            if any(not agree(a, snapshot(s.state), tol) for a, s in zip(ref['y'], outs)):
                # a response that depends on the other instances is not a clause of C01/C04 by itself: the sensitivity of
                # THIS response is then checked against finite differences of this very instance instead of the reference
                differs.add(k)
            _install(outs, ref['seeds'])
        for k in order:
            m, ins, outs = inst[k]
            e, inputs, ref, moved = plan[k]
            tol = max(e.get('xtol', 1e-9), 1e-9)
            m.sensitivity()
            now = [strict_snapshot(s.sensitivity, pym) for s in _uins(e, ins)]
            if k in differs:
                err = fd_in_situ(e, pym, m, ins, outs, ref['seeds'], now, rng)
                if err > e['tol']:
                    fails.append((e, 'Re sum(g*v) = d/dt Re sum(w*y(x+tv)) for an instance evaluated among other instances',
                                  dict(round=rnd, position=k, moved_point=moved, relative_error=err, others=[str(p[0]['name']) for p in plan])))
                    return fails
                continue
            if any(not agree(a, b, tol) for a, b in zip(ref['g'], now)):
                fails.append((e, 'sensitivity of an instance evaluated among other instances (their responses lie between its response and its sensitivity) '
                                 'equals the sensitivity of a fresh instance evaluated alone',
                              dict(round=rnd, position=k, moved_point=moved, others=[str(p[0]['name']) for p in plan])))
                return fails
        for m, ins, outs in inst:
            m.reset()
    return fails


# ------------------------------------------------------------------------------------------- shared strategy objects
def shared_strategy_check(pym, rng):
    """aggregation modules that share ONE AggScaling (and/or one AggActiveSet) object.  y = sf * agg(x[sel]) with the
    factor sf used in (and frozen at) THAT module's response; the reference gradient is w * (y / agg0) * grad agg(x[sel])
    with agg0 / grad from a pristine module without any strategy object evaluated on x[sel] alone."""
    fails = []
    nev = 0
    classes = (('PNorm', 'p', (4.0, -3.0)), ('KSFunction', 'rho', (5.0, -4.0)), ('SoftMinMax', 'alpha', (4.0, -3.0)))

    def reference(cls, pname, v, x, sel, y, w):
        xs = np.array(x[sel], copy=True)
        s_in, s_out = pym.Signal('xs', xs), pym.Signal('ys')
        r = getattr(pym, cls)([s_in], [s_out], **{pname: v})
        r.response()
        agg0 = float(s_out.state)
        s_out.sensitivity = 1.0
        r.sensitivity()
        gs = np.asarray(s_in.sensitivity, dtype=float)
        gfull = np.zeros_like(x)
        gfull[sel] = w * (float(y) / agg0) * gs
        return gfull
    active_options = (None, dict(lower_amt=0.1, upper_amt=0.9), dict(lower_rel=0.1, upper_rel=0.95), dict(upper_amt=0.8),
                      dict(lower_rel=0.1, upper_rel=0.95, lower_amt=0.1, upper_amt=0.9))
    for damping in (0.0, 0.5, 1.0):
        for akw in active_options:
            for sign in (0, 1):
                which = 'max' if sign == 0 else 'min'
                scaling = pym.AggScaling(which, damping=damping)
                act = pym.AggActiveSet(**akw) if akw is not None else None
                mods = []
                n_same = int(rng.integers(10, 14))
                for cls, pname, vals in classes:
                    n = n_same if len(mods) != 2 else int(rng.integers(8, 10))      # two modules of equal input size, then a different one
                    x = rng.random(n) * (1.0 + len(mods)) + 0.3
                    sx, sy = pym.Signal('x', x), pym.Signal('y')
                    kw = {pname: vals[sign], 'scaling': scaling}
                    if act is not None:
                        kw['active_set'] = act
                    mods.append((cls, pname, vals[sign], getattr(pym, cls)([sx], [sy], **kw), sx, sy))
                for rnd in range(3):
                    order = list(range(len(mods))) if rnd != 1 else list(reversed(range(len(mods))))
                    if rnd > 0:
                        for (_, _, _, m, sx, sy) in mods:
                            sx.state = sx.state * (1.0 + 0.2 * rng.random(sx.state.shape))
                    rec = []
                    for k in order:
                        cls, pname, v, m, sx, sy = mods[k]
                        m.response()
                        # the selection by a pristine strategy object (not the shared one, not the module's own record)
                        sel = pym.AggActiveSet(**akw)(np.array(sx.state, copy=True)) if act is not None else Ellipsis
                        rec.append((k, float(sy.state), np.array(sx.state, copy=True), sel))
                    # every sensitivity after ALL responses (as a Network does), first evaluated module first
                    for (k, y, x, sel) in rec:
                        cls, pname, v, m, sx, sy = mods[k]
                        nev += 1
                        w = float(rng.integers(1, 4)) * (1.0 if rng.random() < 0.5 else -0.5)
                        sy.sensitivity = w
                        m.sensitivity()
                        got = np.asarray(sx.sensitivity, dtype=float)
                        exp = reference(cls, pname, v, x, sel, y, w)
                        sc = max(float(np.max(np.abs(exp))), 1e-300)
                        if got.shape != exp.shape or float(np.max(np.abs(got - exp))) > 1e-9 * sc:
                            fails.append((cls, 'sensitivity is the adjoint of the response that was computed (scaling factor and active set frozen at THIS module\'s response)',
                                          dict(shared='one AggScaling' + (' and one AggActiveSet' if act is not None else '') + f' object shared by {len(mods)} aggregation modules',
                                               which=which, damping=damping, active_set=akw, param={pname: v}, round=rnd,
                                               position_in_evaluation_order=[r[0] for r in rec].index(k)),
                                          exp.tolist(), got.tolist()))
                    for (_, _, _, m, sx, sy) in mods:
                        m.reset()
                    if fails:
                        return fails, nev
    return fails, nev


# ------------------------------------------------------------------------------------------- input layouts
def input_layout_check(entry, pym, rng):
    """caller-owned input arrays handed over as non-contiguous views / other sparse formats: response and sensitivities
    equal those for contiguous copies, and neither the arrays nor the buffers they live in are changed"""
    fails = []
    tol = max(entry.get('xtol', 1e-9), 1e-9)
    base = entry['ins']
    lay = []
    for x in base:
        if isinstance(x, np.ndarray) and x.ndim >= 1 and x.size > 0:
            lay.append(modzoo.seed_layouts(x))
        elif sps.issparse(x):
            lay.append({'csr format': (x.tocsr(), None), 'csc format, unsorted indices': (_unsorted(x), None)})
        else:
            lay.append({})
    labels = sorted(set(k for d in lay for k in d))
    if not labels:
        return fails
    ref = _evaluate_solo(entry, pym, None, rng=rng)
    for lab in labels:
        m, ins, outs = entry['build']()
        owners = []
        rep = entry.get('rep_of') or list(range(len(ins)))
        for i, (s, d) in enumerate(zip(ins, lay)):
            if rep[i] == i and lab in d:
                arr, own = d[lab]
                if own is not None:
                    owners.append((own, own.copy()))
                else:
                    owners.append((arr, arr.copy()))
                s.state = arr
        try:
            m.response()
            y = [snapshot(s.state) for s in outs]
            _install(outs, ref['seeds'])
            m.sensitivity()
            g = [strict_snapshot(s.sensitivity, pym) for s in _uins(entry, ins)]
            m.reset()
        except ImplLimit:
            raise
        except Exception as ex:
            if modzoo._is_sparse_eig(entry) and 'exactly singular' in str(ex):
                # known finding K02: A - lam_i*B is factorised on this first sensitivity() after the response() of a new instance;
                # whether SuperLU meets an exactly zero pivot depends on rounding (storage order, ARPACK start vector)
                continue
            fails.append((None, 'response/sensitivity complete for an input handed over as ' + lab, dict(error=f'{type(ex).__name__}: {str(ex)[:300]}')))
            continue
        if any(not agree(a, b, tol) for a, b in zip(ref['y'], y)):
            fails.append((None, 'response does not depend on the memory layout / storage format of an input', dict(layout=lab)))
        elif any(not agree(a, b, tol) for a, b in zip(ref['g'], g)):
            fails.append((None, 'sensitivities do not depend on the memory layout / storage format of an input', dict(layout=lab)))
        for own, own0 in owners:
            changed = (own != own0).nnz if sps.issparse(own) else not np.array_equal(own, own0)
            if changed:
                fails.append((None, 'response()/sensitivity()/reset() change an input state', dict(layout=lab)))
                break
        if len(fails) >= 2:
            break
    return fails


def _unsorted(x):
    y = sps.csc_matrix(x, copy=True)
    for j in range(y.shape[1]):
        a, b = y.indptr[j], y.indptr[j + 1]
        y.indices[a:b] = y.indices[a:b][::-1].copy()
        y.data[a:b] = y.data[a:b][::-1].copy()
    y.has_sorted_indices = False
    return y


# ------------------------------------------------------------------------------------------- LinSolve formulas
def linsolve_formula_check(entry, pym, rng):
    """LinSolve entry (any option set): x = A^-1 b, db = A^-T w (real part for real b), dA = -db_c (x) x (real part for
    real A) by numpy, for the seed in every memory layout, one and two sensitivity() calls, seed unchanged"""
    fails = []
    A0, b0 = entry['ins']
    A = A0.toarray() if sps.issparse(A0) else np.array(A0)
    xr = np.linalg.solve(A, b0)
    loose = 'CG' in str(entry['cfg'])
    tol = 1e-6 if loose else 1e-9
    w = rng.standard_normal(xr.shape) + (1j * rng.standard_normal(xr.shape) if np.iscomplexobj(xr) else 0)
    lam = np.linalg.solve(A.T, w)
    gb = lam if np.iscomplexobj(b0) else lam.real
    gA = -(lam @ xr.T if xr.ndim > 1 else np.outer(lam, xr))
    if not np.iscomplexobj(A):
        gA = gA.real
    lays = {'contiguous copy': (w.copy(), None)}
    lays.update(modzoo.seed_layouts(w))
    for lab, (arr, own) in lays.items():
        m, ins, outs = entry['build']()
        m.response()
        if not close(('ar', xr), snapshot(outs[0].state), tol):
            fails.append(('A x = b', dict(seed_layout=lab)))
            return fails
        own0 = None if own is None else own.copy()
        outs[0].sensitivity = arr
        for rep in (1, 2):
            m.sensitivity()
            got_b, got_A = snapshot(ins[1].sensitivity), strict_snapshot(ins[0].sensitivity, pym)
            if not close(('ar', rep * gb), got_b, tol) or not close(('ar', rep * gA), got_A, tol):
                fails.append(('db = A^-T w, dA = -db (x) x (numpy reference)' if rep == 1 else 'second sensitivity() adds the same contribution',
                              dict(seed_layout=lab, calls=rep)))
                return fails
            if not np.array_equal(arr, w) or (own is not None and not np.array_equal(own, own0)):
                fails.append(('sensitivity() writes only sensitivities of the module inputs (seed unchanged)', dict(seed_layout=lab, calls=rep)))
                return fails
    return fails


# ------------------------------------------------------------------------------------------- witnesses (corpus)
def witness_checks(pym, prop):
    """corpus/<prop>/interaction_witnesses.json: witnesses of repaired defects (F36, F37); returns (failures, count)"""
    import json, os
    root = os.path.dirname(os.path.dirname(os.path.dirname(os.path.abspath(__file__))))
    with open(os.path.join(root, 'corpus', prop, 'interaction_witnesses.json')) as f:
        cases = json.load(f)['cases']
    fails = []
    rng = np.random.default_rng(36037)
    for c in cases:
        try:
            if c['kind'] == 'real-then-complex':
                z0 = np.array([complex(a, b) for a, b in c['z']])
                w_re, w_im = np.array(c['w_re']), np.array(c['w_im'])
                if c.get('scalar'):
                    z0, w_re, w_im = complex(z0[0]), float(w_re[0]), float(w_im[0])
                z, s_re, s_im = pym.Signal('z', z0), pym.Signal('re'), pym.Signal('im')
                mods = [getattr(pym, nm)(z, s_re if nm == 'RealPart' else s_im) for nm in c['order']]
                net = pym.Network(*mods)
                net.response()
                s_re.sensitivity, s_im.sensitivity = _c(w_re), _c(w_im)
                net.sensitivity()
                if not np.allclose(z.sensitivity, w_re - 1j * w_im, rtol=1e-13, atol=0):
                    fails.append((c['id'], 'a complex signal consumed by RealPart and ImagPart receives w_re - i w_im', str(z.sensitivity)))
            elif c['kind'] == 'int-then-float':
                sx, sy = pym.Signal('x', np.array(c['x'])), pym.Signal('y')
                m = pym.Scaling([sx], [sy], scaling=c['scaling'], minval=1.0)
                m.response()
                w = np.array([0.5, 0.25, -1.5])
                sy.sensitivity = w.copy()
                m.sensitivity()
                g = np.array(sx.sensitivity, dtype=float)
                m.reset()
                sx.sensitivity = np.array(c['held'], dtype=int)
                sy.sensitivity = w.copy()
                m.sensitivity()
                if np.all(g == np.round(g)) or not np.allclose(sx.sensitivity, np.array(c['held']) + g, rtol=1e-13):
                    fails.append((c['id'], 'a float contribution is added to an integer-typed sensitivity without truncation', str(sx.sensitivity)))
            elif c['kind'] == 'assemble-bc-seed':
                d = pym.DomainDefinition(*c['domain'])
                bc = np.array(c['bc'])
                x = rng.random(d.nel) + 0.2
                sx, sK = pym.Signal('x', x.copy()), pym.Signal('K')
                kw = dict(bc=bc, bcdiagval=2.0) if c['module'] == 'AssemblePoisson' else dict(bc=bc)
                m = getattr(pym, c['module'])([sx], [sK], d, **kw)
                m.response()
                n = sK.state.shape[0]
                if c['seed'] == 'dense':
                    W = rng.standard_normal((n, n))
                    W0 = W.copy()
                else:
                    W = pym.DyadCarrier([rng.standard_normal(n), rng.standard_normal(n)], [rng.standard_normal(n), rng.standard_normal(n)])
                    W0 = np.array(W.todense())
                sK.sensitivity = W
                for rep in (1, 2):
                    m.sensitivity()
                    now = W if c['seed'] == 'dense' else np.array(W.todense())
                    if not np.array_equal(now, W0):
                        fails.append((c['id'], 'seed (sensitivity of the output signal) is not modified', f'after call {rep}'))
                        break
                # reference: mask a copy, contract with the derivative of the response by differences of the linear map
                Wm = W0.copy()
                Wm[bc, :] = 0
                Wm[:, bc] = 0
                g = np.zeros(d.nel)
                K0 = sK.state.toarray()
                for e_ in range(d.nel):
                    xe = x.copy()
                    xe[e_] += 1.0
                    sx.state = xe
                    m.response()
                    g[e_] = np.sum((sK.state.toarray() - K0) * Wm)
                if not np.allclose(sx.sensitivity, 2 * g, rtol=1e-10, atol=1e-12):
                    fails.append((c['id'], 'two sensitivity() calls add twice the adjoint of the (affine-linear) assembly', None))
        except Exception as ex:
            fails.append((c['id'], 'witness completes without raising', f'{type(ex).__name__}: {str(ex)[:300]}'))
    return fails, len(cases)


# ------------------------------------------------------------------------------------------- drivers
def _report(ctx, name, cfg, fails, prop):
    for f in fails[:3]:
        site, pred, detail = f[0], f[1], f[2]
        exp = f[3] if len(f) > 3 else None
        got = f[4] if len(f) > 4 else None
        ctx.violation('impl-violates', site or name, pred, 'zoo interaction', dict(module=name, cfg=str(cfg), detail=detail), expected=exp, got=got)


def _guard(ctx, name, cfg, scenario, fn):
    import io
    try:
        with limited(), contextlib.redirect_stdout(io.StringIO()):
            return fn()
    except Exception as ex:
        tb = ''.join(__import__('traceback').format_exception(ex))
        if 'EigenSolve' in name and 'sparse' in str(cfg) and 'exactly singular' in str(ex):     # known finding K02 (sporadic: ARPACK start vector)
            ctx.count('skipped:K02 singular adjoint factorisation')
            return []
        ctx.violation('impl-violates', name, f'{scenario} completes without raising', 'zoo interaction', dict(module=name, cfg=str(cfg)),
                      got=f'{type(ex).__name__}: {str(ex)[:400]}', note=tb[-1500:])
        return []


def run_part(ctx, pym, E, prop, quick=True):
    """all interaction scenarios over the zoo E; prop in ('C01', 'C04') selects the stream offsets only"""
    ctx.rule += (' Interaction scenarios (deterministic, every zoo entry, every seed; zoo_interactions.py): inputs that already hold a sensitivity of every '
                 'admissible kind; two instances on the same input signals; interleaved instances sharing domain / option objects (fresh-instance references); '
                 'shared AggScaling / AggActiveSet objects; inputs and seeds in every memory layout with buffers unchanged; LinSolve option sets against numpy '
                 'formulas; seed-support sequences over every subset of outputs; corpus witnesses of F36/F37.')
    import pymoto.core_objects as _co
    orig = _co.get_init_str
    _co.get_init_str = lambda: 'zoo_interactions'       # Signal/Module construction walks the stack (5 ms each); only error texts use it
    try:
        _run_part(ctx, pym, E, prop, quick)
    finally:
        _co.get_init_str = orig


def _run_part(ctx, pym, E, prop, quick):
    rng = np.random.default_rng(ctx.seed + (101 if prop == 'C01' else 103))
    import io
    with contextlib.redirect_stdout(io.StringIO()):
        wf, nw = witness_checks(pym, prop)
    ctx.search_evaluations += nw
    ctx.count('interaction:corpus witnesses', nw)
    for cid, pred, got in wf:
        ctx.violation('impl-violates', 'corpus witness ' + cid, pred, 'zoo interaction', dict(corpus=f'corpus/{prop}/interaction_witnesses.json', id=cid), got=got)
    n_acc = n_fan = n_lay = n_int = n_lin = 0
    for e in E:
        name, cfg = e['name'], e['cfg']
        ctx.search_evaluations += 1
        ctx.count('interaction:accumulate')
        _report(ctx, name, cfg, _guard(ctx, name, cfg, 'accumulation on pre-existing input sensitivities', lambda: accumulate_check(e, pym, rng)), prop)
        ctx.search_evaluations += 1
        ctx.count('interaction:fan-out')
        _report(ctx, name, cfg, _guard(ctx, name, cfg, 'two modules on the same input signals', lambda: shared_signal_check(e, pym, rng)), prop)
        if not cfg.get('_layout'):
            ctx.search_evaluations += 1
            ctx.count('interaction:input layouts')
            _report(ctx, name, cfg, _guard(ctx, name, cfg, 'inputs in other memory layouts', lambda: input_layout_check(e, pym, rng)), prop)
        if name == 'LinSolve':
            ctx.search_evaluations += 1
            ctx.count('interaction:LinSolve numpy formulas x seed layouts')
            fl = _guard(ctx, name, cfg, 'LinSolve against numpy formulas', lambda: linsolve_formula_check(e, pym, rng))
            _report(ctx, name, cfg, [(None, p, d) for p, d in fl], prop)
    # interleaved groups of consecutive entries (consecutive entries share domain / kernel / index objects)
    # and groups of instances of the SAME class built with different options (an instance built with another option must
    # not reuse or corrupt what another instance stored at class / module / option-object level)
    plain = [e for e in E if not e['cfg'].get('_layout')]
    groups = [plain[k:k + 3] for k in range(0, len(plain), 3)]
    byclass = {}
    for e in plain:
        byclass.setdefault(e['name'], []).append(e)
    for name in sorted(byclass):
        L = byclass[name]
        if len(L) >= 2:
            groups += [L[k:k + 4] for k in range(0, len(L) - 1, 3)]
    for grp in groups:
        ctx.search_evaluations += 1
        ctx.count('interaction:interleaved group')
        fl = _guard(ctx, '+'.join(g['name'] for g in grp), [g['cfg'] for g in grp], 'interleaved evaluation of several instances',
                    lambda: interleaved_check(grp, pym, rng))
        for f in fl[:2]:
            ent, pred, detail = f
            ctx.violation('impl-violates', ent['name'], pred, 'zoo interaction', dict(module=ent['name'], cfg=str(ent['cfg']), detail=detail))
    import io
    try:
        with limited(60.0), contextlib.redirect_stdout(io.StringIO()):
            fl, nev = shared_strategy_check(pym, rng)
        ctx.search_evaluations += nev
        ctx.count('interaction:shared AggScaling/AggActiveSet', nev)
        for cls, pred, detail, exp, got in fl[:3]:
            ctx.violation('impl-violates', cls, pred, 'zoo interaction', dict(module=cls, detail=detail), expected=exp, got=got)
    except Exception as ex:
        ctx.violation('impl-violates', 'Aggregation', 'shared strategy objects scenario completes without raising', 'zoo interaction', dict(),
                      got=f'{type(ex).__name__}: {str(ex)[:400]}')
