"""C03 — Results depend only on current inputs and seeds, never on call history.

Theorems: coq/theories/Props/C03.v (about Model/Hist.v on top of Model/Net.v).
Tie (H), integer-exact core: random admissible histories (<= 25 ops + final cycle) over {set input, response, seed,
sensitivity, reset} on REAL networks of user modules (block-matrix, square, product, a caching user module, keep_alloc
signals, slices); the states and sensitivities of ALL signals after the history and after the final
reset/response/seed/sensitivity cycle are compared inside Coq with `run` of Model/Hist.v (exact, None vs zero array
distinguished).  Half of the networks are put together by a CONSTRUCTION HISTORY (single append() calls in depth-first /
breadth-first / random / post order: inner networks placed empty or partly filled and extended afterwards by modules and
by further networks, detached networks filled before they are placed) with evaluations of the partially built outer network
in between; Coq replays them with run_built of Model/HistBuild.v (every op acts on the modules the outer network reaches at
that moment).  Oracle: after reset() no signal found by WALKING THE MEMBER TREE holds a non-zero sensitivity; final cycle =
network constructed in one go.
Tie (H), memory bookkeeping: the two library memories that can hold STALE factorisations -- SolverDenseCholesky with its LDL
fallback (success flag, U, backup factorisation) and the per-mode adjoint solvers of the sparse EigenSolve (created and
refactorised inside _sensitivity) -- are modelled in Hist.v; the implementation is run on deliberate and random sequences
(definite/indefinite matrices; passes with arbitrary seeded-mode subsets) and observed through "which matrix does this
answer / this held factorisation belong to"; Coq evaluates the model on tags (tag_answers, tag_adj_trace) and compares.
Oracle / purity validation (tools/checks/histzoo.py): history run vs freshly constructed identical network, implementation
vs implementation, for the core cases (exact) and for networks around every caching library module: LinSolve with every
solver it can select (dense Cholesky with LDL fallback, LDL, LU, QR, diagonal, complex Hermitian / symmetric / general,
sparse LU, CG with initial guess with and without LDAWrapper), AssembleStiffness/General/Poisson/Mass, FilterConv (padding
variants), DensityFilter, OverhangFilter 2-D/3-D, SystemOfEquations, StaticCondensation, EigenSolve dense / sparse /
generalized / shifted / FE.  Stress histories (every recipe, every run): three designs whose numerical character changes
within the matrix class (definite <-> indefinite, differently conditioned, sign-flipped values on the same pattern),
several reset(); seed; sensitivity() passes per response with different seed SUPPORTS (one piece / all but that piece /
that piece again without a new response / column subsets / partial / single entry / explicit zeros / none), every pass
compared with a fresh network.  Random histories: the same ingredients, final cycle with or without a new response.
Regimes also change the SPARSITY PATTERN at constant shape (decoupled dofs appear / disappear / move: LDAWrapper's partition),
the VALUE KIND (real <-> complex matrices and right-hand sides within one symmetry class) and the MAGNITUDE (1e-5 .. 1e5) for
LinSolve (LU, Cholesky, QR, sparse LU, CG), SystemOfEquations, StaticCondensation and EigenSolve; the detections LinSolve and
LDAWrapper make at every response (iscomplex, partition) are modelled in Hist.v (LinSolveDetectModel) and tied by a tag
correspondence (tag_det_trace, get_diagonal_indices as written).
Also "reset leaves nothing behind" and "sensitivity without seed changes nothing".  Documented memories (Scaling, damped
AggScaling) serve as positive controls: the harness must SEE their history dependence.
"""
import os, json, glob, copy
import numpy as np
import vlib
from vlib import zl
import C02
from C02 import size_of, to_index, ref_positions, rand_levels, nl, opt_list, flat_ints, tree_node, tree_items, make_history

HEADER = '''From Coq Require Import ZArith List Bool.
From Pymoto Require Import Base.Num Base.Cmp Model.Net Model.Hist Model.HistBuild.
Import ListNotations.
Definition csame (a b : list (option (list Z))) : bool := list_eqb (option_eqb Zl_eqb) a b.
Definition L (i o : list nat) (n : list bool) (b : list (nat * nat * list (list Z))) : lin Z :=
  {| l_idims := i; l_odims := o; l_none := n; l_blocks := b |}.
Definition S (s : nat) (v : list Z) : @op Z := OSet s v.
Definition W (s : nat) (v : list Z) : @op Z := OSeed s v.
Definition R : @op Z := OResp.
Definition B : @op Z := OSens.
Definition Z0 : @op Z := OReset.
Definition obs_ok (N : nat) (x : nst zmem) (st : list (list Z)) (se : list (option (list Z))) : bool :=
  Zll_eqb (fst (observe N x)) st && csame (snd (observe N x)) se.
(* history, observation, final cycle, observation *)
Definition hist_case (N : nat) (dl keepl : list nat) (mods : list (hmod zmem)) (inputs : list (list Z))
           (hist cyc : list (@op Z)) (st1 : list (list Z)) (se1 : list (option (list Z)))
           (st2 : list (list Z)) (se2 : list (option (list Z))) : bool :=
  let x1 := run (keep_of keepl) mods hist (start dl keepl mods inputs) in
  let x2 := run (keep_of keepl) mods cyc x1 in
  hwf mods && obs_ok N x1 st1 se1 && obs_ok N x2 st2 se2.
(* construction history: segments (modules the outer network reaches, ops applied to it while under construction),
   observation when the construction is complete; then as hist_case *)
Definition built_case (N : nat) (dl keepl : list nat) (mods : list (hmod zmem)) (inputs : list (list Z))
           (segs : list (list bool * list (@op Z))) (st0 : list (list Z)) (se0 : list (option (list Z)))
           (hist cyc : list (@op Z)) (st1 : list (list Z)) (se1 : list (option (list Z)))
           (st2 : list (list Z)) (se2 : list (option (list Z))) : bool :=
  let x0 := run_built (keep_of keepl) mods segs (start dl keepl mods inputs) in
  let x1 := run (keep_of keepl) mods hist x0 in
  let x2 := run (keep_of keepl) mods cyc x1 in
  hwf mods && obs_ok N x0 st0 se0 && obs_ok N x1 st1 se1 && obs_ok N x2 st2 se2.
Definition T := true.
Definition F := false.
'''


HEADER_BOOK = '''From Coq Require Import ZArith List Bool.
From Pymoto Require Import Base.Num Base.Cmp Model.Net Model.Hist.
Import ListNotations.
(* one Cholesky-with-fallback solver fed A_1, A_2, ... (a matrix is [tag; 1 if positive definite else 0]); observed: the
   tag of the matrix each answer (normal, transposed) solves *)
Definition chol_case (As : list (list Z)) (obs : list (list Z)) : bool := Zll_eqb (tag_answers As) obs.
(* sparse EigenSolve, n modes; ops: None = response of the next design, Some seeded = reset; seed these eigenvectors;
   sensitivity.  observed after every pass: which A_k - lambda_i B_k the adjoint solver of each mode holds ([k; i]) *)
Definition eig_case (n : nat) (ops : list (option (list bool))) (obs : list (list (option (list Z)))) : bool :=
  list_eqb (list_eqb (option_eqb Zl_eqb)) (tag_adj_trace n ops) obs.
(* ONE LinSolve module (LDAWrapper inside) fed A_1, A_2, ... of one class; a matrix is kind :: n :: entries of A != 0;
   observed after every response + sensitivity: [1 iff the matrix sensitivity is complex-typed; decoupled dofs held ...] *)
Definition det_case (As : list (list Z)) (obs : list (list Z)) : bool := Zll_eqb (tag_det_trace As) obs.
(* ONE LDAWrapper object: update(A_k); observed: the decoupled dofs it holds *)
Definition part_case (As : list (list Z)) (obs : list (list Z)) : bool := Zll_eqb (map (@tl Z) (tag_det_trace As)) obs.
'''


# ============================================================================ integer-exact core
BUILD_ORDERS = ['dfs', 'bfs', 'random', 'bfs-evaluated', 'dfs-evaluated', 'post']


def visible_mods(case, attached):
    """indices of the modules the OUTER network reaches when the members with the tree paths `attached` have been
    appended (in the depth-first order of the partial member tree = the final order restricted to them)"""
    out = []

    def go(p):
        for k, x in enumerate(tree_items(tree_node(case, p))):
            c = p + (k,)
            if c in attached:
                if isinstance(x, int):
                    out.append(x)
                else:
                    go(c)
    go(())
    return out


def gen_core(rng, stats, build=None):
    """build: None = the network is constructed in one go from the final member tree (as before) with probability 1/2,
    otherwise by a construction history; an element of BUILD_ORDERS forces that kind of construction history"""
    sigs, sources = [], {}

    def new_sig(shape):
        sigs.append(dict(shape=list(shape)))
        return len(sigs) - 1

    def rand_shape():
        r = rng.random()
        if r < 0.8:
            return (rng.randint(1, 4),)
        return (rng.randint(1, 3), rng.randint(1, 3))
    for _ in range(rng.randint(1, 3)):
        s = new_sig(rand_shape())
        sources[s] = [rng.randint(-3, 3) for _ in range(size_of(sigs[s]['shape']))]
    avail = sorted(sources)
    mods, nonlin = [], 0

    def pick_ref(want_shape=None):
        for _ in range(12):
            s = rng.choice(avail)
            shape = tuple(sigs[s]['shape'])
            levels = rand_levels(rng, shape, stats) if rng.random() < 0.35 else None
            vshape = ref_positions(shape, levels)[1] if levels else list(shape)
            if want_shape is None or tuple(vshape) == tuple(want_shape):
                return dict(sig=s, levels=levels), tuple(vshape)
        return None, None
    for _ in range(rng.randint(2, 6)):
        kind = rng.choices(['lin', 'cached', 'sq', 'mul'], [60, 15, 13, 12])[0]
        if nonlin >= 2 and kind in ('sq', 'mul'):
            kind = 'lin'
        if kind in ('lin', 'cached'):
            nin, nout = rng.choice([1, 1, 2, 2, 3]), rng.choice([1, 1, 1, 2])
            ins, ishapes = [], []
            for k in range(nin):
                if k > 0 and rng.random() < 0.2:
                    ins.append(copy.deepcopy(ins[-1])); ishapes.append(ishapes[-1])
                else:
                    r, sh = pick_ref()
                    ins.append(r); ishapes.append(sh)
            oshapes = [rand_shape() for _ in range(nout)]
            none = [rng.random() < 0.08 for _ in range(nin)]
            blocks = [[o, i, [[rng.randint(-2, 2) for _ in range(size_of(ishapes[i]))] for _ in range(size_of(oshapes[o]))]]
                      for o in range(nout) for i in range(nin) if rng.random() < 0.8 and not none[i]]
            m = dict(kind=kind, ins=ins, oshapes=[list(s) for s in oshapes], none=[int(b) for b in none], blocks=blocks)
        elif kind == 'sq':
            r, sh = pick_ref()
            m = dict(kind='sq', ins=[r], oshapes=[list(sh)])
            nonlin += 1
        else:
            r1, sh = pick_ref()
            r2 = copy.deepcopy(r1) if rng.random() < 0.3 else pick_ref(want_shape=sh)[0]
            m = dict(kind='mul', ins=[r1, r2 or copy.deepcopy(r1)], oshapes=[list(sh)])
            nonlin += 1
        m['outs'] = [new_sig(s) for s in m['oshapes']]
        mods.append(m)
        avail += m['outs']
    n = len(sigs)
    keep = sorted(s for s in range(n) if rng.random() < 0.15)
    direct = sorted({o for m in mods for o in m['outs']} | {r['sig'] for m in mods for r in m['ins'] if not r['levels']})

    # nesting of the real network (the model is the flat list; Network.reset / sensitivity reverse the flat order)
    def nest(lst, depth):
        if depth == 0 or len(lst) <= 1 or rng.random() < 0.5:
            return list(lst)
        k = rng.randint(1, len(lst) - 1)
        return [nest(lst[:k], depth - 1)] + lst[k:] if rng.random() < 0.5 else lst[:k] + [nest(lst[k:], depth - 1)]
    tree = nest(list(range(len(mods))), 2)
    if build is None and rng.random() < 0.5:
        build = rng.choice(BUILD_ORDERS)

    # member tree for a construction history: at least one inner network, anywhere in the member list, up to 3 deep
    def nest2(lst, depth, force):
        if not lst or depth == 0 or (not force and rng.random() < 0.4):
            return list(lst)
        a = rng.randint(0, len(lst) - 1)
        b = rng.randint(a + 1, len(lst))
        return list(lst[:a]) + [nest2(lst[a:b], depth - 1, False)] + nest2(lst[b:], depth - 1, False)
    if build:
        tree = nest2(list(range(len(mods))), 3, True)

    def rand_vec(s, lo=-3, hi=3):
        return [rng.randint(lo, hi) for _ in range(size_of(sigs[s]['shape']))]

    def rand_ops(nops, fresh, allow_resp=True, direct=direct):
        ops = []
        for _ in range(nops):
            r = rng.random()
            if r < 0.22:
                s = rng.choice(sorted(sources))
                ops.append(['set', s, rand_vec(s)]); fresh = False
            elif r < 0.47 and allow_resp:
                ops.append(['resp']); fresh = True
            elif r < 0.67 and fresh and direct:
                s = rng.choice(direct)
                ops.append(['seed', s, rand_vec(s, -2, 2)])
            elif r < 0.85 and fresh:
                ops.append(['sens'])
            else:
                ops.append(['reset'])
        return ops, fresh
    # construction history: the order of the append() calls (members of one network in member order, any interleaving
    # between networks: an inner network is placed in its parent empty / partly filled and extended afterwards, by modules
    # and by further networks; detached networks are filled before they are placed), with evaluations of the partially
    # built OUTER network in between (any ops when the modules it reaches are closed under dependencies -- then typically
    # response; seeds; sensitivity without a reset --, otherwise input updates and reset only)
    events = None
    if build:
        tcase = dict(tree=tree)
        order = {'bfs-evaluated': 'bfs', 'dfs-evaluated': 'dfs'}.get(build, build)
        p_ops = {'post': 0.25, 'dfs-evaluated': 0.9, 'bfs-evaluated': 0.9}.get(build, 0.45)
        events, attached = [], set()
        for ev in make_history(tcase, order, rng):
            events.append(ev)
            attached.add(tuple(ev[1]))
            if rng.random() < p_ops:
                vis = visible_mods(tcase, attached)
                outs = {o for k in vis for o in mods[k]['outs']}
                closed = all(r['sig'] in sources or r['sig'] in outs for k in vis for r in mods[k]['ins'])
                dvis = sorted(outs | {r['sig'] for k in vis for r in mods[k]['ins'] if not r['levels']})
                if build == 'dfs-evaluated' and closed and vis:
                    # one design iteration whose seeds stay behind: response; seeds; sensitivity (no reset)
                    ops = [['resp']] + [['seed', s_, rand_vec(s_, -2, 2)] for s_ in dvis if rng.random() < 0.5] + [['sens']]
                else:
                    ops, _ = rand_ops(rng.randint(1, 7), False, allow_resp=closed and bool(vis), direct=dvis)
                events.append(['ops', ops])
    hist, fresh = rand_ops(rng.randint(0, 25), False)
    if build and rng.random() < 0.6:
        # two full cycles on the completed network: response; seeds on every directly held signal; sensitivity; reset
        for _ in range(2):
            hist += [['set', s_, rand_vec(s_)] for s_ in sorted(sources) if rng.random() < 0.5]
            hist += [['resp']] + [['seed', s_, rand_vec(s_, -2, 2)] for s_ in direct if rng.random() < 0.7] + [['sens'], ['reset']]
    cyc = [['reset']]
    for s in sorted(sources):
        if rng.random() < 0.5:
            cyc.append(['set', s, rand_vec(s)])
    cyc.append(['resp'])
    for s in direct:
        if rng.random() < 0.35:
            cyc.append(['seed', s, rand_vec(s, -2, 2)])
    if rng.random() < 0.9:
        cyc.append(['sens'])
    case = dict(signals=sigs, sources={str(k): v for k, v in sources.items()}, modules=mods, tree=tree, keep=keep,
                hist=hist, cycle=cyc)
    if events is not None:
        case['build'] = events
        case['build_kind'] = build
    return case


def make_cached_class(pym, LinMod):
    class CachedLin(LinMod):
        """user module with a (correct) cache: recomputes only when its inputs changed"""
        def _prepare(self, *a):
            super()._prepare(*a)
            self.key, self.val = None, None

        def _response(self, *xs):
            key = [np.array(x, dtype=float).ravel().copy() for x in xs]
            if self.key is not None and len(key) == len(self.key) and all(np.array_equal(a, b) for a, b in zip(key, self.key)):
                return [v.copy() for v in self.val]
            out = super()._response(*xs)
            self.key, self.val = key, [np.array(v, copy=True) for v in out]
            return out
    return CachedLin


class Builder:
    """puts the network of a case together by single append() calls, in the order of a construction history"""
    def __init__(self, pym, case, mods):
        self.pym, self.case, self.mods, self.nets = pym, case, mods, {(): pym.Network()}

    def net(self, p):
        if p not in self.nets:
            self.nets[p] = self.pym.Network()
        return self.nets[p]

    def attach(self, path):
        path = tuple(path)
        node = tree_node(self.case, path)
        self.net(path[:-1]).append(self.mods[node] if isinstance(node, int) else self.net(path))


def build_core(pym, classes, case, inputs=None, construct=False):
    n = len(case['signals'])
    sigs = []
    for i in range(n):
        sh = tuple(case['signals'][i]['shape'])
        if i in case['keep']:
            sigs.append(pym.Signal(f's{i}', sensitivity=np.zeros(sh)))     # keep_alloc = True
        else:
            sigs.append(pym.Signal(f's{i}'))
    src = inputs if inputs is not None else {int(k): v for k, v in case['sources'].items()}
    for k, v in src.items():
        sigs[k].state = np.array(v, dtype=float).reshape(tuple(case['signals'][k]['shape']))

    def mkref(r):
        s = sigs[r['sig']]
        for lv in (r['levels'] or []):
            s = s[to_index(lv)]
        return s
    mods = []
    for m in case['modules']:
        ins, outs = [mkref(r) for r in m['ins']], [sigs[o] for o in m['outs']]
        if m['kind'] in ('lin', 'cached'):
            mods.append(classes[m['kind']](ins, outs, m['blocks'], [tuple(s) for s in m['oshapes']], m['none']))
        else:
            mods.append(classes[m['kind']](ins, outs))

    def mknet(t):
        return pym.Network(*[mods[x] if isinstance(x, int) else mknet(x) for x in t])
    if construct:
        return sigs, Builder(pym, case, mods)
    return sigs, mknet(case['tree'])


def apply_op(case, sigs, net, op):
    if op[0] == 'set':
        sigs[op[1]].state = np.array(op[2], dtype=float).reshape(tuple(case['signals'][op[1]]['shape']))
    elif op[0] == 'resp':
        net.response()
    elif op[0] == 'seed':
        sigs[op[1]].sensitivity = np.array(op[2], dtype=float).reshape(tuple(case['signals'][op[1]]['shape']))
    elif op[0] == 'sens':
        net.sensitivity()
    elif op[0] == 'reset':
        net.reset()


def observe(sigs):
    st = [[] if s.state is None else flat_ints(s.state) for s in sigs]
    se = [None if s.sensitivity is None else flat_ints(s.sensitivity) for s in sigs]
    return st, se


def run_core(pym, classes, case):
    big, o0 = 0, None
    if case.get('build') is not None:
        sigs, bld = build_core(pym, classes, case, construct=True)
        net = bld.net(())
        for ev in case['build']:
            if ev[0] == 'a':
                bld.attach(ev[1])
            else:
                for op in ev[1]:
                    apply_op(case, sigs, net, op)
                    st, se = observe(sigs)
                    big = max([big] + [abs(v) for a in st for v in a] + [abs(v) for a in se if a for v in a])
        o0 = observe(sigs)
    else:
        sigs, net = build_core(pym, classes, case)
    for op in case['hist']:
        apply_op(case, sigs, net, op)
        st, se = observe(sigs)
        big = max([big] + [abs(v) for a in st for v in a] + [abs(v) for a in se if a for v in a])
    o1 = observe(sigs)
    left = []
    for op in case['cycle']:
        apply_op(case, sigs, net, op)
        if op[0] == 'reset':
            # reset() leaves no sensitivity behind on any signal of the whole nested structure (member tree walked)
            left += leftovers(net)
    o2 = observe(sigs)
    big = max([big] + [abs(v) for a in o2[0] for v in a] + [abs(v) for a in o2[1] if a for v in a])
    # the same cycle on a freshly constructed identical network with the current inputs
    cur = {int(k): None for k in case['sources']}
    for k in cur:
        cur[k] = o1[0][k]
    fs, fnet = build_core(pym, classes, case, inputs=cur)
    for op in case['cycle']:
        if op[0] != 'reset':
            apply_op(case, fs, fnet, op)
    of = observe(fs)
    return o1, o2, of, big, left, o0


def coq_ref(case, r):
    if not r['levels']:
        return f"RSig {r['sig']}"
    pos, _, writable = ref_positions(tuple(case['signals'][r['sig']]['shape']), r['levels'])
    return f"{'RSlice' if writable else 'RLost'} {r['sig']} {nl(pos)}"


def coq_mods(case):
    out = []
    for m in case['modules']:
        refs = [coq_ref(case, r) for r in m['ins']]
        if m['kind'] in ('lin', 'cached'):
            idims = [len(ref_positions(tuple(case['signals'][r['sig']]['shape']), r['levels'] or [])[0]) for r in m['ins']]
            odims = [size_of(s) for s in m['oshapes']]
            bl = '[' + '; '.join(f'({o}, {i}, {zl(M)}%Z)' for o, i, M in m['blocks']) + ']'
            fn = 'lin_h' if m['kind'] == 'lin' else 'cached_h'
            out.append(f"{fn} [{'; '.join(refs)}] {nl(m['outs'])} (L {nl(idims)} {nl(odims)} "
                       f"[{'; '.join('true' if b else 'false' for b in m['none'])}] {bl})")
        elif m['kind'] == 'sq':
            out.append(f"sq_h ({refs[0]}) {m['outs'][0]}")
        else:
            out.append(f"mul_h ({refs[0]}) ({refs[1]}) {m['outs'][0]}")
    return '[' + ';\n   '.join(out) + ']'


def coq_ops(ops):
    r = []
    for op in ops:
        if op[0] == 'set':
            r.append(f'S {op[1]} {zl(op[2])}%Z')
        elif op[0] == 'seed':
            r.append(f'W {op[1]} {zl(op[2])}%Z')
        else:
            r.append({'resp': 'R', 'sens': 'B', 'reset': 'Z0'}[op[0]])
    return '[' + '; '.join(r) + ']'


def coq_segments(case):
    """the 'ops' events of the construction history with the modules the outer network reaches at that moment"""
    segs, attached = [], set()
    for ev in case['build']:
        if ev[0] == 'a':
            attached.add(tuple(ev[1]))
        else:
            vis = set(visible_mods(case, attached))
            mask = '[' + '; '.join('T' if k in vis else 'F' for k in range(len(case['modules']))) + ']'
            segs.append(f'({mask}, {coq_ops(ev[1])})')
    return '[' + ';\n   '.join(segs) + ']'


def coq_case(case, o1, o2, o0=None):
    n = len(case['signals'])
    dims = [size_of(s['shape']) for s in case['signals']]
    init = [case['sources'].get(str(i), []) for i in range(n)]
    if case.get('build') is not None:
        return (f"built_case {n} {nl(dims)} {nl(case['keep'])}\n  {coq_mods(case)}\n  {zl(init)}%Z\n  {coq_segments(case)}\n  "
                f"{zl(o0[0])}%Z {opt_list(o0[1])}\n  {coq_ops(case['hist'])}\n  "
                f"{coq_ops(case['cycle'])}\n  {zl(o1[0])}%Z {opt_list(o1[1])}\n  {zl(o2[0])}%Z {opt_list(o2[1])}")
    return (f"hist_case {n} {nl(dims)} {nl(case['keep'])}\n  {coq_mods(case)}\n  {zl(init)}%Z\n  {coq_ops(case['hist'])}\n  "
            f"{coq_ops(case['cycle'])}\n  {zl(o1[0])}%Z {opt_list(o1[1])}\n  {zl(o2[0])}%Z {opt_list(o2[1])}")


def same_up_to_none(a, b):
    """sensitivities compared up to None = zero array"""
    for x, y in zip(a, b):
        zx = x is None or not any(x)
        zy = y is None or not any(y)
        if zx and zy:
            continue
        if x != y:
            return False
    return True


# ============================================================================ library networks (purity validation)
# recipes, seed supports, stress plans and random histories live in tools/checks/histzoo.py
import histzoo
from histzoo import (tree_signals, leftovers, make_float_modules, build_lib, run_lib, run_stress, stress_plans, RECIPES, CONTROLS, canon, close,
                     lib_history, mat_family)


# ============================================================================ bookkeeping correspondence (memories of Hist.v)
def book_jobs(ctx, g):
    """deliberate cases first (definite -> indefinite -> definite ...; one mode seeded at an earlier design, the other
    modes first after the new response, that mode again without a new response ...), then random ones"""
    jobs = []
    for pds in ([1, 0, 1], [0, 1, 0], [1, 1], [0, 0], [1, 0, 0, 1, 1], [0, 1, 1, 0], [1], [0]):
        for cplx in (False, True):
            for via in ('solver', 'linsolve'):
                jobs.append(dict(kind='chol', pds=pds, cplx=cplx, via=via))
    for f in range(3):
        only = [i == f for i in range(3)]
        allbut = [i != f for i in range(3)]
        for gen in (False, True):
            jobs.append(dict(kind='eig', generalized=gen, ops=[None, only, None, allbut, only, [True] * 3]))
            jobs.append(dict(kind='eig', generalized=gen, ops=[None, [True] * 3, None, [False] * 3, only, None, None, allbut]))
            jobs.append(dict(kind='eig', generalized=gen, ops=[None, only, allbut, None, allbut, allbut, only]))
    # detections of LinSolve / LDAWrapper: value kind (real / complex) and decoupled dofs change at constant shape and class
    R, X = False, True
    for specs in ([(R, [0]), (R, [])], [(R, []), (R, [0])], [(R, [0]), (R, [4])], [(R, [0, 4]), (R, [4]), (R, []), (R, [0])],
                  [(R, []), (X, [])], [(X, []), (R, [])], [(R, [0]), (X, [])], [(X, [1]), (R, [1, 2]), (X, [])],
                  [(R, [0]), (X, [0]), (R, [])], [(X, [0, 1, 2]), (R, []), (X, [3])]):
        for sparse in (False, True):
            for via in ('linsolve', 'lda'):
                jobs.append(dict(kind='det', specs=[[int(c), list(d)] for c, d in specs], n=5, via=via, sparse=sparse))
    nr = 40 if ctx.quick() else 400
    for _ in range(nr):
        n = int(g.integers(3, 7))
        specs = []
        for _ in range(int(g.integers(2, 7))):
            dec = [i for i in range(n) if g.random() < 0.3]
            specs.append([int(g.integers(0, 2)), dec[:n - 2]])
        jobs.append(dict(kind='det', specs=specs, n=n, via=['linsolve', 'lda'][int(g.integers(0, 2))], sparse=bool(g.integers(0, 2))))
    for _ in range(nr):
        jobs.append(dict(kind='chol', pds=[int(g.integers(0, 2)) for _ in range(int(g.integers(2, 9)))],
                         cplx=bool(g.integers(0, 2)), via=['solver', 'linsolve'][int(g.integers(0, 2))]))
    for _ in range(nr):
        ops = [None]
        for _ in range(int(g.integers(2, 10))):
            ops.append(None if g.random() < 0.3 else [bool(g.integers(0, 2)) for _ in range(3)])
        jobs.append(dict(kind='eig', generalized=bool(g.integers(0, 2)), ops=ops))
    for j in jobs:
        j['seed'] = int(g.integers(0, 2 ** 31))
    return jobs


def run_book(pym, job):
    """runs the implementation; returns (Coq check, observation) or None when the case is not usable"""
    g = np.random.default_rng(job['seed'])
    if job['kind'] == 'chol':
        tags, valid = histzoo.chol_bookkeeping(pym, g, job['pds'], job['cplx'], job['via'])
        if tags is None:
            return None
        As = [[k + 1, int(pd)] for k, pd in enumerate(job['pds'])]
        obs = [[t] for pair in tags for t in pair]
        return f'chol_case {zl(As)}%Z {zl(obs)}%Z', tags, valid
    if job['kind'] == 'det':
        As, obs = histzoo.det_bookkeeping(pym, g, [(bool(c), list(d)) for c, d in job['specs']], job['n'], job['via'], job['sparse'])
        enc = [[int(np.iscomplexobj(A)), job['n']] + [int(v) for v in (A != 0).ravel()] for A in As]
        # independent formula for what a module that has seen only A_k holds
        want = [([int(np.iscomplexobj(A))] if job['via'] == 'linsolve' else []) + histzoo.expected_partition(A) for A in As]
        return f"{'det_case' if job['via'] == 'linsolve' else 'part_case'} {zl(enc)}%Z {zl(obs)}%Z", dict(obs=obs, want=want), 0
    obs = histzoo.eig_bookkeeping(pym, g, job['ops'], job['generalized'])
    ops = '[' + '; '.join('None' if o is None else 'Some [' + '; '.join('true' if b else 'false' for b in o) + ']'
                          for o in job['ops']) + ']'
    cells = '[' + '; '.join('[' + '; '.join('None' if c is None else f'Some {zl(c)}' for c in row) + ']' for row in obs) + ']'
    return f'eig_case 3 {ops} ({cells})%Z', obs, 0


# ============================================================================ main
def run(ctx):
    import pymoto as pym
    import warnings
    warnings.filterwarnings('ignore')
    classes = C02.make_module_classes(pym)
    classes['cached'] = make_cached_class(pym, classes['lin'])
    fm = make_float_modules(pym)
    ctx.rule = ('core: random networks of 2-6 user modules (block-matrix, caching block-matrix, square, product; slices; keep_alloc '
                'signals; nested Networks) with a random admissible history of 0-25 ops over {set, response, seed, sensitivity, '
                'reset} followed by the final cycle reset; [set]; response; [seeds]; [sensitivity]; two observations (after the '
                'history, after the cycle) of ALL states and sensitivities are compared with the Coq model; distinct by full case. '
                'A case is non-trivial when the history contains at least one response and one sensitivity or reset. '
                'construction: with probability 1/2 (and for the first 120 / 900 cases of a run, kinds in turn; corpus/C03/'
                'construction.json) the network is put together by single append() calls -- member tree with at least one inner '
                'network, up to 3 deep; order dfs | bfs | random (detached networks are filled before they are placed) | post; after '
                'an append with probability 0.45 (0.9: *-evaluated, 0.25: post) the partially built outer network is evaluated: '
                'response; seeds; sensitivity without reset, or 1-7 random ops (no response while the reached modules are not '
                'closed under dependencies); then the history, with probability 0.6 followed by two full cycles response; seeds on '
                'the directly held signals; sensitivity; reset; three observations (construction complete, after the history, '
                'after the cycle). '
                'memory bookkeeping: sequences of 1-8 Hermitian matrices with positive diagonal, each definite or indefinite '
                '(deliberate patterns first, e.g. definite-indefinite-definite; real/complex; through the solver object and through '
                'LinSolve), and histories of a sparse EigenSolve (standard/generalized, 3 modes) of responses and passes with '
                'arbitrary seeded-mode subsets (deliberate first: one mode at an earlier design, the others first after the new '
                'response, that mode again); observed: the tag of the matrix every answer solves / every adjoint solver holds; '
                'non-trivial when both kinds of matrices occur / when there are >= 2 responses and a proper subset pass. '
                'detections of LinSolve/LDAWrapper: sequences of 2-6 non-symmetric matrices of one shape, each real or complex and '
                'with a chosen set of decoupled dofs (deliberate first: decoupled -> coupled, coupled -> decoupled, moved, real -> '
                'complex, complex -> real, combined; dense/sparse; through LinSolve and through an LDAWrapper object); observed: '
                'whether the matrix sensitivity is complex-typed and the decoupled dofs the wrapper holds; non-trivial when kind or '
                'partition changes within the sequence. '
                'purity validation: stress histories (deliberate plan: 3 designs with a regime sequence, 12 passes with different '
                'seed supports, every pass vs fresh network) and random histories on networks with library modules; the regimes '
                'include sparsity-pattern changes at constant shape, value-kind changes and magnitude changes.')
    ctx.assumptions += ['the matrix CLASS (dense/sparse storage, symmetric or not, Hermitian or not, size) is constant within a '
                        'history (LinearSolver.update: "new matrix of the same structure"; LinSolve/LDAWrapper/EigenSolve keep the '
                        'symmetric / Hermitian flags and the solver chosen from them from the first call: '
                        'C03_linsolve_class_change_refuted).  NOT part of the class, and changed within the histories: the VALUE '
                        'KIND (real <-> complex matrices and right-hand sides: non-symmetric <-> complex general; symmetric <-> '
                        'complex symmetric with a solver that does not depend on the Hermitian flag (LU, sparse LU); symmetric <-> '
                        'complex Hermitian without LDAWrapper, whose `symmetric` flag would change), the SPARSITY PATTERN at '
                        'constant shape (decoupled dofs appear / disappear / move) and the MAGNITUDE (matrix and right-hand side '
                        'scaled by 1e-5 .. 1e5, compared relative to the result; CG with initial guess: matrix and right-hand side '
                        'scaled alike).  In the integer-exact core the dtype of a signal is constant',
                        'inner solvers are exact (an exact solve of a regular matrix does not depend on its initial guess): '
                        'hypothesis solve_ignores_guess, validated by the history-vs-fresh comparison at 1e-9 (CG with tol=1e-12: 1e-8; '
                        'the FE eigenproblem whose adjoint systems are singular by construction, K02: 1e-7)',
                        'definiteness, conditioning and the values on a fixed sparsity pattern are NOT part of the matrix class: they '
                        'change within the stress histories',
                        'modules are shape-correct and their adjoint is linear in the seed (zero seeds give zero results): '
                        'hypothesis h_shaped (C01/C04), proved for the test modules',
                        'construction histories: the theorems run a history on the FINAL flat module list; that the behaviour of a '
                        'constructed network is a function of its member tree (not of the order of the append calls or of the '
                        'gathered sig_in / sig_out lists) is C02 (Model/NetBuild.v); histories that evaluate partially built '
                        'networks are covered by the correspondence with run_built (Model/HistBuild.v) and by the oracle, the '
                        'theorems C03_construction_* state only: no evaluation in between = flat model, last segment = ordinary '
                        'history, unreached module inert for reset()',
                        'seeds are placed on signals a module holds directly (not only through slices); sensitivity() is called '
                        'directly after response() (the protocol of the property)',
                        'exempt, as documented: Scaling (objective mode), damped AggScaling, iteration counters of writers']
    ctx.trusted += ['Print Assumptions: all C03 theorems are closed under the global context (no axioms)',
                    'library numerics (LAPACK / SuperLU / scipy) enter the caching-module theorems as Section variables with the '
                    'contract solve_ignores_guess; purity of the library modules is validated, not proved (purity_validation)',
                    'memory bookkeeping: the identification of the matrix an answer belongs to (normalised residual <= 1e-8 against '
                    'all matrices of the sequence, unique match) and the attribute EigenSolve.solvers',
                    'fresh networks inside a stress history are deep copies of a never-evaluated network built by the same '
                    'constructor calls (the last comparison of every stress history and every random history construct a new one)']
    vlib.audit(ctx)
    if not vlib.ensure_static(ctx):
        return
    vlib.check_props(ctx)

    def stats(k):
        ctx.count(k)
    # ---- core: corpus + generated
    cases = []
    for p in sorted(glob.glob(os.path.join(vlib.ROOT, 'corpus', 'C03', '*.json'))):
        with open(p) as f:
            d = json.load(f)
        for i, c in enumerate(d.get('cases', [])):
            cases.append((f'corpus:{os.path.basename(p)}:{i}', c))
    replaying = bool(getattr(ctx, 'replay', None))
    rp = None
    if replaying:       # re-execute exactly the recorded case
        with open(ctx.replay if os.path.isabs(ctx.replay) else os.path.join(vlib.ROOT, ctx.replay)) as f:
            rp = json.load(f)['case']
        cases = [(rp['name'], rp['case'])] if isinstance(rp, dict) and 'modules' in (rp.get('case') or {}) else []
    ngen = 0 if replaying else (900 if ctx.quick() else 6000)
    checks, labels, kept = [], [], {}
    k = 0
    attempts = 0
    todo = list(cases)
    while todo or k < ngen:
        if todo:
            name, case = todo.pop(0)
        else:
            attempts += 1
            if attempts > 4 * ngen + 100:
                break
            # deliberate construction histories first, on every run: every kind of BUILD_ORDERS in turn
            nforced = 120 if ctx.quick() else 900
            name, case = f'gen:{k}', gen_core(ctx.rng, stats, build=BUILD_ORDERS[k % len(BUILD_ORDERS)] if k < nforced else None)
        try:
            o1, o2, of, big, left, o0 = run_core(pym, classes, case)
        except Exception as e:
            ctx.violation('impl-violates', 'Network history', 'an admissible history runs without exception', 'core network',
                          dict(name=name, case=case), expected='observations', got=repr(e)[:500])
            if name.startswith('gen:'):
                k += 1
            continue
        if big > 2 ** 30:
            ctx.count('discarded:magnitude')
            continue
        if name.startswith('gen:'):
            k += 1
        kinds = [o[0] for o in case['hist']]
        ctx.count(f"history-length:{min(len(kinds) // 5 * 5, 25)}+")
        for o in kinds + [o[0] for o in case['cycle']]:
            ctx.count('op:' + o)
        for m in case['modules']:
            ctx.count('kind:' + m['kind'])
        if case['keep']:
            ctx.count('feature:keep_alloc')
        if case.get('build') is not None:
            ctx.count('construction:' + case.get('build_kind', 'given'))
            att, late, evald = set(), False, False
            for ev in case['build']:
                if ev[0] == 'a':
                    pth = tuple(ev[1])
                    # a member arrives in an inner network that the outer network already reaches
                    if len(pth) > 1 and all(pth[:j] in att for j in range(1, len(pth))):
                        late = True
                        if evald:
                            ctx.count('construction:nested network extended after an evaluation')
                    att.add(pth)
                else:
                    evald = True
                    ctx.count('construction:evaluation of the partial network')
            if late:
                ctx.count('construction:nested network extended after it was nested')
        else:
            ctx.count('construction:in one go from the member tree')
        nontrivial = 'resp' in kinds and ('sens' in kinds or 'reset' in kinds)
        checks.append(coq_case(case, o1, o2, o0))
        labels.append(name)
        kept[name] = (case, o1, o2)
        ctx.case(json.dumps(case, sort_keys=True), nontrivial, sample=dict(case=name, ops=len(kinds), coq=checks[-1][:500]))
        # oracle: fresh network (exact; sensitivities up to None = 0)
        ctx.search_evaluations += 1
        if left:
            ctx.violation('impl-violates', 'Network.reset', 'reset() leaves no sensitivity behind on any signal of the member tree',
                          'core network', dict(name=name, case=case), expected='None or zeros on every signal',
                          got=dict(signals_with_sensitivity=left))
        if o2[0] != of[0] or not same_up_to_none(o2[1], of[1]):
            ctx.violation('impl-violates', 'Network history', 'final cycle equals a fresh network', 'core network',
                          dict(name=name, case=case), expected=dict(states=of[0], sens=of[1]), got=dict(states=o2[0], sens=o2[1]))
    import time as _time
    phases = {'core cases (python)': round(_time.time() - ctx.t0, 1)}
    _t = _time.time()
    failing, err = vlib.run_cases(ctx, 'hist', HEADER, checks, chunk=40 if ctx.quick() else 120)
    phases['core cases (coq)'] = round(_time.time() - _t, 1)
    _t = _time.time()
    ctx.obligation('correspondence:case files evaluated', 'correspondence', not err, err)
    if err:
        ctx.violation('correspondence', 'Network history', 'case files compile', 'harness', dict(error=err[-3000:]), theorem='cases_hist')
    for idx in failing[:20]:
        case, o1, o2 = kept[labels[idx]]
        ctx.violation('correspondence', 'Network history', 'model == implementation', 'core network',
                      dict(name=labels[idx], case=case), got=dict(after_history=o1, after_cycle=o2),
                      note='Coq model (Hist.v) and implementation differ')

    # ---- bookkeeping correspondence: the memories modelled in Hist.v (Cholesky/LDL fallback, per-mode adjoint solvers)
    gb = np.random.default_rng(ctx.seed + 17)
    if replaying:
        jobs = [rp['book']] if isinstance(rp, dict) and 'book' in rp else []
    else:
        jobs = book_jobs(ctx, gb)
    bchecks, bjobs, nvalid = [], [], 0
    for job in jobs:
        try:
            res = run_book(pym, job)
        except Exception as e:
            if 'singular' in str(e):
                ctx.count('book:skipped_K02')
                continue
            ctx.violation('impl-violates', 'bookkeeping ' + job['kind'], 'an admissible history runs without exception',
                          'library module memory', dict(book=job), expected='observations', got=repr(e)[:500])
            continue
        if res is None:
            ctx.count('book:discarded')
            continue
        chk, obs, valid = res
        nvalid += valid
        bchecks.append(chk)
        bjobs.append((job, obs))
        ctx.count('book:' + job['kind'] + (':' + job['via'] if job['kind'] in ('chol', 'det') else ':generalized' if job['generalized'] else ':standard'))
        if job['kind'] == 'det':
            for a, b in zip(job['specs'], job['specs'][1:]):
                ctx.count('det-transition:' + ('real' if not a[0] else 'complex') + '->' + ('real' if not b[0] else 'complex') + ':' +
                          ('same decoupled dofs' if a[1] == b[1] else 'dofs become coupled' if set(b[1]) < set(a[1]) else
                           'dofs become decoupled' if set(a[1]) < set(b[1]) else 'decoupled dofs move'))
            # the same step on a module / wrapper that has seen only this matrix must observe the same (purity of the observation)
            nontrivial = len({(c, tuple(d)) for c, d in job['specs']}) > 1
        else:
            nontrivial = (len(set(job['pds'])) > 1) if job['kind'] == 'chol' else (sum(o is None for o in job['ops']) > 1 and any(o and not all(o) for o in job['ops'] if o is not None))
        ctx.case(json.dumps(job, sort_keys=True), nontrivial, sample=dict(case='book:' + job['kind'], coq=chk[:300]))
    ctx.oracle_validation['cholesky factorisation succeeds iff the matrix is positive definite (tag instance of `chol`)'] = nvalid
    if bchecks:
        failing, err = vlib.run_cases(ctx, 'book', HEADER_BOOK, bchecks, chunk=80)
        ctx.obligation('correspondence:memory bookkeeping case files evaluated', 'correspondence', not err, err)
        if err:
            ctx.violation('correspondence', 'memory bookkeeping', 'case files compile', 'harness', dict(error=err[-3000:]),
                          theorem='cases_book')
        for idx in failing[:20]:
            job, obs = bjobs[idx]
            site = {'chol': 'SolverDenseCholesky.update/solve', 'eig': 'EigenSolve._sparse_eigvec_sens',
                    'det': 'LinSolve._response/LDAWrapper.update'}[job['kind']]
            # does the observation itself show a factorisation / detection of an EARLIER (or of no) matrix IN USE?  then
            # the implementation violates the property on this input, whatever the model says
            if job['kind'] == 'chol':
                stale = any(t != k + 1 for k, pair in enumerate(obs) for t in pair)
            elif job['kind'] == 'det':
                stale = obs['obs'] != obs['want']
            else:
                stale, k, row = False, 0, 0
                for o in job['ops']:
                    if o is None:
                        k += 1
                    else:
                        stale = stale or any(sd and obs[row][i] != [k, i] for i, sd in enumerate(o))
                        row += 1
            pred = {'chol': 'the factorisation in use is the one of the current matrix',
                    'eig': 'the factorisation in use is the one of the current matrix',
                    'det': 'the value kind and the decoupled-dof partition in use are those of the current matrix'}[job['kind']]
            ctx.violation('impl-violates' if stale else 'correspondence', site, pred if stale else 'model == implementation',
                          'library module memory', dict(book=job),
                          expected='Model/Hist.v: ' + {'chol': 'tag_answers', 'eig': 'tag_adj_trace', 'det': 'tag_det_trace'}[job['kind']] +
                                   (f" = {obs['want']}" if job['kind'] == 'det' else ''),
                          got=obs['obs'] if job['kind'] == 'det' else obs,
                          note='Coq model of the memory (Hist.v) and implementation differ' +
                               ('; an answer / a visited mode / a detection belongs to an earlier matrix' if stale else ''),
                          theorem={'chol': 'C03_cholesky_solver_answers_for_latest_matrix',
                                   'eig': 'C03_mem_invariant_eigensolve_adjoint_solvers',
                                   'det': 'C03_linsolve_detections_follow_latest_matrix'}[job['kind']])

    phases['memory bookkeeping (python + coq)'] = round(_time.time() - _t, 1)
    _t = _time.time()
    # ---- purity validation on library networks (history run vs fresh run of the implementation)
    pv = {}
    g = np.random.default_rng(ctx.seed)
    reps = 12 if ctx.quick() else 120
    sreps = 1 if ctx.quick() else 6
    corpus_lib = []
    for p in sorted(glob.glob(os.path.join(vlib.ROOT, 'corpus', 'C03', '*.json'))):
        with open(p) as f:
            corpus_lib += json.load(f).get('library', [])
    if replaying:
        todo_lib = [rp] if isinstance(rp, dict) and 'recipe' in rp else []
    else:
        # corpus first: fixed random histories and fixed stress plans (witnesses of seeded / fixed defects)
        todo_lib = [dict(c) for c in corpus_lib]
        # stress histories: every recipe, every plan (focus piece x regime sequence), on every run
        for r in RECIPES:
            probe = build_lib(pym, fm, r, np.random.default_rng(0))
            nalt = max([len(v) for v in probe['alt'].values()] + [0])
            for rep in range(sreps):
                # construction plan of the network (histzoo.PLANS): every plan at least once per recipe on every run
                for i, (focus, regs) in enumerate(stress_plans(6, nalt)):
                    todo_lib.append(dict(recipe=r, kind='stress', seed=int(g.integers(0, 2 ** 31)), focus=focus, regimes=list(regs),
                                         build=histzoo.PLANS[(i + rep) % len(histzoo.PLANS)]))
        todo_lib += [dict(recipe=r, kind='random', seed=int(g.integers(0, 2 ** 31)), nops=int(g.integers(0, 26)))
                     for r in RECIPES + CONTROLS if r not in histzoo.STRESS_ONLY for _ in range(reps)]
        gplan = np.random.default_rng(ctx.seed + 29)
        for job in todo_lib[len(corpus_lib):]:      # (the corpus cases keep the construction they were recorded with)
            if job.get('kind', 'random') == 'random' and 'build' not in job:
                job['build'] = histzoo.PLANS[int(gplan.integers(1, len(histzoo.PLANS)))] if gplan.random() < 0.5 else 'flat'
    for job in todo_lib:
        recipe, kind = job['recipe'], job.get('kind', 'random')
        try:
            if kind == 'stress':
                failed, desc = run_stress(pym, fm, recipe, job['seed'], job['focus'], tuple(job['regimes']), stats=ctx.count,
                                           build=job.get('build', 'flat'))
            else:
                failed, desc = run_lib(pym, fm, recipe, job['seed'], job['nops'], stats=ctx.count, build=job.get('build', 'flat'))
        except Exception as e:
            if 'sparse' in recipe and 'eigensolve' in recipe and 'singular' in str(e):
                # known finding K02 (C01): sparse eigenvector sensitivities factorise a singular matrix; not a C03 matter
                pv.setdefault(recipe, dict(histories=0, differing=0)).setdefault('skipped_K02', 0)
                pv[recipe]['skipped_K02'] += 1
                continue
            failed, desc = [f'history raised {type(e).__name__}: {str(e)[:200]}'], dict(job)
        ctx.search_evaluations += 1
        ctx.count('library:' + kind)
        d = pv.setdefault(recipe, dict(histories=0, differing=0, stress=0))
        d['histories'] += 1
        if kind == 'stress':
            d['stress'] = d.get('stress', 0) + 1
        if failed:
            d['differing'] += 1
            if isinstance(desc, dict) and desc.get('guess_ratio', 0.0) >= 1e9:
                # known finding K07: decided from the case (norm of CG's initial guess / norm of the new solution)
                d['K07'] = d.get('K07', 0) + 1
                ctx.violation('impl-violates', 'CG.solve', 'history run equals fresh run',
                              'CG started from a previous solution >= 1e9 times larger than the new one', desc,
                              expected='fresh network result', got=failed[:6])
            elif not recipe.startswith('control:'):
                ctx.violation('impl-violates', recipe, 'history run equals fresh run', 'library network', desc,
                              expected='fresh network result (1e-9 relative; iterative solvers and singular adjoint systems: '
                                       'the tolerance of the recipe)', got=failed[:6])
    # named witnesses
    for name, fn in () if (replaying and not (isinstance(rp, dict) and 'witness' in rp)) else (('F16 LinSolve number of right-hand sides changes', witness_f16),
                     ('F12 SystemOfEquations/StaticCondensation respond twice', witness_f12)):
        ctx.search_evaluations += 1
        msg = fn(pym)
        pv.setdefault('witness:' + name, dict(histories=0, differing=0))['histories'] += 1
        if msg:
            pv['witness:' + name]['differing'] += 1
            ctx.violation('impl-violates', name.split()[1] + '._response', 'history run equals fresh run', 'regression witness',
                          dict(witness=name), expected='same as fresh module', got=msg)
    # magnitude of the PREVIOUS solution (initial guess of an iterative solver): finding, see findings/K07_C03_cg_initial_guess_magnitude.py
    if not replaying or (isinstance(rp, dict) and 'witness' in rp):
        ctx.search_evaluations += 1
        msg, ratio = witness_cg_guess(pym)
        pv['witness:CG initial guess of another magnitude'] = dict(histories=1, differing=int(bool(msg)))
        if msg:
            # K07 only when the case says so: every differing solve started from a guess >= 1e9 times larger than the solution
            ctx.violation('impl-violates', 'CG.solve', 'history run equals fresh run',
                          'CG started from a previous solution >= 1e9 times larger than the new one' if ratio >= 1e9 else
                          'CG with the previous solution as initial guess', dict(witness='CG initial guess of another magnitude'),
                          expected='same as fresh module (to the tolerance of CG)', got=msg)
    ctx.extra['purity_validation'] = pv
    phases['library histories (stress + random)'] = round(_time.time() - _t, 1)
    ctx.extra['phase_seconds'] = phases
    for c in CONTROLS:
        if c in pv and pv[c]['differing'] == 0 and pv[c]['histories'] >= 10:
            ctx.obligation('harness:positive control ' + c + ' shows history dependence', 'harness', False,
                           'the documented memory was not observed: the comparison has no detection power')
            ctx.violation('correspondence', c, 'positive control detected', 'harness', dict(control=c, stats=pv[c]),
                          note='history dependence of a documented memory was not observed')


def witness_f16(pym):
    A = np.array([[4., 1, 0], [1, 3, 1], [0, 1, 5]])
    for b1, b2 in ((np.eye(3)[:, :2], np.array([1., 2, 3])), (np.eye(3)[:, :2], np.ones((3, 3))), (np.array([1., 0, 2]), np.eye(3)[:, :2])):
        sA, sb = pym.Signal('A', A), pym.Signal('b', b1.copy())
        m = pym.LinSolve([sA, sb])
        try:
            m.response()
            sb.state = b2.copy()
            m.response()
        except Exception as e:
            return f'{type(e).__name__}: {str(e)[:160]}'
        fresh = pym.LinSolve([sA, sb])
        fresh.response()
        if not np.allclose(m.sig_out[0].state, fresh.sig_out[0].state, rtol=1e-9, atol=1e-12):
            return 'solution differs from fresh module'
    return None


def witness_cg_guess(pym):
    """LinSolve hands its previous solution to CG as initial guess: solve with a load 1e12 (1e16) times larger first.
    returns (message or None, smallest ratio |guess| / |new solution| among the differing cases)"""
    import scipy.sparse as sps
    n = 30
    A = sps.diags([-1, 2.2, -1], [-1, 0, 1], shape=(n, n), format='csc')
    b = np.random.default_rng(0).standard_normal(n)
    x = np.linalg.solve(A.toarray(), b)
    out, ratios = [], []
    for tol, factor in ((1e-10, 1e3), (1e-10, 1e12), (1e-7, 1e16)):
        sA, sb = pym.Signal('A', A), pym.Signal('b', factor * b)
        m = pym.LinSolve([sA, sb], pym.Signal('u'), solver=pym.solvers.CG(tol=tol))
        m.response()
        guess = float(np.linalg.norm(m.sig_out[0].state))
        sb.state = b.copy()
        m.response()
        fresh = pym.LinSolve([pym.Signal('A', A), pym.Signal('b', b.copy())], pym.Signal('u'), solver=pym.solvers.CG(tol=tol))
        fresh.response()
        eh = float(np.linalg.norm(m.sig_out[0].state - x) / np.linalg.norm(x))
        ef = float(np.linalg.norm(fresh.sig_out[0].state - x) / np.linalg.norm(x))
        if ef <= 100 * tol < eh:
            ratios.append(guess / float(np.linalg.norm(fresh.sig_out[0].state)))
            out.append(f'CG(tol={tol:g}), |initial guess| / |new solution| = {ratios[-1]:.1e}: relative error {eh:.1e} after the '
                       f'history, {ef:.1e} fresh')
    return ('; '.join(out) or None), (min(ratios) if ratios else 0.0)


def witness_f12(pym):
    import scipy.sparse as sps
    A = sps.csc_matrix(np.array([[4., 1, 0, 0], [1, 3, 1, 0], [0, 1, 5, 1], [0, 0, 1, 6]]))
    sA = pym.Signal('A', A.copy())
    m = pym.SystemOfEquations([sA, pym.Signal('bf', np.array([1., 2])), pym.Signal('xp', np.array([0.5, -1.]))],
                              prescribed=np.array([1, 3]))
    try:
        m.response()
        x1 = np.array(m.sig_out[0].state, copy=True)
        m.response()
    except Exception as e:
        return f'{type(e).__name__}: {str(e)[:160]}'
    if sA.state.shape != (4, 4) or not np.allclose(m.sig_out[0].state, x1):
        return 'input matrix overwritten or second response differs'
    sB = pym.Signal('A', A.copy())
    c = pym.StaticCondensation(sB, main=np.array([0, 3]), free=np.array([1, 2]))
    try:
        c.response()
        r1 = np.array(c.sig_out[0].state, copy=True)
        c.response()
    except Exception as e:
        return f'{type(e).__name__}: {str(e)[:160]}'
    if sB.state.shape != (4, 4) or not np.allclose(np.asarray(c.sig_out[0].state), r1):
        return 'input matrix overwritten or second response differs'
    return None


if __name__ == '__main__':
    vlib.main(run, 'C03')
