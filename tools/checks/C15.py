"""C15 — DyadCarrier behaves exactly like the dense matrix it represents.

(H) correspondence: read / mutate / read histories on one object (every read operation before and after every in-place
operation, see stress_programs) and random programs (<= 12 operations) over a store of <= 4 carriers and a pool of <= 3 dense
operands are run on the real pymoto.DyadCarrier; after every step the result, the state of the bound / mutated
carrier (stored vectors with their dtypes, shape, dtype, todense()) are written into coq/gen/C15/cases_*.v and the
Gallina model (Model/Dyad.v) is evaluated on the same program inside Coq (exact: Gaussian-integer data).
Oracle: the same program on dense numpy matrices; before/after snapshots of every other object.
"""
import os, json, glob, copy
import numpy as np
import vlib

HEADER = '''From Coq Require Import ZArith List Bool.
From Pymoto Require Import Base.Num Base.Gauss Base.Mat Model.Dyad.
Import ListNotations.
Open Scope Z_scope.
'''

MAXABS = 2000          # multiplicative operations are only generated while all stored entries stay below this
MAXDYADS = 6           # operations that add dyads are only generated for carriers with at most this many dyads


# ============================================================================ array descriptions (JSON-able)
def A(arr, py=False):
    arr = np.asarray(arr)
    kind = arr.dtype.kind if arr.dtype.kind in 'fci' else 'f'
    d = {'shape': list(arr.shape), 're': [int(v) for v in np.real(arr).ravel()], 'dt': kind}
    if kind == 'c':
        d['im'] = [int(v) for v in np.imag(arr).ravel()]
    if py:
        d['py'] = True
    return d


def unA(d):
    re = np.array(d['re'], dtype=float)
    if d['dt'] == 'c':
        a = (re + 1j * np.array(d['im'], dtype=float)).astype(complex)
    elif d['dt'] == 'i':
        a = re.astype(int)
    else:
        a = re
    a = a.reshape(d['shape'])
    return a.tolist() if d.get('py') else a


def un_uarg(u):
    if u is None:
        return None
    if 'one' in u:
        return unA(u['one'])
    if 'tuple' in u:
        return tuple(unA(x) for x in u['tuple'])
    return [unA(x) for x in u['list']]


def un_idx(ix):
    if 'int' in ix:
        return ix['int']
    if 'slice' in ix:
        return slice(*ix['slice'])
    return np.array(ix['arr'], dtype=int)


def un_scal(s):
    v = complex(s['re'], s['im']) if s.get('im') is not None else (int(s['re']) if s.get('int') else float(s['re']))
    if s.get('np'):
        v = np.complex128(v) if isinstance(v, complex) else np.float64(v)
    return v


# ============================================================================ Coq literals
def z(n):
    n = int(n)
    return f'({n})' if n < 0 else str(n)


def cint(x):
    xf = float(x)
    if xf != int(xf):
        raise ValueError(f'non-integer value {x!r} in exact mode')
    return int(xf)


def cval(x):
    x = complex(x)
    return f'({z(cint(x.real))},{z(cint(x.imag))})'


def vlit(a):
    a = np.asarray(a).ravel()
    if a.dtype.kind == 'c':
        return '[' + ';'.join(cval(x) for x in a) + ']'
    return 'rv [' + ';'.join(z(cint(x)) for x in a) + ']'


def mlit(a):
    a = np.asarray(a)
    if a.dtype.kind == 'c':
        return '[' + ';'.join('[' + ';'.join(cval(x) for x in r) + ']' for r in a) + ']'
    return 'rm [' + ';'.join('[' + ';'.join(z(cint(x)) for x in r) + ']' for r in a) + ']'


def blit(b):
    return 'true' if b else 'false'


def flag(a):
    return blit(np.iscomplexobj(a))


def oz(v):
    return 'None' if v is None else f'(Some {z(v)})'


def inarr_lit(x):
    a = np.array(x)
    if a.ndim == 0:
        return f'(IScal {cval(a[()])} {flag(a)})'
    if a.ndim == 1:
        return f'(IVec ({vlit(a)}) {flag(a)})'
    nc = a.shape[-1]
    return f'(IBlk {nc} ({mlit(a.reshape(int(np.prod(a.shape[:-1])), nc))}) {flag(a)})'


def uarg_lit(u):
    """what utils._parse_to_list makes of the actual Python argument"""
    if u is None:
        return 'UNone'
    obj = un_uarg(u)
    if isinstance(obj, (list, tuple)):
        return '(UList [' + ';'.join(inarr_lit(x) for x in obj) + '])'
    return f'(UOne {inarr_lit(obj)})'


def idx_lit(ix):
    if 'int' in ix:
        return f'(IInt {z(ix["int"])})'
    if 'slice' in ix:
        a, b, s = ix['slice']
        return f'(ISlice {oz(a)} {oz(b)} {oz(s)})'
    return '(IArr [' + ';'.join(z(v) for v in ix['arr']) + '])'


def scal_lit(s):
    v = un_scal(s)
    return f'{cval(v)} {blit(isinstance(v, (complex, np.complexfloating)))}'


def arg_lit(b):
    if 'slot' in b:
        return f'(ASlot {b["slot"]})'
    if 'scal' in b:
        return f'(AScal {scal_lit(b["scal"])})'
    a = unA(b['arr'])
    if a.ndim == 1:
        return f'(AVec ({vlit(a)}) {flag(a)})'
    return f'(AMat {a.shape[0]} {a.shape[1]} ({mlit(a)}) {flag(a)})'


def vec_lit(a):
    return f'(mkvec ({vlit(a)}) {flag(a)})'


def carrier_lit(D):
    return ('(mkcar [' + ';'.join(vec_lit(u) for u in D.u) + '] [' + ';'.join(vec_lit(v) for v in D.v) + '] '
            f'{z(D.ulen)} {z(D.vlen)} {blit(D.iscomplex())})')


def cmat_lit(m):
    """contract matrix description -> Coq `option cmat`"""
    if m is None:
        return 'None'
    a = unA(m['arr'])
    nr, nc = a.shape[-2], a.shape[-1]
    bs = 'None' if a.ndim == 2 else '(Some [' + ';'.join(z(v) for v in a.shape[:-2]) + '])'
    mats = a.reshape((int(np.prod(a.shape[:-2])), nr, nc))
    return f'(Some (mkcmat {bs} {nr} {nc} [' + ';'.join(mlit(x) for x in mats) + f'] {flag(a)}))'


def cidx_lit(ix):
    if ix is None:
        return 'None'
    a = np.array(ix['arr'], dtype=int).reshape(ix['shape'])
    n = a.shape[-1]
    bs = 'None' if a.ndim == 1 else '(Some [' + ';'.join(z(v) for v in a.shape[:-1]) + '])'
    rows = a.reshape((int(np.prod(a.shape[:-1])), n))
    return f'(Some (mkcidx {bs} {n} [' + ';'.join('[' + ';'.join(z(v) for v in r) + ']' for r in rows) + ']))'


def un_cmat(m):
    if m is None:
        return None
    a = unA(m['arr'])
    if m.get('sparse'):
        import scipy.sparse as sp
        return {'coo': sp.coo_matrix, 'csr': sp.csr_matrix, 'csc': sp.csc_matrix}[m['sparse']](a)
    return a


def mmat_lit(m):
    if m is None:
        return 'MNone'
    x = un_cmat(m)
    if isinstance(x, np.ndarray):
        return '(MDense ' + cmat_lit(m)[len('(Some '):-1] + ')'
    coo = x.tocoo()
    tr = ';'.join(f'({z(r)},{z(c)},{cval(v)})' for r, c, v in zip(coo.row, coo.col, coo.data))
    return f'(MSp [{tr}] {blit(np.iscomplexobj(coo.data))})'


def un_cidx(ix):
    return None if ix is None else np.array(ix['arr'], dtype=int).reshape(ix['shape'])


UNOPS = {'copy': 'UCopy', 'pos': 'UPos', 'neg': 'UNeg', 'T': 'UTr', 'transpose': 'UTr', 'conj': 'UConj',
         'real': 'UReal', 'imag': 'UImag'}
BINOPS = {'add': 'BAdd', 'radd': 'BRadd', 'sub': 'BSub', 'rsub': 'BRsub', 'matmul': 'BMatmul', 'rmatmul': 'BRmatmul',
          'dot': 'BDot'}


def op_lit(st):
    o = st['op']
    if o == 'new':
        r, c = st['shape'] if st.get('shape') is not None else (-1, -1)
        return f'(ONew {st["dst"]} {uarg_lit(st["u"])} {uarg_lit(st["v"])} {z(r)} {z(c)})'
    if o == 'add_dyad':
        return f'(OAddDyad {st["tgt"]} {uarg_lit(st["u"])} {uarg_lit(st["v"])} {oz(st.get("fac"))})'
    if o == 'un':
        return f'(OUn {UNOPS[st["k"]]} {st["dst"]} {st["src"]})'
    if o == 'iadd':
        return f'(OIadd {st["tgt"]} {st["src"]})'
    if o == 'isub':
        return f'(OIsub {st["tgt"]} {st["src"]})'
    if o == 'bin':
        return f'(OBin {BINOPS[st["k"]]} {st["dst"]} {st["a"]} {arg_lit(st["b"])})'
    if o == 'mul':
        return f'(OMul {st["dst"]} {st["a"]} {scal_lit(st["s"])})'
    if o == 'rmul':
        return f'(ORmul {st["dst"]} {st["a"]} {scal_lit(st["s"])})'
    if o == 'todense':
        return f'(OTodense {st["a"]})'
    if o == 'diag':
        return f'(ODiag {st["a"]} {z(st["k"])})'
    if o == 'get':
        return f'(OGet {st["dst"]} {st["a"]} {idx_lit(st["i"])} {idx_lit(st["j"])})'
    if o == 'set':
        return f'(OSet {st["tgt"]} {idx_lit(st["i"])} {idx_lit(st["j"])} {cval(un_scal(st["v"]))})'
    if o == 'contract':
        return f'(OContract {st["a"]} {cmat_lit(st["mat"])} {cidx_lit(st["rows"])} {cidx_lit(st["cols"])})'
    if o == 'contract_multi':
        return f'(OContractMulti {st["a"]} [' + ';'.join(mmat_lit(m) for m in st['mats']) + '])'
    raise KeyError(o)


ERRS = [(TypeError, 'TypeE'), (ValueError, 'ValueE'), (IndexError, 'IndexE'), (AssertionError, 'AssertE'),
        (RuntimeError, 'RuntimeE')]


def err_enum(e):
    for cls, name in ERRS:
        if isinstance(e, cls):
            return name
    return 'OtherE'


def out_lit(r, isdyad, batch=False):
    """observed result -> Coq `res out`"""
    if isinstance(r, Exception):
        return f'(Er {err_enum(r)})'
    if isdyad(r):
        return '(Ok ONone)'          # the carrier itself is compared through the observed slot state
    a = np.asarray(r)
    if batch:
        return f'(Ok (OBatch [' + ';'.join(z(v) for v in a.shape) + f'] ({vlit(a)}) {flag(a)}))'
    if a.ndim == 0:
        return f'(Ok (OScal {cval(a[()])} {flag(a)}))'
    if a.ndim == 1:
        return f'(Ok (OVec ({vlit(a)}) {flag(a)}))'
    if a.ndim == 2:
        return f'(Ok (OMat {a.shape[0]} {a.shape[1]} ({mlit(a)}) {flag(a)}))'
    raise ValueError('unexpected result rank')


# ============================================================================ running one step on the implementation
INPLACE = ('add_dyad', 'iadd', 'isub', 'set')


def exec_step(st, store, pym):
    """returns (result or exception instance, observed slot or None)"""
    DC = pym.DyadCarrier
    o = st['op']
    slot = st.get('tgt') if o in INPLACE else None
    try:
        if o == 'new':
            u, v = un_uarg(st['u']), un_uarg(st['v'])
            kw = {} if st.get('shape') is None else {'shape': tuple(st['shape'])}
            if st['v'] is None and st.get('omit_v'):
                r = DC(u, **kw) if st['u'] is not None or not st.get('omit_u') else DC(**kw)
            else:
                r = DC(u, v, **kw)
        elif o == 'add_dyad':
            u, v = un_uarg(st['u']), un_uarg(st['v'])
            fac = st.get('fac')
            D = store[st['tgt']]
            r = D.add_dyad(u, v, float(fac)) if fac is not None else (D.add_dyad(u) if st['v'] is None and st.get('omit_v') else D.add_dyad(u, v))
        elif o == 'un':
            D = store[st['src']]
            k = st['k']
            r = {'copy': lambda: D.copy(), 'pos': lambda: +D, 'neg': lambda: -D, 'T': lambda: D.T,
                 'transpose': lambda: D.transpose(), 'conj': lambda: D.conj(), 'real': lambda: D.real,
                 'imag': lambda: D.imag}[k]()
        elif o == 'iadd':
            D = store[st['tgt']]
            D += store[st['src']]
            r = D
        elif o == 'isub':
            D = store[st['tgt']]
            D -= store[st['src']]
            r = D
        elif o == 'bin':
            D = store[st['a']]
            b = st['b']
            x = store[b['slot']] if 'slot' in b else (un_scal(b['scal']) if 'scal' in b else unA(b['arr']))
            k = st['k']
            if k == 'add':
                r = D + x
            elif k == 'radd':
                r = x + D
            elif k == 'sub':
                r = D - x
            elif k == 'rsub':
                r = x - D
            elif k == 'matmul':
                r = D @ x
            elif k == 'rmatmul':
                r = x @ D
            else:
                r = D.dot(x)
        elif o == 'mul':
            r = store[st['a']] * un_scal(st['s'])
        elif o == 'rmul':
            r = un_scal(st['s']) * store[st['a']]
        elif o == 'todense':
            r = store[st['a']].toarray() if st.get('via') == 'toarray' else store[st['a']].todense()
        elif o == 'diag':
            r = store[st['a']].diagonal(st['k']) if st['k'] != 0 or st.get('explicit_k') else store[st['a']].diagonal()
        elif o == 'get':
            r = store[st['a']][un_idx(st['i']), un_idx(st['j'])]
        elif o == 'set':
            D = store[st['tgt']]
            D[un_idx(st['i']), un_idx(st['j'])] = un_scal(st['v'])
            r = D
        elif o == 'contract':
            D = store[st['a']]
            mat, rows, cols = un_cmat(st['mat']), un_cidx(st['rows']), un_cidx(st['cols'])
            kw = {}
            if rows is not None:
                kw['rows'] = rows
            if cols is not None:
                kw['cols'] = cols
            r = D.contract(mat, **kw) if mat is not None or st.get('explicit_none') else D.contract(**kw)
        elif o == 'contract_multi':
            r = store[st['a']].contract_multi([un_cmat(m) for m in st['mats']])
        else:
            raise KeyError(o)
    except Exception as e:   # noqa
        return e, slot
    if isinstance(r, DC) and o not in INPLACE:
        slot = min(st['dst'], len(store))        # binding to a slot beyond the end appends (as set_slot in the model)
        if slot == len(store):
            store.append(None)
        store[slot] = r
    return r, slot


def snapshot(D):
    return ([u.copy() for u in D.u], [v.copy() for v in D.v], D.shape, D.dtype, [id(u) for u in D.u], [id(v) for v in D.v])


def same_snapshot(a, b):
    return (len(a[0]) == len(b[0]) and len(a[1]) == len(b[1]) and a[2] == b[2] and a[3] == b[3]
            and all(x.dtype == y.dtype and x.shape == y.shape and np.array_equal(x, y) for x, y in zip(a[0] + a[1], b[0] + b[1])))


# ============================================================================ the dense program (oracle)
class Skip(Exception):
    pass


class Restricted(Exception):
    """the carrier documents an error here (kind = exception class)"""
    def __init__(self, cls):
        self.cls = cls


def in_vec(x):
    a = np.array(x)
    if a.ndim > 1:
        a = a.sum(axis=tuple(range(a.ndim - 1)))
    elif a.ndim == 0:
        a = a[np.newaxis]
    return a


def as_list(u):
    if u is None:
        return []
    if isinstance(u, list):
        return u
    if isinstance(u, tuple):
        return list(u)
    return [u]


def dense_add_dyads(M, shape, u, v, fac):
    """numpy statement of add_dyad on a dense matrix M with declared shape (may contain negatives)"""
    ul = as_list(u)
    vl = ul if v is None else as_list(v)
    if len(ul) != len(vl):
        raise Restricted(TypeError)
    r, c = shape
    uv = [(in_vec(a), in_vec(b)) for a, b in zip(ul, vl)]
    if uv:
        if r < 0:
            r = uv[0][0].shape[0]
        if c < 0:
            c = uv[0][1].shape[0]
        if any(a.shape[0] != r or b.shape[0] != c for a, b in uv):
            raise Restricted(TypeError)
    out = np.zeros((max(r, 0), max(c, 0)), dtype=M.dtype)
    if M.shape == out.shape:
        out = out + M
    for a, b in uv:
        out = out + (1.0 if fac is None else float(fac)) * np.outer(a, b)
    return out, (r, c)


def dense_step(st, dstore, store_before, pym):
    """returns (expected value, expected declared shape or None); raises Skip / Restricted"""
    o = st['op']

    def dm(slot):
        return dstore[slot]
    if o == 'new':
        shape = tuple(st['shape']) if st.get('shape') is not None else (-1, -1)
        return dense_add_dyads(np.zeros((max(shape[0], 0), max(shape[1], 0))), shape, un_uarg(st['u']), un_uarg(st['v']), None)
    if o == 'add_dyad':
        M, shape = dm(st['tgt'])
        return dense_add_dyads(M, shape, un_uarg(st['u']), un_uarg(st['v']), st.get('fac'))
    if o == 'un':
        M, (r, c) = dm(st['src'])
        k = st['k']
        if k in ('T', 'transpose'):
            return M.T.copy(), (c, r)
        f = {'copy': lambda: M.copy(), 'pos': lambda: +M, 'neg': lambda: -M, 'conj': lambda: M.conj(),
             'real': lambda: M.real.copy(), 'imag': lambda: M.imag.copy()}[k]
        return f(), (r, c)
    if o in ('iadd', 'isub') or (o == 'bin' and st['k'] in ('add', 'sub') and 'slot' in st['b']):
        sa, sb = (st['tgt'], st['src']) if o in ('iadd', 'isub') else (st['a'], st['b']['slot'])
        (Ma, sha), (Mb, shb) = dm(sa), dm(sb)
        minus = o == 'isub' or (o == 'bin' and st['k'] == 'sub')
        if min(shb) < 0:                       # the other carrier has no shape yet: neutral element
            return Ma.copy(), sha
        if sha == shb and min(sha) >= 0:
            return (Ma - Mb if minus else Ma + Mb), sha
        if o == 'bin' and sha != shb and Ma.size > 0 and Mb.size > 0 and min(sha) >= 0:
            raise Restricted(ValueError)
        raise Skip('shapes outside the domain of the theorem')
    if o == 'bin':
        M, (r, c) = dm(st['a'])
        k, b = st['k'], st['b']
        if 'scal' in b:
            s = un_scal(b['scal'])
            if k in ('matmul', 'rmatmul', 'dot'):
                raise Skip('scalar matmul')
            if s != 0:
                raise Restricted(RuntimeError)
            return (-M if k == 'rsub' else M.copy()), (r, c)
        x = unA(b['arr'])
        if k in ('add', 'radd', 'sub', 'rsub'):
            if min(r, c) < 0:
                raise Skip('unknown shape')
            try:
                xb = np.broadcast_to(x, M.shape)
            except ValueError:
                raise Skip('not broadcastable to the carrier shape')
            return {'add': M + xb, 'radd': xb + M, 'sub': M - xb, 'rsub': xb - M}[k], None
        if x.ndim not in (1, 2):
            raise Skip('operand rank')
        if k in ('matmul', 'dot'):
            if c != x.shape[0]:
                raise Skip('inner dimensions differ')
            return (M @ x), (None if x.ndim == 1 else (r, x.shape[1]))
        if r != x.shape[-1]:
            raise Skip('inner dimensions differ')
        return (x @ M), (None if x.ndim == 1 else (x.shape[0], c))
    if o in ('mul', 'rmul'):
        M, sh = dm(st['a'])
        s = un_scal(st['s'])
        return (M * s if o == 'mul' else s * M), sh
    if o == 'todense':
        return dm(st['a'])[0].copy(), None
    if o == 'diag':
        return np.diagonal(dm(st['a'])[0], st['k']).copy(), None
    if o == 'get':
        M, (r, c) = dm(st['a'])
        if min(r, c) < 0:
            raise Skip('unknown shape')
        i, j = un_idx(st['i']), un_idx(st['j'])
        if isinstance(i, np.ndarray) and isinstance(j, np.ndarray) and i.shape != j.shape:
            raise Restricted(IndexError)
        try:
            val = M[i, j]
        except (IndexError, ValueError):
            raise Skip('index outside the matrix')
        val = np.array(val)
        if val.ndim == 2:
            return val, val.shape
        return val, None
    if o == 'set':
        M, sh = dm(st['tgt'])
        v = un_scal(st['v'])
        if v != 0:
            raise Restricted(ValueError)
        nul = [('slice' in st[q] and st[q]['slice'] == [None, None, None]) for q in ('i', 'j')]
        if not any(nul):
            raise Restricted(IndexError)
        if min(sh) < 0:
            raise Skip('unknown shape')
        M = M.copy()
        try:
            M[un_idx(st['i']), un_idx(st['j'])] = 0
        except (IndexError, ValueError):
            raise Skip('index outside the matrix')
        return M, sh
    if o == 'contract':
        M, (r, c) = dm(st['a'])
        if min(r, c) < 0:
            raise Skip('unknown shape')
        mat, rows, cols = un_cmat(st['mat']), un_cidx(st['rows']), un_cidx(st['cols'])
        if mat is not None and not isinstance(mat, np.ndarray):
            mat = mat.toarray()
        bshapes = [x for x in ((mat.shape[:-2] if mat is not None and mat.ndim > 2 else None),
                               (rows.shape[:-1] if rows is not None and rows.ndim > 1 else None),
                               (cols.shape[:-1] if cols is not None and cols.ndim > 1 else None)) if x is not None]
        if any(b != bshapes[0] for b in bshapes):
            raise Restricted(ValueError)
        bs = bshapes[0] if bshapes else None
        P = int(np.prod(bs)) if bs is not None else 1
        fm = mat.reshape((P,) + mat.shape[-2:]) if mat is not None and mat.ndim > 2 else None
        fr = rows.reshape((P, rows.shape[-1])) if rows is not None and rows.ndim > 1 else None
        fc = cols.reshape((P, cols.shape[-1])) if cols is not None and cols.ndim > 1 else None
        vals = []
        try:
            for p in range(P):
                ri = np.arange(r) if rows is None else (fr[p] if fr is not None else rows)
                ci = np.arange(c) if cols is None else (fc[p] if fc is not None else cols)
                sub = M[np.ix_(ri, ci)] if ri.size and ci.size else np.zeros((ri.size, ci.size), dtype=M.dtype)
                if ri.size and (ri.max() >= r or ri.min() < -r) or ci.size and (ci.max() >= c or ci.min() < -c):
                    raise IndexError
                if mat is None:
                    if sub.shape[0] != sub.shape[1]:
                        raise Skip('trace of a non-square block')
                    vals.append(np.trace(sub))
                else:
                    B = fm[p] if fm is not None else mat
                    if B.shape != sub.shape:
                        raise Skip('matrix does not conform')
                    vals.append((sub * B).sum())
        except IndexError:
            raise Skip('index outside the matrix')
        res_dtype = np.result_type(M.dtype, mat.dtype if mat is not None else float)
        if bs is None:
            return np.asarray(vals[0], dtype=res_dtype), None
        return np.array(vals, dtype=res_dtype).reshape(bs), None
    if o == 'contract_multi':
        M, (r, c) = dm(st['a'])
        if min(r, c) < 0:
            raise Skip('unknown shape')
        mats = [un_cmat(m) for m in st['mats']]
        vals, dts = [], [M.dtype]
        for m in mats:
            if m is None:
                vals.append(0.0)
                continue
            B = m if isinstance(m, np.ndarray) else m.toarray()
            dts.append(B.dtype)
            if B.shape != M.shape:
                raise Skip('matrix does not conform')
            vals.append((M * B).sum())
        return np.array(vals, dtype=np.result_type(*dts)), None
    raise Skip('no dense statement for ' + o)


# ============================================================================ generation of programs
class Gen:
    def __init__(self, rng, pym):
        self.rng, self.pym = rng, pym

    def val(self, cplx):
        r = self.rng
        return complex(r.randint(-3, 3), r.randint(-3, 3)) if cplx else float(r.randint(-3, 3))

    def arr(self, shape, cplx=None, pzero=0.08):
        r = self.rng
        if cplx is None:
            cplx = r.random() < 0.3
        n = int(np.prod(shape)) if len(shape) else 1
        if r.random() < pzero:
            vals = [0j if cplx else 0.0] * n
        else:
            vals = [self.val(cplx) for _ in range(n)]
        return np.array(vals, dtype=complex if cplx else float).reshape(shape)

    def dim(self):
        return self.rng.choice([0, 1, 1, 2, 2, 2, 2, 3, 3, 3, 3, 3, 4, 4, 4, 5])

    def scal(self, cplx=None, nonzero=False):
        r = self.rng
        if cplx is None:
            cplx = r.random() < 0.3
        while True:
            v = self.val(cplx)
            if not nonzero or v != 0:
                break
        d = {'re': int(complex(v).real), 'im': int(complex(v).imag) if cplx else None}
        if not cplx and r.random() < 0.3:
            d['int'] = True
        elif r.random() < 0.2:
            d['np'] = True
        return d

    def inarr(self, n, kind=None):
        """one element of a u / v list for vectors of length n"""
        r = self.rng
        kind = kind or r.choice(['vec'] * 6 + ['blk', 'blk3', 'pylist'] + (['scal'] if n == 1 else []))
        if kind == 'vec':
            return A(self.arr((n,)))
        if kind == 'blk':
            return A(self.arr((r.randint(0, 3), n), pzero=0.0))
        if kind == 'blk3':
            return A(self.arr((r.randint(1, 2), r.randint(1, 2), n), pzero=0.0))
        if kind == 'pylist':
            return A(self.arr((n,), cplx=False).astype(int) if r.random() < 0.5 else self.arr((n,)), py=True)
        return A(self.arr(()), py=r.random() < 0.5)

    def uarg_pair(self, r_, c_, malformed=False):
        """(u, v, extra) descriptions for vectors of lengths r_ / c_"""
        r = self.rng
        form = r.choice(['one'] * 5 + ['list'] * 7 + ['tuple'] * 2 + ['sym'] * 2 + ['none'])
        if form == 'none':
            return None, None, {'omit_v': True, 'omit_u': r.random() < 0.5}
        if form == 'sym' and r_ == c_:
            k = r.randint(1, 2)
            u = {'one': self.inarr(r_)} if k == 1 and r.random() < 0.5 else {'list': [self.inarr(r_) for _ in range(k)]}
            return u, None, {'omit_v': r.random() < 0.5}
        if form == 'one' or form == 'sym':
            ku = r.choice(['vec', 'vec', 'blk', 'blk3'])
            kv = r.choice(['vec', 'vec', 'blk'])
            return {'one': self.inarr(r_, ku)}, {'one': self.inarr(c_, kv)}, {}
        k = r.choice([0, 1, 1, 2, 2, 2, 3, 3])
        ul = [self.inarr(r_) for _ in range(k)]
        vl = [self.inarr(c_) for _ in range(k)]
        if malformed and r.random() < 0.5:
            vl = vl + [self.inarr(c_)]
        elif malformed and k > 0:
            q = r.randrange(k)
            (ul if r.random() < 0.5 else vl)[q] = self.inarr(r.choice([x for x in range(5) if x not in (r_, c_)]), 'vec')
        return {form: ul}, {form: vl}, {}

    def idx(self, n, kinds=('int', 'slice', 'arr'), malformed=False):
        r = self.rng
        k = r.choice(kinds)
        if k == 'int':
            if malformed or n == 0:
                return {'int': r.choice([n, n + 1, -n - 1])}
            return {'int': r.randint(-n, n - 1)}
        if k == 'slice':
            if r.random() < 0.3:
                return {'slice': [None, None, None]}
            def b():
                return None if r.random() < 0.35 else r.randint(-n - 2, n + 2)
            s = r.choice([None, None, 1, 2, -1, -2, 3]) if not malformed else 0
            return {'slice': [b(), b(), s]}
        m = r.randint(0, 4)
        if n == 0:
            m = 0
        lst = [r.randint(-n, n - 1) for _ in range(m)]
        if malformed and m > 0:
            lst[r.randrange(m)] = n + r.randint(0, 2)
        elif malformed:
            lst = [n]
        return {'arr': lst}

    def new_step(self, dst, malformed=False):
        r = self.rng
        r_, c_ = self.dim(), self.dim()
        if r.random() < 0.25:
            c_ = r_
        u, v, extra = self.uarg_pair(r_, c_, malformed)
        st = {'op': 'new', 'dst': dst, 'u': u, 'v': v, **extra}
        q = r.random()
        if u is None:
            st['shape'] = r.choice([None, [r_, c_], [r_, c_], [r_, -1], [-1, c_], [-1, -1]])
        elif q < 0.25:
            st['shape'] = [r_, c_] if not malformed else [r_ + 1, c_]
        elif q < 0.35:
            st['shape'] = r.choice([[r_, -1], [-1, c_], [-3, c_]])
        else:
            st['shape'] = None
        if st['shape'] is None and u is None and not extra.get('omit_v'):
            st['shape'] = None
        return st


def maxabs(D):
    m = 0.0
    for a in D.u + D.v:
        if a.size:
            m = max(m, float(np.abs(a).max()))
    return m


def gen_step(g, store, pool, malformed):
    """choose the next operation from the current implementation state"""
    r = g.rng
    live = [k for k, D in enumerate(store) if D is not None]
    if not live or r.random() < 0.07:
        return g.new_step(r.randint(0, min(len(store), 3)), malformed)
    full = [k for k in live if store[k].n_dyads > 0]
    a = r.choice(full) if full and r.random() < 0.8 else r.choice(live)
    D = store[a]
    R_, C_ = D.shape
    big = maxabs(D) > MAXABS
    many = D.n_dyads > MAXDYADS
    dst = r.randint(0, min(len(store), 3))
    known = R_ >= 0 and C_ >= 0
    kinds = ['un', 'un', 'un', 'todense', 'diag', 'get', 'get', 'set', 'set', 'binscal', 'bindense', 'matmul', 'matmul',
             'mul', 'bindyad', 'bindyad', 'inplace', 'inplace', 'add_dyad', 'contract', 'contract', 'contract']
    k = r.choice(kinds)
    if k == 'un':
        ops = ['copy', 'pos', 'neg', 'T', 'transpose', 'conj'] + ([] if many else ['real', 'imag'])
        return {'op': 'un', 'k': r.choice(ops), 'dst': dst, 'src': a}
    if k == 'todense':
        return {'op': 'todense', 'a': a, 'via': r.choice(['todense', 'toarray'])}
    if k == 'diag':
        return {'op': 'diag', 'a': a, 'k': r.randint(-max(R_, 1) - 1, max(C_, 1) + 1), 'explicit_k': r.random() < 0.5}
    if k == 'get':
        n, m = max(R_, 0), max(C_, 0)
        mode = r.choice(['uni', 'uni', 'pair', 'outer', 'outer'])
        if mode == 'uni':
            i = g.idx(n, ('int',), malformed and r.random() < 0.5)
            j = g.idx(m, ('int', 'slice', 'arr'), malformed and r.random() < 0.5)
            if r.random() < 0.5:
                i, j = g.idx(n, ('int', 'slice', 'arr'), malformed and r.random() < 0.5), g.idx(m, ('int',), malformed and r.random() < 0.5)
        elif mode == 'pair':
            i = g.idx(n, ('arr',))
            j = {'arr': [r.randint(-m, m - 1) for _ in i['arr']]} if m > 0 else {'arr': []}
            if m == 0 and i['arr']:
                i = {'arr': []}
            if malformed:
                j = {'arr': j['arr'] + [0]}
        else:
            i = g.idx(n, ('slice', 'slice', 'arr'), malformed and r.random() < 0.3)
            j = g.idx(m, ('slice', 'slice', 'arr') if 'slice' in i else ('slice',), malformed and r.random() < 0.3)
        return {'op': 'get', 'dst': dst, 'a': a, 'i': i, 'j': j}
    if k == 'set':
        n, m = max(R_, 0), max(C_, 0)
        nul = {'slice': [None, None, None]}
        if r.random() < 0.5:
            i, j = g.idx(n, ('int', 'slice', 'arr'), malformed and r.random() < 0.4), nul
        else:
            i, j = nul, g.idx(m, ('int', 'slice', 'arr'), malformed and r.random() < 0.4)
        v = {'re': 0, 'im': None, 'int': r.random() < 0.5}
        if malformed and r.random() < 0.4:
            v = g.scal(cplx=False, nonzero=True)
        if malformed and r.random() < 0.3:
            i, j = g.idx(n, ('int', 'slice')), g.idx(m, ('int', 'arr'))
        return {'op': 'set', 'tgt': a, 'i': i, 'j': j, 'v': v}
    if k == 'contract' and known and r.random() < 0.25:
        mats = []
        for _ in range(r.choice([0, 1, 2, 2, 3])):
            q = r.random()
            shape = (R_, C_) if not (malformed and r.random() < 0.5) else (R_ + 1, C_ + r.randint(0, 1))
            if q < 0.15:
                mats.append(None)
            elif q < 0.75:
                x = g.arr(shape, pzero=0.0)
                x = x * np.array([r.random() < 0.6 for _ in range(x.size)]).reshape(x.shape)   # sparsity pattern
                mats.append({'arr': A(x), 'sparse': r.choice(['coo', 'coo', 'csr', 'csc'])})
            else:
                mats.append({'arr': A(g.arr(shape))})
        return {'op': 'contract_multi', 'a': a, 'mats': mats}
    if k == 'contract' and known:
        return gen_contract(g, a, R_, C_, malformed)
    if k == 'binscal':
        s = {'re': 0, 'im': None, 'int': r.random() < 0.5, 'np': r.random() < 0.2}
        if r.random() < 0.15:
            s = {'re': 0, 'im': 0}
        if malformed:
            s = g.scal(nonzero=True)
        return {'op': 'bin', 'k': r.choice(['add', 'radd', 'sub', 'rsub']), 'dst': dst, 'a': a, 'b': {'scal': s}}
    if k == 'bindense':
        n, m = max(R_, 0), max(C_, 0)
        shape = r.choice([(n, m), (n, m), (m,), (1, m), (n, 1), (1, 1), (1,)])
        if malformed:
            shape = r.choice([(n + 1, m), (m + 2,), (n, m + 2)])
        x = pick_operand(g, pool, shape)
        return {'op': 'bin', 'k': r.choice(['add', 'radd', 'sub', 'rsub']), 'dst': dst, 'a': a, 'b': {'arr': A(x)}}
    if k == 'matmul' and not big:
        n, m = max(R_, 0), max(C_, 0)
        kk = r.choice(['matmul', 'matmul', 'dot', 'rmatmul', 'rmatmul'])
        inner = m if kk in ('matmul', 'dot') else n
        if malformed:
            inner = inner + r.randint(1, 2)
        if r.random() < 0.5:
            shape = (inner,)
        else:
            other = g.dim()
            shape = (inner, other) if kk in ('matmul', 'dot') else (other, inner)
        x = pick_operand(g, pool, shape)
        return {'op': 'bin', 'k': kk, 'dst': dst, 'a': a, 'b': {'arr': A(x)}}
    if k == 'mul' and not big:
        return {'op': r.choice(['mul', 'rmul']), 'dst': dst, 'a': a, 's': g.scal()}
    others = [b for b in live if b != a]
    if k in ('bindyad', 'inplace') and others and not many:
        same = [b for b in others if store[b].shape == D.shape or min(store[b].shape) < 0]
        b = r.choice(same) if same and not malformed else r.choice(others)
        if store[b].n_dyads > MAXDYADS:
            return {'op': 'un', 'k': 'copy', 'dst': dst, 'src': a}
        if k == 'bindyad':
            return {'op': 'bin', 'k': r.choice(['add', 'sub']), 'dst': dst, 'a': a, 'b': {'slot': b}}
        return {'op': r.choice(['iadd', 'isub']), 'tgt': a, 'src': b}
    if k == 'add_dyad' and not many:
        r_ = R_ if R_ >= 0 else g.dim()
        c_ = C_ if C_ >= 0 else g.dim()
        u, v, extra = g.uarg_pair(r_, c_, malformed)
        if u is None:
            u, v, extra = {'list': []}, {'list': []}, {}
        st = {'op': 'add_dyad', 'tgt': a, 'u': u, 'v': v, **extra}
        if v is not None and r.random() < 0.4:
            st['fac'] = r.choice([-1, 2, -2, 1, 0])
        return st
    # fall-back: make a second carrier of the same shape so that binary operations become possible
    if known and not malformed and len(live) < 3:
        st = g.new_step(dst)
        u, v, extra = g.uarg_pair(R_, C_)
        st.update({'u': u, 'v': v, 'shape': [R_, C_] if r.random() < 0.5 or u is None else None})
        st.pop('omit_v', None), st.pop('omit_u', None)
        st.update(extra)
        return st
    return {'op': 'un', 'k': r.choice(['copy', 'neg', 'T']), 'dst': dst, 'src': a}


CONTRACT_PATTERNS = ['plain', 'mat', 'sparse', 'rows', 'cols', 'rowscols', 'bmat', 'brows', 'bmatrows', 'ball', 'bcols', 'bb']


def gen_contract(g, a, R_, C_, malformed, pat=None):
    """one of the documented calling patterns of contract (plain / matrix / sparse / sliced / batched)"""
    r = g.rng
    if pat is None:
        pat = r.choice(['plain', 'mat', 'mat', 'sparse', 'rows', 'cols', 'rowscols', 'bmat', 'brows', 'bmatrows', 'ball', 'bcols', 'bb'])
    st = {'op': 'contract', 'a': a, 'mat': None, 'rows': None, 'cols': None}

    def index(n, shape):
        m = int(np.prod(shape))
        vals = [r.randint(-n, n - 1) if n > 0 else 0 for _ in range(m)]
        if malformed and m > 0 and r.random() < 0.4:
            vals[r.randrange(m)] = n + r.randint(0, 1)
        return {'arr': vals, 'shape': list(shape)}
    bs = tuple(r.choice([(1,), (2,), (3,), (2, 2), (1, 2)]))
    if pat == 'bb':
        bs = tuple(r.choice([(2, 1, 2), (2, 2)]))
    n = r.randint(1, 3) if R_ > 0 else 0
    m = r.randint(1, 3) if C_ > 0 else 0
    bad = malformed and r.random() < 0.6
    if pat == 'plain':
        st['explicit_none'] = r.random() < 0.3
        if R_ != C_ and not malformed:
            k = min(R_, C_)
            if r.random() < 0.5 and k > 0:
                st['rows'], st['cols'] = index(R_, (k,)), index(C_, (k,))
            else:
                pat = 'mat'
    if pat in ('mat', 'sparse'):
        x = g.arr((R_ + (1 if bad else 0), C_))
        st['mat'] = {'arr': A(x)}
        if pat == 'sparse':
            st['mat']['sparse'] = r.choice(['coo', 'csr', 'csc'])
    elif pat == 'rows':
        st['mat'], st['rows'] = {'arr': A(g.arr((n + (1 if bad else 0), C_)))}, index(R_, (n,))
        if r.random() < 0.3:
            st['mat']['sparse'] = 'csr'
    elif pat == 'cols':
        st['mat'], st['cols'] = {'arr': A(g.arr((R_, m + (1 if bad else 0))))}, index(C_, (m,))
    elif pat == 'rowscols':
        st['mat'], st['rows'], st['cols'] = {'arr': A(g.arr((n, m + (1 if bad else 0))))}, index(R_, (n,)), index(C_, (m,))
    elif pat in ('bmat', 'bb'):
        bad = bad and C_ >= 2          # einsum would broadcast a length-1 axis (not modelled, see assumptions)
        st['mat'] = {'arr': A(g.arr(bs + (R_, C_ + (2 if bad else 0))))}
    elif pat == 'brows':
        st['mat'], st['rows'] = {'arr': A(g.arr((n, C_)))}, index(R_, bs + (n,))
    elif pat == 'bcols':
        st['mat'], st['cols'] = {'arr': A(g.arr((R_, m)))}, index(C_, bs + (m,))
    elif pat == 'bmatrows':
        bs2 = bs if not bad else bs + (2,)
        st['mat'], st['rows'] = {'arr': A(g.arr(bs + (n, C_)))}, index(R_, bs2 + (n,))
    elif pat == 'ball':
        bs2 = bs if not bad else (bs[0] + 1,) + bs[1:]
        st['mat'], st['rows'], st['cols'] = {'arr': A(g.arr(bs + (n, m)))}, index(R_, bs + (n,)), index(C_, bs2 + (m,))
    return st


def pick_operand(g, pool, shape):
    """a dense operand of the given shape: reuse a pool entry (<= 3 live operands) or create one"""
    r = g.rng
    fits = [x for x in pool if x.shape == tuple(shape) and (x.size == 0 or np.abs(x).max() <= 50)]
    if fits and r.random() < 0.5:
        return r.choice(fits)
    x = g.arr(tuple(shape), pzero=0.05)
    pool.append(x)
    while len(pool) > 3:
        pool.pop(0)
    return x


# ============================================================================ read / mutate / read histories
# Deterministic structure (runs on every seed, data and orders from the seeded generator): ONE carrier object per
# program is read with EVERY read operation, modified in place, read again with the SAME operations and operands, ...
# so that anything the object keeps between calls (a cache of stacked vectors, of a dense image, of a dtype, of a
# shape) and does not refresh after an in-place operation shows up as a difference with the model and the dense program.
NUL = {'slice': [None, None, None]}
STRESS_TYPES = ['real', 'complex', 'mixed_uc', 'mixed_vc', 'mixed_dyads', 'single', 'empty', 'empty_unknown']
STRESS_SHAPES = [(3, 3), (3, 4), (4, 3), (4, 4), (2, 3), (4, 2), (2, 2), (3, 2)]
T, O1, O2, SCR, CPY = 0, 1, 2, 3, 4          # slots: target, real operand, complex operand, scratch, copy of the target


def carrier_new(g, dst, R, C, kind):
    """the `new` step of a carrier of the given kind (all stored vectors non-zero, so none is dropped)"""
    if kind == 'empty':
        return {'op': 'new', 'dst': dst, 'u': None, 'v': None, 'shape': [R, C], 'omit_v': True, 'omit_u': True}
    if kind == 'empty_unknown':
        return {'op': 'new', 'dst': dst, 'u': None, 'v': None, 'shape': None, 'omit_v': True, 'omit_u': True}

    def vec(n, cplx):
        while True:
            x = g.arr((n,), cplx=cplx, pzero=0.0)
            if np.any(x != 0):
                return A(x)
    ul, vl = [], []
    for q in range(1 if kind == 'single' else 3):
        cu, cv = {'real': (False, False), 'single': (False, False), 'complex': (True, True), 'mixed_uc': (True, False),
                  'mixed_vc': (False, True), 'mixed_dyads': (q == 1, q == 1)}[kind]
        ul.append(vec(R, cu))
        vl.append(vec(C, cv))
    return {'op': 'new', 'dst': dst, 'u': {'list': ul}, 'v': {'list': vl}, 'shape': None}


def read_block(g, a, R, C, full=True):
    """every read operation of the class on slot a (shape R x C known, R, C >= 2); carrier results go to the scratch slot.
    The block is generated once per program and repeated verbatim (same operands) after every in-place operation."""
    r = g.rng
    S = [{'op': 'todense', 'a': a, 'via': 'todense'}, {'op': 'todense', 'a': a, 'via': 'toarray'},
         {'op': 'diag', 'a': a, 'k': 0, 'explicit_k': False}, {'op': 'diag', 'a': a, 'k': 1, 'explicit_k': True},
         {'op': 'diag', 'a': a, 'k': -1, 'explicit_k': True}]
    for pat in CONTRACT_PATTERNS:
        S.append(gen_contract(g, a, R, C, False, pat=pat))

    def sp(fmt, cplx):
        x = g.arr((R, C), cplx=cplx, pzero=0.0)
        mask = np.array([r.random() < 0.6 for _ in range(x.size)]).reshape(x.shape)
        mask.flat[r.randrange(x.size)] = True
        return {'arr': A(x * mask), 'sparse': fmt}
    S.append({'op': 'contract_multi', 'a': a, 'mats': [sp('coo', False), sp('csr', True), None, {'arr': A(g.arr((R, C)))},
                                                       sp('csc', False)]})
    S.append({'op': 'contract_multi', 'a': a, 'mats': [sp('coo', r.random() < 0.3)]})
    for kk, shape in (('dot', (C,)), ('matmul', (C,)), ('rmatmul', (R,))) + ((('dot', (C, 2)), ('matmul', (C, 3)),
                                                                              ('rmatmul', (2, R))) if full else ()):
        S.append({'op': 'bin', 'k': kk, 'dst': SCR, 'a': a, 'b': {'arr': A(g.arr(shape, pzero=0.0))}})
    i0, j0 = r.randrange(R), r.randrange(C)
    ia, ja = [r.randrange(-R, R) for _ in range(3)], [r.randrange(-C, C) for _ in range(3)]
    gets = [({'int': i0}, {'int': j0}), ({'int': -1}, NUL), (NUL, {'int': j0}), ({'int': i0}, {'slice': [None, None, -1]}),
            ({'arr': ia}, {'int': j0}), ({'int': i0}, {'arr': ja}), ({'arr': ia}, {'arr': ja}), (NUL, NUL)]
    if full:
        gets += [({'slice': [1, None, None]}, {'slice': [None, -1, None]}), ({'arr': ia}, NUL), ({'slice': [None, None, 2]}, {'arr': ja})]
    S += [{'op': 'get', 'dst': SCR, 'a': a, 'i': i, 'j': j} for i, j in gets]
    S += [{'op': 'un', 'k': k, 'dst': SCR, 'src': a} for k in (('copy', 'pos', 'neg', 'T', 'transpose', 'conj', 'real', 'imag')
                                                                if full else ('copy', 'T', 'conj'))]
    if full:
        S += [{'op': 'mul', 'dst': SCR, 'a': a, 's': {'re': 2, 'im': None}},
              {'op': 'rmul', 'dst': SCR, 'a': a, 's': {'re': 1, 'im': 2}},
              {'op': 'mul', 'dst': SCR, 'a': a, 's': {'re': -1, 'im': None, 'int': True}},
              {'op': 'rmul', 'dst': SCR, 'a': a, 's': {'re': 3, 'im': None, 'np': True}},
              {'op': 'bin', 'k': 'add', 'dst': SCR, 'a': a, 'b': {'slot': O1}},
              {'op': 'bin', 'k': 'sub', 'dst': SCR, 'a': a, 'b': {'slot': O2}},
              {'op': 'bin', 'k': 'add', 'dst': SCR, 'a': a, 'b': {'arr': A(g.arr((R, C)))}},
              {'op': 'bin', 'k': 'radd', 'dst': SCR, 'a': a, 'b': {'arr': A(g.arr((C,)))}},
              {'op': 'bin', 'k': 'sub', 'dst': SCR, 'a': a, 'b': {'arr': A(g.arr((1, 1)))}},
              {'op': 'bin', 'k': 'rsub', 'dst': SCR, 'a': a, 'b': {'arr': A(g.arr((R, 1)))}},
              {'op': 'bin', 'k': 'add', 'dst': SCR, 'a': a, 'b': {'scal': {'re': 0, 'im': None}}},
              {'op': 'bin', 'k': 'rsub', 'dst': SCR, 'a': a, 'b': {'scal': {'re': 0, 'im': None, 'int': True}}}]
    return S


def unknown_read_block(a):
    """the reads that make sense before the shape of a carrier is known"""
    return ([{'op': 'todense', 'a': a, 'via': 'todense'}, {'op': 'diag', 'a': a, 'k': 0, 'explicit_k': False},
             {'op': 'get', 'dst': SCR, 'a': a, 'i': NUL, 'j': NUL}]
            + [{'op': 'un', 'k': k, 'dst': SCR, 'src': a} for k in ('copy', 'neg', 'T', 'conj', 'real', 'imag')]
            + [{'op': 'mul', 'dst': SCR, 'a': a, 's': {'re': 2, 'im': None}},
               {'op': 'bin', 'k': 'add', 'dst': SCR, 'a': a, 'b': {'scal': {'re': 0, 'im': None}}}])


def mutations(g, R, C):
    """(zeroing, adding): every in-place operation of the class on the target slot, plus re-binding the name to a new
    object (`d *= 2` and friends are not in-place for this class: the name is bound to the product)"""
    r = g.rng
    z0 = {'re': 0, 'im': None}

    def zset(i, j, **kw):
        return {'op': 'set', 'tgt': T, 'i': i, 'j': j, 'v': dict(z0, **kw)}

    def vec(n, cplx=None):
        while True:
            x = g.arr((n,), cplx=cplx, pzero=0.0)
            if np.any(x != 0):
                return A(x)
    ia = sorted({r.randrange(-R, R) for _ in range(2)})
    ja = sorted({r.randrange(-C, C) for _ in range(2)})
    Z = [('rows:int', zset({'int': r.randrange(R)}, NUL)), ('rows:negative int', zset({'int': -1}, NUL, int=True)),
         ('rows:slice', zset({'slice': [1, R, None]}, NUL)), ('rows:stepped slice', zset({'slice': [None, None, 2]}, NUL)),
         ('rows:index array', zset({'arr': ia}, NUL)), ('rows:empty index array', zset({'arr': []}, NUL)),
         ('cols:int', zset(NUL, {'int': r.randrange(C)}, int=True)), ('cols:slice', zset(NUL, {'slice': [None, C - 1, None]})),
         ('cols:negative slice', zset(NUL, {'slice': [-1, None, None]})), ('cols:index array', zset(NUL, {'arr': ja})),
         ('everything', zset(NUL, NUL))]
    Aop = [('+=real', {'op': 'iadd', 'tgt': T, 'src': O1}), ('-=real', {'op': 'isub', 'tgt': T, 'src': O1}),
           ('+=complex', {'op': 'iadd', 'tgt': T, 'src': O2}), ('-=complex', {'op': 'isub', 'tgt': T, 'src': O2}),
           ('add_dyad:vectors', {'op': 'add_dyad', 'tgt': T, 'u': {'one': vec(R)}, 'v': {'one': vec(C)}}),
           ('add_dyad:list with factor', {'op': 'add_dyad', 'tgt': T, 'u': {'list': [vec(R), vec(R)]},
                                          'v': {'list': [vec(C), vec(C)]}, 'fac': r.choice([-1, 2, -2])}),
           ('add_dyad:zero vector (nothing stored)', {'op': 'add_dyad', 'tgt': T, 'u': {'list': [A(np.zeros(R))]},
                                                      'v': {'list': [vec(C)]}}),
           ('add_dyad:block', {'op': 'add_dyad', 'tgt': T, 'u': {'one': A(g.arr((2, R), pzero=0.0))}, 'v': {'one': vec(C, True)}}),
           ('rebind:d = d * 2', {'op': 'mul', 'dst': T, 'a': T, 's': {'re': 2, 'im': None}}),
           ('rebind:d = -d', {'op': 'un', 'k': 'neg', 'dst': T, 'src': T}),
           ('rebind:d = d.copy()', {'op': 'un', 'k': 'copy', 'dst': T, 'src': T}),
           ('rebind:d = d.conj()', {'op': 'un', 'k': 'conj', 'dst': T, 'src': T})]
    if R == C:
        Aop.append(('add_dyad:symmetric', {'op': 'add_dyad', 'tgt': T, 'u': {'list': [vec(R)]}, 'v': None, 'omit_v': True}))
    return Z, Aop


def stress_programs(ctx, g, rep=0):
    """[(label, steps)]: per carrier type one chain  READS m1 READS m2 READS ...  that alternates zeroing and adding
    operations (each order drawn from the seeded generator) with the full read block in between, and three short
    programs with two consecutive operations of any kind and the compact read block"""
    r = g.rng
    progs = []
    off = r.randrange(len(STRESS_SHAPES))
    for ti, kind in enumerate(STRESS_TYPES):
        R, C = STRESS_SHAPES[(ti + off) % len(STRESS_SHAPES)]
        head = [carrier_new(g, T, R, C, kind), carrier_new(g, O1, R, C, 'real'), carrier_new(g, O2, R, C, 'complex')]
        pre = []
        if kind == 'empty_unknown':
            pre = unknown_read_block(T) + [{'op': r.choice(['iadd', 'isub']), 'tgt': T, 'src': r.choice([O1, O2])}] \
                + unknown_read_block(T)[:1]
        Z, Aop = mutations(g, R, C)
        # ---- the chain
        reads = read_block(g, T, R, C, full=True)
        r.shuffle(Z), r.shuffle(Aop)
        order = []
        while Z or Aop:
            if Z:
                order.append(Z.pop())
            if Aop:
                order.append(Aop.pop())
        half = (len(order) + 1) // 2
        for part, sub in enumerate((order[:half], order[half:])):          # two programs (size of the case files)
            copy_at = set(r.sample(range(len(sub)), 2))
            creads = None
            steps = head + pre + list(reads)
            for q, (name, m) in enumerate(sub):
                ctx.count('history: in-place operation ' + name.split(':')[0])
                ctx.count('history: carrier type ' + kind)
                if q in copy_at:      # a copy taken before the operation must not follow it (nor share anything cached)
                    steps.append({'op': 'un', 'k': 'copy', 'dst': CPY, 'src': T})
                    creads = creads or read_block(g, CPY, R, C, full=False)
                    steps += creads
                steps.append(m)
                steps += reads
                if q in copy_at:
                    steps += creads
            progs.append((f'history:{rep}:{kind}:{R}x{C}:chain{part}', steps))
        # ---- two consecutive operations of any kind
        Z, Aop = mutations(g, R, C)
        allm = Z + Aop
        reads = read_block(g, T, R, C, full=False)
        for q in range(3):
            (n1, m1), (n2, m2) = r.sample(allm, 2)
            progs.append((f'history:{rep}:{kind}:{R}x{C}:{n1} then {n2}', head + pre + reads + [m1] + reads + [m2] + reads))
    return progs


class ProgramRun:
    """runs a program on the implementation, records observations, evaluates the dense oracle"""

    def __init__(self, ctx, pym, steps=None, gen=None, depth=0, p_malformed=0.1, label='', observe_operand=False):
        self.ctx, self.pym = ctx, pym
        self.steps, self.obs, self.kinds = [], [], []
        self.label = label
        store, pool = [], []
        dstore = {}
        isdyad = lambda x: isinstance(x, pym.DyadCarrier)   # noqa
        n = len(steps) if steps is not None else depth
        for t in range(n):
            malformed = False
            if steps is not None:
                st = steps[t]
            else:
                malformed = gen.rng.random() < p_malformed
                st = gen_step(gen, store, pool, malformed)
                st['malformed'] = malformed
            malformed = st.get('malformed', False)
            self.steps.append(st)
            before = [None if D is None else snapshot(D) for D in store]
            pool_before = [x.copy() for x in pool]
            objs_before = list(store)
            res, slot = exec_step(st, store, pym)
            # ---- observation for Coq
            state = dense = 'None'
            oslot = slot
            if oslot is None and observe_operand and st.get('a') is not None and not malformed:
                oslot = st['a']       # a pure read: the state of the carrier that was read is observed after the call
            if oslot is not None and oslot < len(store) and store[oslot] is not None:
                state = f'(Some {carrier_lit(store[oslot])})'
                try:
                    if slot is not None:      # (after a pure read only the stored data are observed; todense is in the block)
                        dense = f'(Some ({mlit(store[oslot].todense())}))'
                except Exception as e:   # noqa
                    self.bad('DyadCarrier.todense', 'dense refinement', 'todense() of a result raised', t,
                             expected='a matrix', got=f'{type(e).__name__}: {e}'[:300])
                    self.broken = True
            isbatch = st['op'] == 'contract' and not isinstance(res, Exception) and np.ndim(res) >= 1
            rl = out_lit(res, isdyad, isbatch) if st['op'] not in INPLACE or isinstance(res, Exception) else '(Ok ONone)'
            self.obs.append(f'mkobs {op_lit(st)} {rl} {oslot if oslot is not None else 0} {state} {dense}')
            kind = st['op'] + (':' + st['k'] if 'k' in st and isinstance(st['k'], str) else '')
            self.kinds.append(kind)
            ctx.count('op:' + kind)
            src = st.get('a', st.get('src', st.get('tgt')))
            if src is not None and src < len(objs_before) and objs_before[src] is not None:
                nd = before[src][0].__len__()
                ctx.count('operand carrier dyads: ' + ('0' if nd == 0 else '1' if nd == 1 else '2-3' if nd <= 3 else '4+'))
                ctx.count('operand carrier dtype: ' + ('complex' if before[src][3].kind == 'c' else 'real'))
                sh = before[src][2]
                ctx.count('operand carrier shape: ' + ('unknown' if min(sh) < 0 else 'empty' if min(sh) == 0 else 'square' if sh[0] == sh[1] else 'rectangular'))
            if malformed:
                ctx.count('malformed steps')
            if isinstance(res, Exception):
                ctx.count('error:' + err_enum(res))
            # ---- implementation-side checks: nobody else changed, no aliasing, dense program agrees
            ctx.search_evaluations += 1
            if getattr(self, 'broken', False):
                break
            self.frame_check(st, t, store, objs_before, before, pool, pool_before, res, slot)
            self.oracle(st, t, store, dstore, res, slot, isdyad)

    # -- every object other than the in-place target is unchanged; results do not alias operands
    def frame_check(self, st, t, store, objs_before, before, pool, pool_before, res, slot):
        tgt = st.get('tgt') if st['op'] in INPLACE else None
        if slot is not None and slot < len(store) and store[slot] is not None:
            D = store[slot]
            exp = (tuple(D.shape), 0 if min(D.shape) < 0 else D.shape[0] * D.shape[1], len(D.u), len(D.v))
            got = ((D.ulen, D.vlen), D.size, D.n_dyads, D.n_dyads)
            if exp != got:
                self.bad('DyadCarrier.shape/size/n_dyads', 'shape, size and n_dyads describe the stored data', st['op'], t,
                         expected=list(exp), got=list(got))
        for k, D in enumerate(store):        # shape / size / n_dyads / iscomplex of EVERY live carrier follow its stored data
            if D is None:
                continue
            try:
                got = (tuple(D.shape), D.size, D.n_dyads, bool(D.iscomplex()))
            except Exception as e:   # noqa
                got = f'{type(e).__name__}: {e}'[:200]
            exp = ((D.ulen, D.vlen), 0 if min(D.ulen, D.vlen) < 0 else D.ulen * D.vlen, len(D.u), D.dtype.kind == 'c')
            if got != exp or len(D.u) != len(D.v):
                self.bad('DyadCarrier.shape/size/n_dyads', 'shape, size, n_dyads and iscomplex describe the stored data',
                         'after ' + st['op'], t, expected=list(exp), got=got if isinstance(got, str) else list(got))
        for k, (D, snap) in enumerate(zip(objs_before, before)):
            if D is None or k == tgt:
                continue
            if not same_snapshot(snap, snapshot(D)):
                self.bad('DyadCarrier.' + st['op'], 'no operation changes an operand other than an in-place target',
                         'operand carrier changed', t, expected='unchanged', got=f'slot {k} changed')
        for x, xb in zip(pool, pool_before):
            if not np.array_equal(x, xb):
                self.bad('DyadCarrier.' + st['op'], 'no operation changes an operand other than an in-place target',
                         'dense operand changed', t, expected='unchanged', got='dense operand changed')
        if isinstance(res, self.pym.DyadCarrier) and st['op'] not in INPLACE:
            mine = res.u + res.v
            for k, D in enumerate(objs_before):
                if D is None:
                    continue
                if D is res or any(np.shares_memory(x, y) for x in mine for y in D.u + D.v):
                    self.bad('DyadCarrier.' + st['op'], 'results are deep copies', 'result shares memory with an operand', t,
                             expected='no sharing', got=f'shares with slot {k}')
            if any(np.shares_memory(x, y) for x in mine for y in pool):
                self.bad('DyadCarrier.' + st['op'], 'results are deep copies', 'result shares memory with a dense operand', t,
                         expected='no sharing', got='shares with dense operand')

    def oracle(self, st, t, store, dstore, res, slot, isdyad):
        site = 'DyadCarrier.' + {'new': '__init__', 'un': st.get('k', ''), 'bin': st.get('k', ''), 'get': '__getitem__',
                                 'set': '__setitem__'}.get(st['op'], st['op'])

        def resync():
            if slot is not None and slot < len(store) and store[slot] is not None:
                dstore[slot] = (store[slot].todense(), store[slot].shape)
        try:
            exp, eshape = dense_step(st, dstore, None, self.pym)
        except Skip:
            self.ctx.count('oracle: outside the dense domain (skipped)')
            resync()
            return
        except Restricted as rs:
            if not isinstance(res, rs.cls):
                self.bad(site, 'documented restriction raises', st['op'], t, expected=rs.cls.__name__, got=repr(res)[:200])
            resync()
            return
        if isinstance(res, Exception):
            self.bad(site, 'dense refinement', 'operation inside the dense domain raised', t, expected=np.asarray(exp).tolist(),
                     got=f'{type(res).__name__}: {res}'[:300])
            resync()
            return
        if st['op'] in INPLACE or isdyad(res):
            D = store[slot]
            got = D.todense()
            ok = got.shape == exp.shape and np.array_equal(got, exp)
            if eshape is not None and tuple(D.shape) != tuple(eshape):
                ok = False
            if D.iscomplex() and not np.iscomplexobj(exp):
                ok = False
            if not ok:
                self.bad(site, 'dense refinement', st['op'] + ' result', t,
                         expected=dict(dense=np.asarray(exp).tolist(), shape=eshape, complex=bool(np.iscomplexobj(exp))),
                         got=dict(dense=got.tolist(), shape=list(D.shape), complex=bool(D.iscomplex())))
                resync()
            else:
                dstore[slot] = (exp, tuple(D.shape) if eshape is None else tuple(eshape))
        else:
            got = np.asarray(res)
            exp = np.asarray(exp)
            ok = got.shape == exp.shape and np.array_equal(got, exp) and (not np.iscomplexobj(got) or np.iscomplexobj(exp))
            if not ok:
                self.bad(site, 'dense refinement', st['op'] + ' value', t,
                         expected=dict(value=exp.tolist(), complex=bool(np.iscomplexobj(exp))),
                         got=dict(value=got.tolist(), complex=bool(np.iscomplexobj(got))))

    def case(self, t=None):
        steps = self.steps
        if t is not None and self.label.startswith('history'):
            steps = steps[:t + 1]            # the replay of a long history stops at the failing step
        return dict(label=self.label, failing_step=t, program=steps)

    def bad(self, site, pred, cls, t, expected=None, got=None):
        self.ctx.violation('impl-violates', site, pred, cls, self.case(t), expected=_js(expected), got=_js(got))

    def coq_check(self):
        return 'check_prog [] [' + ';\n    '.join(self.obs) + ']'


def _js(x):
    return json.loads(json.dumps(x, default=str))


# ============================================================================ the check
def run(ctx):
    import pymoto as pym
    ctx.rule = ('random programs of 3..12 public DyadCarrier operations over a store of <= 4 carriers and a pool of <= 3 dense '
                'operands (Gaussian-integer data, exact comparison); generation looks at the current shapes so ~90% of the '
                'steps are valid and ~10% malformed (wrong shapes, out-of-range indices, nonzero assignments: error class '
                'compared); one case = one program, compared step by step (result, stored vectors and dtypes of the '
                'bound/mutated carrier, shape, dtype, todense); non-trivial = at least 3 steps of which one acts on a '
                'carrier with >= 1 dyad; distinct by the full program text. Plus, on every seed, read / mutate / read histories on ONE '
                'object: per carrier type (real, complex, complex u / real v, real u / complex v, real and complex dyads, one dyad, '
                'no dyads with known shape, no dyads with unknown shape) two chains READS m1 READS m2 ... where READS is the '
                'same block of every read operation with the same operands (todense/toarray, diagonal k=0,1,-1, contract in all 12 '
                'calling patterns, contract_multi with coo/csr/csc/None/dense entries, dot/@ from both sides with vectors and matrices, '
                '11 index forms, copy/+/-/T/transpose/conj/real/imag, scalar products, + - with carriers, dense arrays and 0) and '
                'm1, m2, ... run through every in-place operation (zeroing rows/columns by int, negative int, slice, stepped slice, '
                'index array, empty index array, everything; += and -= of real and complex carriers; add_dyad with vectors, lists '
                'with factor, blocks, zero vectors, symmetric form) and re-bindings (d = d * 2, -d, d.copy(), d.conj()), alternating '
                'zeroing and adding in a seeded order; copies taken before an operation are read after it; 3 short programs per '
                'type with two consecutive operations; after every pure read the stored vectors, dtypes, shape and iscomplex of the '
                'carrier that was read are compared with the model as well')
    ctx.assumptions += [
        'excluded from generation (documented): A += A on the same object (does not terminate), element-wise multiplication '
        'by arrays, min()/max() (documented approximations), add_dyad with a complex fac (documented float), '
        'subscripts that are Python lists / boolean masks / non-tuples, assignment of 0j or of arrays, batched contraction '
        'with a sparse matrix, einsum broadcasting of length-1 axes in non-conforming batched contractions',
        'data are integer-valued float64/complex128 arrays with |entry| kept below 2^53, so every float operation is exact',
    ]
    ctx.trusted += ['Print Assumptions: all C15 theorems are closed under the global context (no axioms)',
                    'modelled rather than verified: numpy indexing (int / slice / integer array), broadcasting, dtype promotion, '
                    '@ and einsum on 1-d/2-d/3-d arrays (validated by the correspondence)']
    vlib.audit(ctx)
    if not vlib.ensure_static(ctx):
        return
    vlib.check_props(ctx)

    runs, stress = [], []
    if getattr(ctx, 'replay', None):
        # ---- replay of a single recorded program (exactly the recorded steps, on the current tree)
        with open(ctx.replay if os.path.isabs(ctx.replay) else os.path.join(vlib.ROOT, ctx.replay)) as f:
            rp = json.load(f)
        runs = [ProgramRun(ctx, pym, steps=rp['case']['program'], label=rp['case'].get('label', 'replay'),
                           observe_operand=str(rp['case'].get('label', '')).startswith('history'))]
    else:
        # ---- corpus first
        for path in sorted(glob.glob(os.path.join(vlib.ROOT, 'corpus', 'C15', '*.json'))):
            with open(path) as f:
                doc = json.load(f)
            for k, prog in enumerate(doc['programs']):
                runs.append(ProgramRun(ctx, pym, steps=prog['steps'], label=f'corpus:{os.path.basename(path)}:{prog.get("name", k)}'))
                ctx.count('corpus programs')
        nprog = 700 if ctx.quick() else 6000
        g = Gen(ctx.rng, pym)
        for k in range(nprog):
            depth = ctx.rng.randint(3, 12)
            runs.append(ProgramRun(ctx, pym, gen=g, depth=depth, p_malformed=0.1, label=f'random:{k}'))
        # ---- read / mutate / read histories on one object (every seed; thorough: three independent draws)
        for rep in range(1 if ctx.quick() else 3):
            for label, steps in stress_programs(ctx, g, rep):
                stress.append(ProgramRun(ctx, pym, steps=copy.deepcopy(steps), label=label, observe_operand=True))
                ctx.count('history programs')
    checks, labels = [], []
    for pr in runs:
        text = pr.coq_check()
        nontrivial = len(pr.steps) >= 3
        ctx.case(text, nontrivial, sample=dict(label=pr.label, steps=pr.kinds))
        ctx.count(f'depth {len(pr.steps)}')
        checks.append(text)
        labels.append(pr)
    failing, err = vlib.run_cases(ctx, 'dyad', HEADER, checks, chunk=30)
    if stress:
        schecks = []
        for pr in stress:
            text = pr.coq_check()
            ctx.case(text, True, sample=dict(label=pr.label, steps=len(pr.kinds)))
            ctx.count('history program steps', len(pr.steps))
            schecks.append(text)
        sfail, serr = vlib.run_cases(ctx, 'history', HEADER, schecks, chunk=1)
        failing += [len(checks) + k for k in sfail]
        labels += stress
        err = '\n'.join(x for x in (err, serr) if x)
    ctx.obligation('correspondence:case files evaluated', 'correspondence', not err, err)
    if err:
        ctx.violation('correspondence', 'DyadCarrier', 'case files compile', 'harness', dict(error=err[-3000:]), theorem='cases_dyad')
    nhist = 0
    for idx in failing[:20]:
        pr = labels[idx]
        if pr.label.startswith('history'):      # (long programs: the per-step diagnosis is made for the first three only)
            nhist += 1
            if nhist > 3:
                ctx.violation('correspondence', 'DyadCarrier', 'model == implementation', 'program', dict(label=pr.label),
                              note='Coq model (Model/Dyad.v) and implementation differ on this program; ' + pr.label)
                continue
        # which step differs, and what the model computes there (small second Coq run, only for failing cases)
        obs = '[' + ';\n    '.join(pr.obs) + ']'
        vals, _ = vlib.eval_coq(ctx, f'fail_{idx}', HEADER, [f'check_trace [] {obs}'])
        step, model = None, None
        if vals:
            verdicts = vals[0].replace('[', '').replace(']', '').replace(' ', '').split(';')
            if 'false' in verdicts:
                step = verdicts.index('false')
                one = '[' + ';\n    '.join(pr.obs[:step + 1]) + ']'
                mv, _ = vlib.eval_coq(ctx, f'model_{idx}', HEADER, [f'nth {step} (model_trace [] {one}) (Er OtherE, None)'])
                model = mv[0][:3000] if mv else None
        ctx.violation('correspondence', 'DyadCarrier', 'model == implementation',
                      pr.kinds[step] if step is not None else 'program', pr.case(step),
                      expected=dict(model=model), got=dict(implementation=pr.obs[step][:3000] if step is not None else None),
                      note='Coq model (Model/Dyad.v) and implementation differ on this program; ' + pr.label)


if __name__ == '__main__':
    vlib.main(run, 'C15')
