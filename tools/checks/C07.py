"""C07 — linear-system modules satisfy their defining equations."""
import os, json, warnings, itertools
from fractions import Fraction
import numpy as np
import scipy.sparse as sps
import vlib
import py2coq
import gen_C07
import linsys_common as lc
from linsys_common import CQ, cq_matrix, cq_op, cq_solve, cq_mul, cq_sub, cq_inverse, coq_cmat, coq_check_solve, scale_of

HEADER = lc.CQ_HEADER.replace('Base.CQMat.', 'Base.CQMat Model.LinModsExec Model.LinDtype.')
TOL = 1e-9
REL = Fraction(1, 10 ** 9)

# every storage a matrix signal can arrive in: dense ndarray and every scipy.sparse format (matrix and array flavour)
STORES = {'dense': lambda A: np.array(A, order='C', copy=True), 'dense_F': lambda A: np.array(A, order='F', copy=True), 'csc': sps.csc_matrix, 'csr': sps.csr_matrix, 'coo': sps.coo_matrix, 'lil': sps.lil_matrix,
          'dok': sps.dok_matrix, 'bsr': sps.bsr_matrix, 'dia': sps.dia_matrix, 'csc_array': sps.csc_array,
          'csr_array': sps.csr_array, 'coo_array': sps.coo_array, 'lil_array': sps.lil_array, 'dok_array': sps.dok_array,
          'bsr_array': sps.bsr_array, 'dia_array': sps.dia_array}
CORE = ('dense', 'csc', 'csr')
DENSE = ('dense', 'dense_F')
# formats every module answers for on the pinned tree (the others raise a loud format error in scipy / the module):
# a format listed here must be answered; a format not listed must be answered CORRECTLY or refused with an exception
ACCEPTED = {
    'LinSolve': set(STORES) - {'dok', 'dok_array'},
    'SystemOfEquations': {'dense', 'dense_F', 'csc', 'csr', 'lil', 'csc_array', 'csr_array', 'coo_array', 'lil_array'},
    'StaticCondensation': {'dense', 'dense_F', 'csc', 'csr', 'lil', 'dok', 'csc_array', 'csr_array', 'coo_array', 'lil_array', 'dok_array'},
    'Inverse': {'dense', 'dense_F'},
}
NPDT = {'bool': np.bool_, 'int': np.int64, 'real': np.float64, 'complex': np.complex128}


def nl(idx):
    return '[' + '; '.join(str(int(i)) for i in idx) + ']%nat'


def dcode(dt):
    """dtype code of Model/LinDtype.v: 0 bool, 1 integer, 2 float64, 3 complex128, 9 anything else"""
    dt = np.dtype(dt)
    if dt.kind == 'b':
        return 0
    if dt.kind in 'iu':
        return 1
    if dt == np.float64:
        return 2
    if dt == np.complex128:
        return 3
    return 9


def dkind(a):
    return {0: 'bool', 1: 'int', 2: 'real', 3: 'complex'}.get(dcode(a.dtype), 'other')


def close(a, b):
    a, b = np.asarray(a), np.asarray(b)
    if a.shape != b.shape:
        return False
    s = max(1.0, float(np.max(np.abs(b))) if b.size else 1.0)
    return bool(np.all(np.abs(a - b) <= TOL * s)) if a.size else True


def translate(ctx):
    err = ''
    try:
        p = ctx.write_gen('LinModsGen.v', gen_C07.gen_linmods(vlib.REPO))
        ok, _, err = vlib.compile_file(ctx, p, 'gen:LinModsGen.v (pymoto/modules/linalg.py _response terms) translates and compiles', 'translator')
    except py2coq.Unsupported as e:
        ok, err = False, str(e)
        ctx.obligation('gen:LinModsGen.v (pymoto/modules/linalg.py _response terms) translates and compiles', 'translator', False, err)
    if ok:
        ok, _, err = vlib.compile_file(ctx, os.path.join(ctx.bridge_dir, 'LinModsBridge.v'),
                                       'bridge:LinModsBridge (generated = model, all arguments)', 'bridge')
    if not ok:
        ctx.violation('proof', 'pymoto/modules/linalg.py', 'generated _response terms equal Model/LinMods.v', 'translator/bridge',
                      dict(error=err[-3000:]), theorem='BridgeC07.LinModsBridge')
    # dtype reading of the same methods: buffer dtypes, dtypes of the stored values, dtypes handed to the inner LinSolve
    try:
        p = ctx.write_gen('LinDtypeGen.v', gen_C07.gen_lindtype(vlib.REPO))
        ok2, _, err = vlib.compile_file(ctx, p, 'gen:LinDtypeGen.v (pymoto/modules/linalg.py buffer / store dtypes) translates and compiles', 'translator')
    except py2coq.Unsupported as e:
        ok2, err = False, str(e)
        ctx.obligation('gen:LinDtypeGen.v (pymoto/modules/linalg.py buffer / store dtypes) translates and compiles', 'translator', False, err)
    if ok2:
        ok2, _, err = vlib.compile_file(ctx, os.path.join(ctx.bridge_dir, 'LinDtypeBridge.v'),
                                        'bridge:LinDtypeBridge (generated dtypes = model, stores lossless, all dtypes)', 'bridge')
    if not ok2:
        ctx.violation('proof', 'pymoto/modules/linalg.py', 'generated buffer / store dtypes equal Model/LinDtype.v and every store is lossless',
                      'translator/bridge', dict(error=err[-3000:]), theorem='BridgeC07.LinDtypeBridge')
    return ok and ok2


def store(A, kind):
    return STORES[kind](A)


def as_col(v):
    v = np.asarray(v)
    return v.reshape(v.shape[0], 1) if v.ndim == 1 else v


def run(ctx):
    warnings.simplefilter('ignore')
    import pymoto as pym
    pym.core_objects.get_init_str = lambda: 'File "verif", line 0, in harness'   # diagnostics only (slow inspect.stack)
    S = pym.solvers
    ctx.rule = ('integer / Gaussian-integer matrices of every class (see C05) n <= 7, dense/csc/csr, plus integer FE matrices from the '
                'real pym.AssembleGeneral with Dirichlet bc (decoupled rows/columns); LinSolve x solver overrides x rhs shapes x rhs dtypes '
                '(int64/float64/complex128 drawn independently of the matrix dtype), two consecutive responses; Inverse; SystemOfEquations: '
                'EVERY partition free/prescribed for n <= 4 (both index-argument styles), random partitions n <= 7, dtypes of loads and '
                'prescribed values drawn independently; StaticCondensation: EVERY assignment main/free/rest for n <= 4 (n <= 3 quick). '
                'DTYPE/FORMAT STRESS (deterministic, every seed): 5 fixed 4x4 matrices (real non-symmetric, real symmetric, complex '
                'Hermitian, complex symmetric, complex general) x matrix dtype (int64/float64/complex128) x FULL cross product of operand '
                'dtypes (SystemOfEquations: loads x prescribed values in {int64,float64,complex128}^2; LinSolve rhs in '
                '{bool,int64,float64,complex128}) x vector/block x dense/csc/csr, and real/complex operands on all 12 other scipy.sparse '
                'formats; Inverse and StaticCondensation on all 15 storages; output dtypes compared with Model/LinDtype.v inside Coq. '
                'Non-trivial: n >= 2; distinct by (module, class, n, storage, partition, rhs kind, dtypes, values).')
    ctx.assumptions += ['theorems are over exact arithmetic in an arbitrary star ring; accuracy of LAPACK/SuperLU validated at 1e-9 against '
                        'the exact rational result checked inside Coq, not proved',
                        'the solver object inside LinSolve (auto_determine_solver + LDAWrapper, or the override) enters the theorems through '
                        'its C05/C06 contract (solver_ok / ff_solver_ok) and its dtype contract sol_ok (answer has np.result_type(matrix, rhs, float)), '
                        'both validated here on every case',
                        'dtypes: bool < int64 < float64 < complex128; single precision is outside (the 1e-9 accuracy cannot hold there)',
                        'LinSolve with a real sparse matrix and complex right-hand side raises its documented TypeError (malformed stream); '
                        'SystemOfEquations inherits it for complex loads / prescribed values',
                        'storage formats a module refuses with an exception on the pinned tree (see ACCEPTED in tools/checks/C07.py) may be refused '
                        'or answered correctly, never answered wrongly',
                        'matrix-class changes between consecutive responses of one module (cached flags) belong to C03/C06 and are not generated']
    ctx.trusted += ['Print Assumptions: all C07 theorems are closed under the global context (mathcomp, no axioms)',
                    'tools/gen_C07.py (T-alg with selectors, fail-closed): A[f,:][:,p] = D_f A D_p, scatter into zero arrays = embedded sum; '
                    '(T-dtype) np.result_type = least upper bound in bool < int64 < float64 < complex128, @/+/- promote, slicing keeps the dtype',
                    'exact rational reference results are computed in Python (fractions) and CHECKED inside Coq against the block equations']
    vlib.audit(ctx)
    if not vlib.ensure_static(ctx, ['theories/Props/C07.vo', 'theories/Base/CQMat.vo', 'theories/Model/LinModsExec.vo',
                                    'theories/Model/LinDtype.vo', 'theories/Proofs/LinDtypeP.vo']):
        return
    translate(ctx)
    vlib.check_props(ctx)

    rng = ctx.rng
    checks, labels, reported = [], [], set()

    def add(label, chk, nontrivial=True):
        checks.append(chk)
        labels.append(label)
        ctx.case(tuple(str(v) for v in label[:-1]), nontrivial, sample=dict(case=str(label[:-1]), coq=chk[:300]))

    def impl_fail(call_site, pred, cls, case, expected=None, got=None, A=None, stor=None):
        reported.add(len(checks) - 1)
        ctx.violation('impl-violates', call_site, pred, cls, case, expected=expected, got=got)

    def cast(v, kind):
        """integer-valued array -> the requested dtype (bool: parity pattern, never all False)"""
        v = np.asarray(v)
        if kind == 'bool':
            w = (np.abs(np.real(v)).astype(np.int64) % 2).astype(bool)
            if not w.any():
                w.flat[0] = True
            return w
        if kind == 'int':
            return np.real(v).astype(np.int64)
        return v.astype(NPDT[kind])

    def dlabel(*arrs):
        return '/'.join(dkind(a) for a in arrs)

    # ------------------------------------------------------------------ matrices
    mats, stress = [], []
    for c in load_corpus():
        A = np.array([[complex(*v) if isinstance(v, list) else v for v in row] for row in c['A']])
        A = A.astype(complex) if c.get('complex') else A.real.astype(float)
        mats.append((c.get('class', 'general'), A, c['name'], c))
        if c.get('stress'):
            stress.append((c.get('class', 'general'), A, c['name']))
    nmat = 50 if ctx.quick() else 300
    k = 0
    while len(mats) < nmat:
        cplx = k % 3 == 2
        clss = lc.CLASSES_CPLX if cplx else lc.CLASSES_REAL
        cls = clss[k % len(clss)]
        n = rng.randint(1, 7)
        if cls in ('zerodiag', 'hzerodiag'):
            n = max(2, n + n % 2 if n < 7 else 6)
        if cls in ('indef', 'hindef', 'general', 'permuted', 'csym', 'lower', 'upper') and n < 2:
            n = 2
        k += 1
        mats.append((cls, lc.gen_matrix(rng, cls, n, cplx), f'gen{k}', None))
    # FE matrices with Dirichlet conditions from the real assembly modules (integer element matrix, integer scaling)
    fe = []
    for (nx, ny), bcn in (((1, 1), [0]), ((2, 1), [0, 3]), ((1, 2), [1]), ((2, 1), [])):
        dom = pym.DomainDefinition(nx, ny)
        B = np.array([[rng.randint(-2, 2) for _ in range(4)] for _ in range(4)])
        el = (B @ B.T + 3 * np.eye(4)).astype(float)                       # SPD integer element matrix
        sx = pym.Signal('x', np.array([float(rng.randint(1, 3)) for _ in range(dom.nel)]))
        m = pym.AssembleGeneral(sx, domain=dom, element_matrix=el, bc=np.array(bcn, dtype=int) if bcn else None, bcdiagval=float(rng.randint(1, 4)))
        m.response()
        K = m.sig_out[0].state
        fe.append(('fe_bc', K, f'AssembleGeneral{nx}x{ny}bc{bcn}'))
    dom = pym.DomainDefinition(1, 1)
    m = pym.AssemblePoisson(pym.Signal('x', np.array([2.0])), domain=dom, bc=np.array([0, 2]))
    m.response()
    fe.append(('fe_poisson', m.sig_out[0].state, 'AssemblePoisson1x1'))      # entries k/6: dyadic-free rationals, toleranced

    # ------------------------------------------------------------------ malformed stream (exception class only)
    err_checks, err_labels = [], []

    def expect(label, fn, want):
        try:
            fn()
            got = 'none'
        except Exception as e:
            got = lc.exc_enum(e)
        err_checks.append(vlib.blit(got in want))
        err_labels.append(dict(case=label, got=got, expected=want))
        ctx.case(('malformed', label), True)
        ctx.count('malformed')

    def refused(module, stor, e):
        """a storage format outside ACCEPTED[module] refused with an exception: allowed"""
        ctx.count(f'{module}:format {stor} refused ({lc.exc_enum(e)})')

    # ------------------------------------------------------------------ LinSolve
    def ls_run(cls, A, name, Astored, stor, ol, okw, b, bk, second=None):
        """one LinSolve module on (Astored, b); second = (A2, A2stored, b2, description) for a second response"""
        n = A.shape[0]
        adt, bdt = dkind(A), dkind(b)
        sA, sb = pym.Signal('A', Astored), pym.Signal('b', b.copy())
        replay = dict(module='LinSolve', override=ol, storage=stor, cls=cls, A=A.tolist().__repr__(), b=b.tolist().__repr__(),
                      dtypes=dict(A=str(A.dtype), b=str(b.dtype)))
        ctx.count('LinSolve:' + ol)
        ctx.count('LinSolve:storage:' + stor)
        ctx.count(f'rhs:{bk}:{bdt}')
        ctx.count(f'LinSolve:dtypes A/b:{adt}/{bdt}')
        try:
            mod = pym.LinSolve([sA, sb], **okw())
            mod.response()
            x = mod.sig_out[0].state
        except Exception as e:
            ctx.evaluations += 1
            if stor not in ACCEPTED['LinSolve']:
                return refused('LinSolve', stor, e)
            ctx.violation('impl-violates', 'LinSolve._response', 'response raises for a non-singular matrix', f'{cls} matrix {stor}', dict(replay, error=repr(e)))
            return
        if not (np.array_equal(sA.state.toarray() if sps.issparse(sA.state) else np.asarray(sA.state), A) and np.array_equal(sb.state, b)):
            ctx.evaluations += 1
            ctx.violation('impl-violates', 'LinSolve._response', 'input signals untouched', f'{cls} matrix {stor}', replay)
            return
        A_exact = cq_matrix(A)
        B = cq_matrix(b)
        X = cq_solve(A_exact, B)
        shape_ok = np.shape(x) == b.shape
        tolq = REL * (10 ** 3 if ol == 'CG' else 1)
        xd = np.asarray(x).dtype
        add(('LinSolve', ol, cls, n, stor, bk, adt, bdt, name, replay),
            (coq_check_solve(A_exact, 'N', X, B, x, tolq) if shape_ok else 'false') + f' && {vlib.blit(shape_ok)}'
            f' && check_linsolve_dtype {dcode(A.dtype)} {dcode(b.dtype)} {dcode(xd)}', n >= 2)
        ctx.oracle_validation['LinSolve answers with np.result_type(matrix, rhs, float)'] = \
            ctx.oracle_validation.get('LinSolve answers with np.result_type(matrix, rhs, float)', 0) + 1
        ctx.search_evaluations += 1
        Af = A.astype(np.result_type(A.dtype, float))
        if not (shape_ok and close(Af @ as_col(x), as_col(b)) if ol != 'CG' else shape_ok):
            impl_fail('LinSolve._response', 'A x = b', f'{cls} matrix {stor}', replay, got=np.asarray(x).tolist().__repr__()[:1500], A=A, stor=stor)
        elif xd != np.result_type(A.dtype, b.dtype, float):
            impl_fail('LinSolve._response', 'x has the result type of matrix, right-hand side and float', f'{adt} matrix {stor}, {bdt} rhs', replay,
                      expected=str(np.result_type(A.dtype, b.dtype, float)), got=str(xd))
        if second is None:
            return
        # a second response of the same module: new values, same class (solver object and previous solution reused)
        A2, A2stored, b2, desc = second
        sA.state = A2stored
        sb.state = b2.copy()
        replay2 = dict(replay, second=dict(A=desc, b=b2.tolist().__repr__(), b_dtype=str(b2.dtype)))
        ctx.count('LinSolve:second response')
        ctx.count(f'LinSolve:second response dtypes:{bdt}->{dkind(b2)}')
        try:
            mod.response()
            x2 = mod.sig_out[0].state
        except Exception as e:
            ctx.evaluations += 1
            ctx.violation('impl-violates', 'LinSolve._response', 'second response raises', f'{cls} matrix {stor}', dict(replay2, error=repr(e)))
            return
        A2e = cq_matrix(A2)
        B2 = cq_matrix(b2)
        X2 = cq_solve(A2e, B2)
        ok2 = np.shape(x2) == b2.shape
        x2d = np.asarray(x2).dtype
        add(('LinSolve2', ol, cls, n, stor, adt, bdt, dkind(b2), name, replay2),
            (coq_check_solve(A2e, 'N', X2, B2, x2) if ok2 else 'false') + f' && check_linsolve_dtype {dcode(A2.dtype)} {dcode(b2.dtype)} {dcode(x2d)}', n >= 2)
        ctx.search_evaluations += 1
        if not (ok2 and close(A2 @ as_col(x2), as_col(b2))):
            impl_fail('LinSolve._response', 'A x = b (second response)', f'{cls} matrix {stor}', replay2, A=A, stor=stor)
        elif x2d != np.result_type(A2.dtype, b2.dtype, float):
            impl_fail('LinSolve._response', 'x has the result type of matrix, right-hand side and float (second response)',
                      f'{adt} matrix {stor}, {dkind(b2)} rhs after {bdt} rhs', replay2, expected=str(np.result_type(A2.dtype, b2.dtype, float)), got=str(x2d))

    def rhs_kind(cplxA, sparse):
        """dtype of a right-hand side, drawn independently of the matrix dtype (real sparse + complex rhs is the documented TypeError)"""
        if cplxA:
            return rng.choice(['complex', 'complex', 'real', 'int'])
        if sparse:
            return rng.choice(['real', 'real', 'int'])
        return rng.choice(['real', 'real', 'real', 'int', 'complex', 'complex'])

    def linsolve_cases(cls, A, name, Astored, stor):
        n = A.shape[0]
        cplx = np.iscomplexobj(A)
        sparse = stor not in DENSE
        overrides = [('auto', lambda: {})]
        if sparse:
            overrides += [('SolverSparseLU', lambda: dict(solver=S.SolverSparseLU())),
                          ('LDAWrapper(SolverSparseLU)', lambda: dict(solver=S.LDAWrapper(S.SolverSparseLU())))]
            if cls in ('spd', 'hpd', 'fe_bc', 'fe_poisson'):
                overrides.append(('CG', lambda: dict(solver=S.CG(preconditioner=S.DampedJacobi(), tol=1e-13))))
        else:
            overrides += [('SolverDenseLU', lambda: dict(solver=S.SolverDenseLU())), ('SolverDenseQR', lambda: dict(solver=S.SolverDenseQR()))]
            if cls in lc.HERMITIAN:
                overrides += [('SolverDenseLDL', lambda: dict(solver=S.SolverDenseLDL())), ('hermitian=True', lambda: dict(hermitian=True))]
                if not cplx:
                    overrides.append(('symmetric=True', lambda: dict(symmetric=True)))
            else:
                overrides.append(('hermitian=False', lambda: dict(hermitian=False)))
        for ol, okw in (overrides if ctx.quick() is False or n <= 4 else [overrides[0], rng.choice(overrides[1:])]):
            bk = rng.choice(['vec', 'col', 'blk', 'dup', 'wide', 'zero'] if ol != 'CG' else ['vec', 'col', 'blk'])
            bd = rhs_kind(cplx, sparse)
            b = lc.gen_rhs(rng, n, bk, bd == 'complex')
            b = cast(b, bd)
            second = None
            if rng.random() < 0.5 and ol != 'CG':
                fem = cls in ('fe_bc', 'fe_poisson')
                A2 = A * 3 if fem else A * 2
                bd2 = rhs_kind(cplx, sparse)
                b2 = cast(lc.gen_rhs(rng, n, rng.choice(['vec', 'blk']), bd2 == 'complex'), bd2)
                second = (A2, (Astored * 3) if fem else store(A2, stor), b2, '3*A' if fem else '2*A')
            ls_run(cls, A, name, Astored, stor, ol, okw, b, bk, second)

    for (cls, A, name, corp) in mats:
        ctx.count(f'class:{cls}')
        ctx.count(f'n:{A.shape[0]}')
        for stor in ('dense', rng.choice(['csc', 'csr'])):
            linsolve_cases(cls, A, name, store(A, stor), stor)
    for (cls, K, name) in fe:
        A = K.toarray()
        ctx.count(f'class:{cls}')
        linsolve_cases(cls, A, name, K, 'csc')
        linsolve_cases(cls, A, name, A.copy(), 'dense')
    # corpus: F04 witness through LinSolve (dense and sparse), exact expectation x = [1/3, 1/3]
    # (it is part of mats via corpus/C07; nothing else to do)

    # ------------------------------------------------------------------ Inverse
    def inv_case(cls, A, name, stor='dense'):
        n = A.shape[0]
        Ae = cq_matrix(A)
        replay = dict(module='Inverse', cls=cls, storage=stor, A=A.tolist().__repr__(), dtype=str(A.dtype))
        ctx.count('Inverse')
        ctx.count(f'Inverse:{stor}:{dkind(A)}')
        try:
            mod = pym.Inverse([pym.Signal('A', store(A.copy(), stor))])
            mod.response()
            Bi = mod.sig_out[0].state
            Bi = Bi.toarray() if sps.issparse(Bi) else np.asarray(Bi)
        except Exception as e:
            ctx.evaluations += 1
            if stor not in ACCEPTED['Inverse']:
                return refused('Inverse', stor, e)
            ctx.violation('impl-violates', 'Inverse._response', 'response raises for a non-singular matrix', f'{cls} matrix', dict(replay, error=repr(e)))
            return
        Bx = cq_inverse(Ae)
        ok = np.shape(Bi) == A.shape
        add(('Inverse', cls, n, stor, dkind(A), name, replay),
            f'check_inv {coq_cmat(Ae)} {coq_cmat(Bx)} {coq_cmat(cq_matrix(Bi)) if ok else "[]"} {vlib.qlit(REL * scale_of(Bx))}'
            f' && check_inv_dtype {dcode(A.dtype)} {dcode(Bi.dtype)}', n >= 2)
        ctx.search_evaluations += 1
        if not (ok and close(A.astype(np.result_type(A.dtype, float)) @ Bi, np.eye(n))):
            impl_fail('Inverse._response', 'A B = I', f'{cls} matrix', replay)
        elif Bi.dtype != np.result_type(A.dtype, float):
            impl_fail('Inverse._response', 'B has the result type of the matrix and float', f'{dkind(A)} matrix {stor}', replay,
                      expected=str(np.result_type(A.dtype, float)), got=str(Bi.dtype))

    for (cls, A, name, corp) in mats:
        inv_case(cls, A, name)

    # ------------------------------------------------------------------ SystemOfEquations
    def soe_case(cls, A, name, f, p, stor, bk, dts, style, stress_case=False):
        """dts = (dtype kind of the loads bf, dtype kind of the prescribed values xp), each in int / real / complex"""
        n = A.shape[0]
        Ae = cq_matrix(A)
        kcols = {'vec': 1, 'blk': 3}[bk]

        def vals(m, kind):
            cplx = kind == 'complex'
            v = np.array([[complex(rng.randint(-4, 4), rng.randint(-4, 4) or 1) if cplx else rng.randint(-4, 4) for _ in range(kcols)] for _ in range(m)])
            v = cast(v.reshape(m, kcols), kind)
            return v[:, 0].copy() if bk == 'vec' else v
        bf, xp = vals(len(f), dts[0]), vals(len(p), dts[1])
        cplx = 'complex' in dts
        adt = dkind(A)
        kw = dict(free=np.array(f, dtype=int), prescribed=np.array(p, dtype=int))
        if style == 'free-only':
            kw.pop('prescribed')
        elif style == 'prescribed-only':
            kw.pop('free')
        real_dense_cplx = (not np.iscomplexobj(A)) and cplx and stor in DENSE
        icls = 'real dense A with complex bf or xp' if real_dense_cplx else f'{cls} matrix {stor}'
        replay = dict(module='SystemOfEquations', cls=cls, storage=stor, A=A.tolist().__repr__(), free=list(map(int, f)), prescribed=list(map(int, p)),
                      style=style, bf=bf.tolist().__repr__(), xp=xp.tolist().__repr__(), dtypes=dict(A=str(A.dtype), bf=str(bf.dtype), xp=str(xp.dtype)))
        if stor not in DENSE and adt != 'complex' and cplx:
            # documented limitation of the inner LinSolve (real sparse matrix, complex right-hand side): TypeError
            if stor in ACCEPTED['SystemOfEquations']:
                def go():
                    m_ = pym.SystemOfEquations([pym.Signal('A', store(A, stor)), pym.Signal('bf', bf.copy()), pym.Signal('xp', xp.copy())], **kw)
                    m_.response()
                expect(f'SoE {adt} {stor} matrix {name}, bf {dts[0]}, xp {dts[1]}, {bk}', go, ['TypeError'])
            return
        ctx.count('SoE:' + stor)
        ctx.count('SoE:' + style)
        ctx.count(f'SoE:rhs:{bk}:{"complex" if cplx else "real"}')
        ctx.count(f'SoE:dtypes A/bf/xp:{adt}/{dts[0]}/{dts[1]}')
        ctx.count(f'SoE:|p|={len(p)}')
        sA = pym.Signal('A', store(A, stor))
        try:
            mod = pym.SystemOfEquations([sA, pym.Signal('bf', bf.copy()), pym.Signal('xp', xp.copy())], **kw)
            mod.response()
            x, b = [s.state for s in mod.sig_out]
        except Exception as e:
            ctx.evaluations += 1
            if stor not in ACCEPTED['SystemOfEquations']:
                return refused('SystemOfEquations', stor, e)
            ctx.violation('impl-violates', 'SystemOfEquations._response', 'response raises for a non-singular free block', icls, dict(replay, error=repr(e)))
            return
        # exact model output
        BF, XP = cq_matrix(bf), cq_matrix(xp)
        Aff = [[Ae[i][j] for j in f] for i in f]
        Afp = [[Ae[i][j] for j in p] for i in f]
        rhs = cq_sub(BF, cq_mul(Afp, XP)) if p else BF
        XF = cq_solve(Aff, rhs)
        X = [None] * n
        for a, i in enumerate(f):
            X[i] = XF[a]
        for a, i in enumerate(p):
            X[i] = XP[a]
        Bx = cq_mul(Ae, X)
        ok = np.shape(x) == (n,) + bf.shape[1:] and np.shape(b) == np.shape(x)
        tol = REL * max(scale_of(X), scale_of(Bx))
        xdt, bdt = np.asarray(x).dtype, np.asarray(b).dtype
        if ok:
            chk = (f'check_soe {kcols} {nl(f)} {nl(p)} {coq_cmat(Ae)} {coq_cmat(BF) if f else "[]"} {coq_cmat(XP) if p else "[]"} '
                   f'{coq_cmat(X)} {coq_cmat(Bx)} {coq_cmat(cq_matrix(x))} {coq_cmat(cq_matrix(b))} {vlib.qlit(tol)}'
                   f' && check_soe_dtype {dcode(A.dtype)} {dcode(bf.dtype)} {dcode(xp.dtype)} {dcode(xdt)} {dcode(bdt)}')
        else:
            chk = 'false'
        add(('SoE', cls, n, stor, tuple(f), tuple(p), bk, adt, dts, style, name, replay), chk, n >= 2)
        # implementation-side oracle: the property text
        ctx.search_evaluations += 1
        xs, bs = as_col(x), as_col(b)
        Af = A.astype(np.result_type(A.dtype, float))
        good = ok and close(xs[p], as_col(xp)) and close(bs[f], as_col(bf)) and close(Af @ xs, bs)
        want = np.result_type(A.dtype, bf.dtype, xp.dtype, float)
        if not good:
            impl_fail('SystemOfEquations._response', 'x[p] = xp, b[f] = bf, A x = b', icls, replay,
                      got=dict(x=np.asarray(x).tolist().__repr__()[:800], b=np.asarray(b).tolist().__repr__()[:800], x_dtype=str(xdt), b_dtype=str(bdt)),
                      A=A, stor=stor)
        elif xdt != want or bdt != want:
            impl_fail('SystemOfEquations._response', 'x and b have the result type of matrix, loads, prescribed values and float',
                      f'{adt} matrix {stor}, {dts[0]} bf, {dts[1]} xp', replay, expected=str(want), got=dict(x=str(xdt), b=str(bdt)))
        # inputs stay untouched (fix F12)
        if not np.array_equal(sA.state.toarray() if sps.issparse(sA.state) else np.asarray(sA.state), A):
            impl_fail('SystemOfEquations._response', 'input matrix signal untouched', icls, replay)

    def soe_dts(cplxA, sparse):
        """dtypes of loads and prescribed values, drawn independently of each other and of the matrix dtype"""
        kinds = ['real', 'real', 'int', 'complex', 'complex'] if (cplxA or not sparse) else ['real', 'real', 'int']
        if not cplxA and not sparse and rng.random() < 0.6:
            kinds = ['real', 'real', 'int']
        return (rng.choice(kinds), rng.choice(kinds))

    small = [(c, A, nm) for (c, A, nm, _) in mats if 2 <= A.shape[0] <= 4]
    seen_n = {}
    for (cls, A, name) in small:
        n = A.shape[0]
        seen_n[n] = seen_n.get(n, 0) + 1
        if seen_n[n] > (5 if ctx.quick() else 20):
            continue
        for mask in range(1, 2 ** n):                      # f non-empty; p may be empty
            f = [i for i in range(n) if mask >> i & 1]
            p = [i for i in range(n) if not mask >> i & 1]
            if rng.random() < 0.5:
                rng.shuffle(f)                              # index order is free
            Aff = A[np.ix_(f, f)]
            if cq_solve(cq_matrix(Aff), cq_matrix(np.zeros(len(f)))) is None:
                continue                                    # singular free block: outside the module's domain
            cplxA = np.iscomplexobj(A)
            for stor in ('dense', 'csc'):
                dts = soe_dts(cplxA, stor != 'dense')
                soe_case(cls, A, name, f, p, stor, rng.choice(['vec', 'blk']), dts,
                         rng.choice(['both', 'both', 'free-only', 'prescribed-only']) if f == sorted(f) else 'both')
                if stor == 'dense' and not cplxA and 'complex' not in dts and name.startswith('F'):
                    # witness class of fix 92bff31 (F20): real dense A with complex loads / prescribed values
                    soe_case(cls, A, name, f, p, stor, 'vec', ('complex', 'complex'), 'both')
    ctx.extra['soe_exhaustive_partitions_n_le'] = 4
    for (cls, A, name, _) in mats:
        n = A.shape[0]
        if n < 5:
            continue
        for _ in range(2):
            f = sorted(rng.sample(range(n), rng.randint(1, n - 1)))
            p = [i for i in range(n) if i not in f]
            if cq_solve(cq_matrix(A[np.ix_(f, f)]), cq_matrix(np.zeros(len(f)))) is None:
                continue
            stor = rng.choice(['dense', 'csc', 'csr'])
            soe_case(cls, A, name, f, p, stor, rng.choice(['vec', 'blk']), soe_dts(np.iscomplexobj(A), stor != 'dense'), 'both')
    for (cls, K, name) in fe:
        A = K.toarray()
        n = A.shape[0]
        f = sorted(rng.sample(range(n), n - 2))
        p = [i for i in range(n) if i not in f]
        if cq_solve(cq_matrix(A[np.ix_(f, f)]), cq_matrix(np.zeros(len(f)))) is not None:
            soe_case(cls, A, name, f, p, 'csc', 'vec', ('real', 'real'), 'both')
            soe_case(cls, A, name, f, p, 'dense', 'blk', ('real', 'int'), 'prescribed-only')

    # ------------------------------------------------------------------ StaticCondensation
    def sc_case(cls, A, name, m_, f, stor, solver_kw=None):
        n = A.shape[0]
        Ae = cq_matrix(A)
        replay = dict(module='StaticCondensation', cls=cls, storage=stor, A=A.tolist().__repr__(), main=list(map(int, m_)), free=list(map(int, f)),
                      dtype=str(A.dtype))
        ctx.count('SC:' + stor)
        ctx.count(f'SC:dtype:{dkind(A)}')
        ctx.count(f'SC:|m|={len(m_)},|f|={len(f)},rest={n - len(m_) - len(f)}')
        sA = pym.Signal('A', store(A, stor))
        try:
            mod = pym.StaticCondensation([sA], main=np.array(m_, dtype=int), free=np.array(f, dtype=int), **(solver_kw or {}))
            mod.response()
            Ar = np.asarray(mod.sig_out[0].state.toarray() if sps.issparse(mod.sig_out[0].state) else mod.sig_out[0].state)
        except Exception as e:
            ctx.evaluations += 1
            if stor not in ACCEPTED['StaticCondensation']:
                return refused('StaticCondensation', stor, e)
            ctx.violation('impl-violates', 'StaticCondensation._response', 'response raises for a non-singular free block', f'{cls} matrix {stor}', dict(replay, error=repr(e)))
            return
        Aff = [[Ae[i][j] for j in f] for i in f]
        Afm = [[Ae[i][j] for j in m_] for i in f]
        Amf = [[Ae[i][j] for j in f] for i in m_]
        Amm = [[Ae[i][j] for j in m_] for i in m_]
        X = cq_solve(Aff, Afm)
        Ared = cq_sub(Amm, cq_mul(Amf, X))
        ok = Ar.shape == (len(m_), len(m_))
        add(('SC', cls, n, stor, dkind(A), tuple(m_), tuple(f), name, replay),
            (f'check_sc {nl(m_)} {nl(f)} {coq_cmat(Ae)} {coq_cmat(X)} {coq_cmat(Ared)} {coq_cmat(cq_matrix(Ar)) if ok else "[]"} {vlib.qlit(REL * scale_of(Ared))}'
             f' && check_sc_dtype {dcode(A.dtype)} {dcode(Ar.dtype)}') if ok else 'false',
            n >= 2)
        # oracle: the condensed system reproduces the main-dof response of the full system (rest dofs fixed to zero, no load on f)
        ctx.search_evaluations += 1
        mf = list(m_) + list(f)
        Asub = A[np.ix_(mf, mf)].astype(np.result_type(A.dtype, float))
        good = ok
        if ok and cq_solve(cq_matrix(Asub), cq_matrix(np.zeros(len(mf)))) is not None:
            bm = np.array([rng.randint(-4, 4) for _ in m_], dtype=float)
            full = np.linalg.solve(Asub, np.concatenate([bm, np.zeros(len(f))]))
            good = close(Ar @ full[:len(m_)], bm.astype(Ar.dtype))
        if not good:
            impl_fail('StaticCondensation._response', 'condensed system reproduces the main-dof response', f'{cls} matrix {stor}', replay, A=A, stor=stor)
        elif Ar.dtype != np.result_type(A.dtype, float):
            impl_fail('StaticCondensation._response', 'the condensed matrix has the result type of the matrix and float', f'{dkind(A)} matrix {stor}',
                      replay, expected=str(np.result_type(A.dtype, float)), got=str(Ar.dtype))
        if not np.array_equal(sA.state.toarray() if sps.issparse(sA.state) else np.asarray(sA.state), A):
            impl_fail('StaticCondensation._response', 'input matrix signal untouched', f'{cls} matrix {stor}', replay)

    nmax_sc = 3 if ctx.quick() else 4
    seen_n = {}
    for (cls, A, name) in small:
        n = A.shape[0]
        if n > nmax_sc:
            continue
        seen_n[n] = seen_n.get(n, 0) + 1
        if seen_n[n] > (3 if ctx.quick() else 8):
            continue
        for assign in itertools.product((0, 1, 2), repeat=n):    # 0 main, 1 free, 2 rest
            m_ = [i for i in range(n) if assign[i] == 0]
            f = [i for i in range(n) if assign[i] == 1]
            if not m_ or not f:
                continue
            if cq_solve(cq_matrix(A[np.ix_(f, f)]), cq_matrix(np.zeros(len(f)))) is None:
                continue
            for stor in ('dense', 'csc'):
                sc_case(cls, A, name, m_, f, stor)
    ctx.extra['sc_exhaustive_partitions_n_le'] = nmax_sc
    for (cls, A, name, _) in mats:
        n = A.shape[0]
        if n < 4:
            continue
        idx = list(range(n))
        rng.shuffle(idx)
        a = rng.randint(1, n - 1)
        b_ = rng.randint(a + 1, n)
        m_, f = idx[:a], idx[a:b_]
        if cq_solve(cq_matrix(A[np.ix_(f, f)]), cq_matrix(np.zeros(len(f)))) is None:
            continue
        stor = rng.choice(['dense', 'csc', 'csr'])
        sc_case(cls, A, name, m_, f, stor, rng.choice([None, dict(solver=S.SolverDenseLU()) if stor == 'dense' else dict(solver=S.SolverSparseLU())]))
    for (cls, K, name) in fe:
        A = K.toarray()
        n = A.shape[0]
        sc_case(cls, A, name, [n - 1], list(range(1, n - 1)), 'csc')

    # ------------------------------------------------------------------ dtype / storage-format stress (deterministic, every seed)
    # corpus witnesses of fix ab6153f (F28): integer-typed matrix with integer / bool data
    for (cls, A, name, corp) in mats:
        if corp and 'int_rhs' in corp:
            Ai = A.astype(np.int64)
            for stor in ('dense', 'csc'):
                for b in (np.array(corp['int_rhs'], dtype=np.int64), np.array(corp['int_rhs']) % 2 == 1):
                    ls_run(cls, Ai, name, store(Ai, stor), stor, 'auto', lambda: {}, b, 'vec')
        if corp and 'int_soe' in corp:
            Ai = A.astype(np.int64)
            for stor in ('dense', 'csc'):
                soe_case(cls, Ai, name, corp['int_soe']['free'], corp['int_soe']['prescribed'], stor, 'vec', ('int', 'int'), 'both')
        if corp and 'int_fortran' in corp:
            # fix 635515f (F30): integer-typed matrix reaching SolverDenseLU in Fortran order (directly, or as the sliced free block)
            Ai = A.astype(np.int64)
            w = corp['int_fortran']
            for bd in ('real', 'int'):
                ls_run(cls, Ai, name, np.asfortranarray(Ai), 'dense_F', 'auto', lambda: {}, cast(lc.gen_rhs(rng, A.shape[0], 'vec', False), bd), 'vec')
                ls_run(cls, Ai, name, np.asfortranarray(Ai), 'dense_F', 'SolverDenseLU', lambda: dict(solver=S.SolverDenseLU()),
                       cast(lc.gen_rhs(rng, A.shape[0], 'blk', False), bd), 'blk')
            for stor in DENSE:
                sc_case(cls, Ai, name, w['main'], w['sc_free'], stor)
                soe_case(cls, Ai, name, w['free'], w['prescribed'], stor, 'vec', ('real', 'real'), 'both')
                soe_case(cls, Ai, name, w['free'], w['prescribed'], stor, 'blk', ('int', 'real'), 'both')
    # the 5 fixed matrices of corpus/C07/dtype_stress.json in every dtype they can be held in
    variants = []
    for (cls, A, name) in stress:
        if np.iscomplexobj(A):
            variants.append((cls, A, name))
        else:
            variants.append((cls, A.astype(np.int64), name + ':int64'))
            variants.append((cls, A, name))
            # complex128 storage of real values: Hermitian iff symmetric
            variants.append(({'spd': 'hpd'}.get(cls, cls), A.astype(complex), name + ':complex128'))
    others = [s for s in STORES if s not in CORE]
    f_st, p_st = [1, 2], [3, 0]
    flip = 0
    for (cls, A, name) in variants:
        n = A.shape[0]
        for stor in STORES:
            core = stor in CORE
            sparse = stor not in DENSE
            if not core and ctx.quick() and name.endswith(':complex128'):
                continue
            Ast = None
            # LinSolve: matrix dtype x rhs dtype x vector/block
            for bd in (('bool', 'int', 'real', 'complex') if core else ('real', 'complex')):
                for bk in (('vec', 'blk') if core else (('vec', 'blk')[flip % 2],)):
                    flip += 1
                    b = cast(lc.gen_rhs(rng, n, bk, bd == 'complex'), bd)
                    if sparse and dkind(A) != 'complex' and bd == 'complex':
                        if stor in ACCEPTED['LinSolve']:
                            def go(A=A, stor=stor, b=b):
                                m_ = pym.LinSolve([pym.Signal('A', store(A, stor)), pym.Signal('b', b)])
                                m_.response()
                            expect(f'LinSolve {dkind(A)} {stor} matrix {name}, complex rhs {bk}', go, ['TypeError'])
                        continue
                    try:
                        Ast = store(A, stor)
                    except Exception as e:                      # scipy refuses to build the container: nothing to hand to the module
                        refused('scipy', stor, e)
                        break
                    ls_run(cls, A, name, Ast, stor, 'auto', lambda: {}, b, bk)
            # SystemOfEquations: matrix dtype x loads dtype x prescribed dtype x vector/block
            kinds = ('int', 'real', 'complex') if core else ('real', 'complex')
            for dts in itertools.product(kinds, kinds):
                for bk in (('vec', 'blk') if core else (('vec', 'blk')[flip % 2],)):
                    flip += 1
                    soe_case(cls, A, name, f_st, p_st, stor, bk, dts, 'both', stress_case=True)
            # StaticCondensation, Inverse: matrix dtype x storage
            sc_case(cls, A, name, [0, 3], [1, 2], stor)
            sc_case(cls, A, name, [2], [3, 0], stor)
            inv_case(cls, A, name, stor)
    ctx.extra['dtype_stress'] = dict(matrices=[v[2] for v in variants], storages=list(STORES), accepted={k: sorted(v) for k, v in ACCEPTED.items()})

    # ------------------------------------------------------------------ input integrity x memory layout x repeated evaluation
    # (deterministic, every seed; oracle + a few Coq cases).  Every caller-owned array (matrix, right-hand side, loads, prescribed
    # values, sensitivity seeds) is handed over in every memory layout; after response() and after sensitivity() it must be the SAME
    # object holding bit-identical data; the defining equation must hold for the array the input SIGNAL holds after the call; a second
    # response() on the untouched signals and a second module instance on the SAME signals must return the same output.
    LAY2 = ('C', 'F', 'T-view', 'strided', 'reversed', 'readonly-F')
    LAY1 = ('C', 'strided', 'reversed', 'readonly')

    def lay(v, kind):
        v = np.asarray(v)
        if kind == 'C':
            return np.array(v, order='C', copy=True)
        if kind == 'F':
            return np.array(v, order='F', copy=True)
        if kind == 'T-view':                                  # Fortran-contiguous view that does not own its data
            return np.array(v.T, order='C', copy=True).T
        if kind == 'strided':
            big = np.zeros(tuple(2 * k for k in v.shape), dtype=v.dtype)
            sl = tuple(slice(None, None, 2) for _ in v.shape)
            big[sl] = v
            return big[sl]
        if kind == 'reversed':                                # negative strides
            sl = tuple(slice(None, None, -1) for _ in v.shape)
            return np.array(v[sl], order='C', copy=True)[sl]
        w = np.array(v, order='F' if kind == 'readonly-F' else 'C', copy=True)
        w.setflags(write=False)
        return w

    def snap(v):
        if sps.issparse(v):
            return ('sp', v.format, v.copy(), v.dtype, v.shape)
        return ('nd', np.array(v, copy=True), v.dtype, v.shape, v.strides, v.flags['C_CONTIGUOUS'], v.flags['F_CONTIGUOUS'])

    def intact(v, s):
        """same container kind, dtype, shape, memory layout and bit-identical data"""
        if s[0] == 'sp':
            if not (sps.issparse(v) and v.format == s[1] and v.dtype == s[3] and v.shape == s[4]):
                return False
            c = s[2]
            for attr in ('data', 'indices', 'indptr', 'row', 'col'):
                if hasattr(c, attr) and isinstance(getattr(c, attr), np.ndarray):
                    if not (hasattr(v, attr) and np.array_equal(getattr(v, attr), getattr(c, attr))):
                        return False
            return np.array_equal(v.toarray(), c.toarray())
        return isinstance(v, np.ndarray) and v.dtype == s[2] and v.shape == s[3] and v.strides == s[4] and \
            v.flags['C_CONTIGUOUS'] == s[5] and v.flags['F_CONTIGUOUS'] == s[6] and np.array_equal(v, s[1])

    def dense_of(v):
        return v.toarray() if sps.issparse(v) else np.asarray(v)

    def same_out(a, b):
        a, b = dense_of(a), dense_of(b)
        return a.shape == b.shape and a.dtype == b.dtype and np.array_equal(a, b)

    def integrity(module, make, inputs, seeds_for, equation, replay, coq_second=None):
        """inputs: list of (tag, caller-owned object); make(signals) -> module; seeds_for(outputs) -> list of seed arrays (or None);
        equation(states held by the input signals, outputs) -> bool; coq_second(outputs of the second response) -> Coq check or None"""
        ctx.search_evaluations += 1
        ctx.count(f'integrity:{module}')
        owned = [o for _, o in inputs]
        snaps = [snap(o) for o in owned]
        sigs = [pym.Signal(t, o) for t, o in inputs]
        icls = 'inputs ' + ', '.join(f'{t}:{l}' for (t, _), l in zip(inputs, replay['layouts']))

        def fail(pred, **extra):
            ctx.violation('impl-violates', f'{module}._response' if 'sensitivity' not in pred else f'{module}._sensitivity', pred, icls, dict(replay, **extra))

        def inputs_ok(when):
            for (t, o), sg, sn in zip(inputs, sigs, snaps):
                if sg.state is not o:
                    fail(f'input signal still holds the caller\'s object after {when}', input=t)
                    return False
                if not intact(o, sn):
                    fail(f'input state bit-identical after {when}', input=t,
                         before=dense_of(sn[2] if sn[0] == 'sp' else sn[1]).tolist().__repr__()[:600], after=dense_of(o).tolist().__repr__()[:600])
                    return False
            return True
        try:
            mod = make(sigs)
            mod.response()
            out1 = [s_.state for s_ in mod.sig_out]
            keep1 = [dense_of(o).copy() for o in out1]
        except Exception as e:
            fail('response raises for a non-singular matrix in this memory layout', error=repr(e))
            return
        if not inputs_ok('response()'):
            return
        if not equation([sg.state for sg in sigs], out1):
            fail('defining equation holds for the arrays the input signals hold after response()')
            return
        # sensitivity with caller-owned seeds
        seeds = seeds_for(out1)
        ssn = [None if sd is None else snap(sd) for sd in seeds]
        try:
            for so, sd in zip(mod.sig_out, seeds):
                so.sensitivity = sd
            mod.sensitivity()
        except Exception as e:
            fail('sensitivity() raises after a valid response', error=repr(e))
            return
        if not inputs_ok('sensitivity()'):
            return
        for sd, sn in zip(seeds, ssn):
            if sd is not None and not intact(sd, sn):
                fail('sensitivity seed bit-identical after sensitivity()')
                return
        if not all(same_out(o, k) for o, k in zip(out1, keep1)):
            fail('output state unchanged by sensitivity()')
            return
        # a second instance on the SAME signals, then the first one again
        try:
            mod2 = make(sigs)
            mod2.response()
            outb = [dense_of(s_.state).copy() for s_ in mod2.sig_out]
            mod.response()
            out2 = [s_.state for s_ in mod.sig_out]
        except Exception as e:
            fail('second response() on untouched signals raises', error=repr(e))
            return
        if not inputs_ok('a second instance and a second response()'):
            return
        if not all(same_out(o, k) for o, k in zip(outb, keep1)):
            fail('a second module instance on the same signals returns the same output')
            return
        if not all(same_out(o, k) for o, k in zip(out2, keep1)):
            fail('a second response() on untouched signals returns the same output')
            return
        if not equation([sg.state for sg in sigs], out2):
            fail('defining equation holds after the second response()')
            return
        if coq_second is not None:
            add((module + '-integrity', replay['matrix'], tuple(replay['layouts']), replay), coq_second(out2), True)

    def seed_like(o, k):
        o = dense_of(o)
        v = np.array([[(rng.randint(-3, 3) or 1) for _ in range(o.shape[1] if o.ndim > 1 else 1)] for _ in range(o.shape[0])], dtype=float)
        v = v.reshape(o.shape)
        if np.iscomplexobj(o):
            v = v + 1j * np.roll(v, 1, axis=0)
        return lay(v, (LAY2 if v.ndim == 2 else LAY1)[k % (4 if v.ndim == 2 else 2)])

    def a_of(states):
        return dense_of(states[0])

    base = [(cls, A, name) for (cls, A, name) in stress]
    kk = 0
    for (cls, A, name) in base:
        n = A.shape[0]
        cplxA = np.iscomplexobj(A)
        Aex = cq_matrix(A)
        Binv = cq_inverse(Aex)
        mat_layouts = [(l, (lambda l=l: lay(A, l))) for l in LAY2] + [(f, (lambda f=f: STORES[f](A))) for f in ('csc', 'csr', 'coo', 'lil')]
        for ml, mk_a in mat_layouts:
            sparse = ml not in LAY2
            # ---- Inverse (dense only)
            if not sparse:
                integrity('Inverse', lambda sg: pym.Inverse(sg), [('A', mk_a())], lambda outs: [seed_like(outs[0], kk)],
                          lambda st, outs: close(a_of(st) @ dense_of(outs[0]), np.eye(n)),
                          dict(module='Inverse', matrix=name, layouts=[ml], A=A.tolist().__repr__()),
                          coq_second=lambda outs: f'check_inv {coq_cmat(Aex)} {coq_cmat(Binv)} {coq_cmat(cq_matrix(dense_of(outs[0])))} {vlib.qlit(REL * scale_of(Binv))}')
            # ---- StaticCondensation
            if ml in ACCEPTED['StaticCondensation'] or not sparse:
                m_, f = [0, 3], [1, 2]
                Sref = A[np.ix_(m_, m_)] - A[np.ix_(m_, f)] @ np.linalg.solve(A[np.ix_(f, f)], A[np.ix_(f, m_)])
                integrity('StaticCondensation', lambda sg: pym.StaticCondensation(sg, main=np.array(m_), free=np.array(f)), [('A', mk_a())],
                          lambda outs: [seed_like(outs[0], kk + 1)],
                          lambda st, outs: close(dense_of(outs[0]), a_of(st)[np.ix_(m_, m_)] - a_of(st)[np.ix_(m_, f)] @
                                                 np.linalg.solve(a_of(st)[np.ix_(f, f)], a_of(st)[np.ix_(f, m_)])) and close(dense_of(outs[0]), Sref),
                          dict(module='StaticCondensation', matrix=name, layouts=[ml], A=A.tolist().__repr__(), main=m_, free=f))
            # ---- LinSolve and SystemOfEquations: every layout of the right-hand side / loads / prescribed values
            rhs_layouts = [('vec', l) for l in LAY1] + [('blk', l) for l in LAY2]
            for (bk, bl) in rhs_layouts:
                kk += 1
                rc = cplxA and kk % 2 == 0 or (not cplxA and not sparse and kk % 5 == 0)
                b0 = cast(lc.gen_rhs(rng, n, bk, rc), 'complex' if rc else 'real')
                Xex = cq_solve(Aex, cq_matrix(b0))
                integrity('LinSolve', lambda sg: pym.LinSolve(sg), [('A', mk_a()), ('b', lay(b0, bl))],
                          lambda outs: [seed_like(outs[0], kk)],
                          lambda st, outs: np.shape(outs[0]) == b0.shape and close(a_of(st) @ as_col(outs[0]), as_col(st[1])) and close(as_col(st[1]), as_col(b0)),
                          dict(module='LinSolve', matrix=name, layouts=[ml, f'{bk}:{bl}'], A=A.tolist().__repr__(), b=b0.tolist().__repr__()),
                          coq_second=(lambda outs: coq_check_solve(Aex, 'N', Xex, cq_matrix(b0), outs[0])) if kk % 3 == 0 else None)
                if not (ml in ACCEPTED['SystemOfEquations'] or not sparse):
                    continue
                f, p = [1, 2], [3, 0]
                kc = 1 if bk == 'vec' else 3
                lays = LAY1 if bk == 'vec' else LAY2
                xl = lays[(lays.index(bl) + 1) % len(lays)]
                bf0 = cast(lc.gen_rhs(rng, len(f), bk, rc), 'complex' if rc else 'real')
                xp0 = cast(lc.gen_rhs(rng, len(p), bk, rc and kk % 4 == 0), 'complex' if rc and kk % 4 == 0 else 'real')
                none_seed = kk % 3

                def soe_seeds(outs, none_seed=none_seed):
                    sx, sb = seed_like(outs[0], kk), seed_like(outs[1], kk + 2)
                    return [None if none_seed == 1 else sx, None if none_seed == 2 else sb]

                def soe_eq(st, outs, f=f, p=p, bf0=bf0, xp0=xp0):
                    x_, b_ = as_col(outs[0]), as_col(outs[1])
                    return close(x_[p], as_col(st[2])) and close(b_[f], as_col(st[1])) and close(a_of(st) @ x_, b_) and \
                        close(as_col(st[1]), as_col(bf0)) and close(as_col(st[2]), as_col(xp0))
                integrity('SystemOfEquations', lambda sg: pym.SystemOfEquations(sg, free=np.array(f), prescribed=np.array(p)),
                          [('A', mk_a()), ('bf', lay(bf0, bl)), ('xp', lay(xp0, xl))], soe_seeds, soe_eq,
                          dict(module='SystemOfEquations', matrix=name, layouts=[ml, f'{bk}:{bl}', f'{bk}:{xl}'], A=A.tolist().__repr__(),
                               bf=bf0.tolist().__repr__(), xp=xp0.tolist().__repr__(), free=f, prescribed=p, none_seed=none_seed))
    ctx.extra['integrity'] = dict(dense_layouts=list(LAY2), vector_layouts=list(LAY1), sparse=['csc', 'csr', 'coo', 'lil'], matrices=[b_[2] for b_ in base])

    # ------------------------------------------------------------------ malformed requests
    A3 = np.array([[4., 1, 0], [1, 5, 2], [0, 2, 6]])

    def mk_ls(A, b):
        m = pym.LinSolve([pym.Signal('A', A), pym.Signal('b', b)])
        m.response()
    expect('LinSolve real sparse matrix, complex rhs', lambda: mk_ls(sps.csc_matrix(A3), np.array([1j, 2, 3])), ['TypeError'])

    def mk_soe(bf, xp, **kw):
        m = pym.SystemOfEquations([pym.Signal('A', sps.csc_matrix(A3)), pym.Signal('bf', bf), pym.Signal('xp', xp)], **kw)
        m.response()
    expect('SoE sizes do not add up', lambda: mk_soe(np.ones(2), np.ones(2), free=np.array([0, 1]), prescribed=np.array([2])), ['AssertionError'])
    expect('SoE ndim mismatch', lambda: mk_soe(np.ones((2, 1)), np.ones(1), free=np.array([0, 1]), prescribed=np.array([2])), ['AssertionError'])
    expect('SoE no index sets', lambda: mk_soe(np.ones(2), np.ones(1)), ['AssertionError'])

    # ------------------------------------------------------------------ evaluate inside Coq
    failing, err = vlib.run_cases(ctx, 'linmods', HEADER, checks, chunk=50)
    failing2, err2 = vlib.run_cases(ctx, 'err', 'From Coq Require Import List Bool.\nFrom Pymoto Require Import Base.Num.\nImport ListNotations.\n', err_checks, chunk=500)
    allerr = '\n'.join(e for e in (err, err2) if e)
    ctx.obligation('correspondence:case files evaluated', 'correspondence', not allerr, allerr)
    if allerr:
        ctx.violation('correspondence', 'linalg modules', 'case files compile', 'harness', dict(error=allerr[-3000:]), theorem='cases')
    for idx in failing[:30]:
        if idx in reported:
            continue
        lab = labels[idx]
        ctx.violation('correspondence', f'{lab[0]}._response', 'outputs equal the exact model outputs (1e-9), satisfy the block equations and have the model dtype',
                      f'{lab[1]}', dict(label=[str(v) for v in lab[:-1]], replay=lab[-1]),
                      note='exact rational model output / model dtype (checked inside Coq) and implementation differ')
    for idx in failing2[:20]:
        ctx.violation('impl-violates', 'linalg modules', 'malformed request raises the documented exception class', 'malformed request', err_labels[idx],
                      expected=err_labels[idx]['expected'], got=err_labels[idx]['got'])
    ctx.extra['cases'] = len(checks)


def load_corpus():
    d = os.path.join(vlib.ROOT, 'corpus', 'C07')
    out = []
    if os.path.isdir(d):
        for fn in sorted(os.listdir(d)):
            if fn.endswith('.json'):
                with open(os.path.join(d, fn)) as f:
                    j = json.load(f)
                out += j if isinstance(j, list) else [j]
    return out


if __name__ == '__main__':
    vlib.main(run, 'C07')
