"""C07 — linear-system modules satisfy their defining equations."""
import os, json, warnings, itertools
from fractions import Fraction
import numpy as np
import scipy.sparse as sps
import vlib
import py2coq
import gen_C07
import linsys_common as lc
from linsys_common import CQ, cq_matrix, cq_op, cq_solve, cq_mul, cq_sub, cq_inverse, coq_cmat, coq_check_solve, scale_of

HEADER = lc.CQ_HEADER.replace('Base.CQMat.', 'Base.CQMat Model.LinModsExec.')
TOL = 1e-9
REL = Fraction(1, 10 ** 9)


def nl(idx):
    return '[' + '; '.join(str(int(i)) for i in idx) + ']%nat'


def close(a, b):
    a, b = np.asarray(a), np.asarray(b)
    if a.shape != b.shape:
        return False
    s = max(1.0, float(np.max(np.abs(b))) if b.size else 1.0)
    return bool(np.all(np.abs(a - b) <= TOL * s)) if a.size else True


def translate(ctx):
    err = ''
    try:
        p = ctx.write_gen('LinModsGen.v', gen_C07.gen_linmods(vlib.REPO))
        ok, _, err = vlib.compile_file(ctx, p, 'gen:LinModsGen.v (pymoto/modules/linalg.py _response terms) translates and compiles', 'translator')
    except py2coq.Unsupported as e:
        ok, err = False, str(e)
        ctx.obligation('gen:LinModsGen.v (pymoto/modules/linalg.py _response terms) translates and compiles', 'translator', False, err)
    if ok:
        ok, _, err = vlib.compile_file(ctx, os.path.join(ctx.bridge_dir, 'LinModsBridge.v'),
                                       'bridge:LinModsBridge (generated = model, all arguments)', 'bridge')
    if not ok:
        ctx.violation('proof', 'pymoto/modules/linalg.py', 'generated _response terms equal Model/LinMods.v', 'translator/bridge',
                      dict(error=err[-3000:]), theorem='BridgeC07.LinModsBridge')
    return ok


def store(A, kind):
    return A if kind == 'dense' else {'csc': sps.csc_matrix, 'csr': sps.csr_matrix}[kind](A)


def as_col(v):
    v = np.asarray(v)
    return v.reshape(v.shape[0], 1) if v.ndim == 1 else v


def run(ctx):
    warnings.simplefilter('ignore')
    import pymoto as pym
    S = pym.solvers
    ctx.rule = ('integer / Gaussian-integer matrices of every class (see C05) n <= 7, dense/csc/csr, plus integer FE matrices from the '
                'real pym.AssembleGeneral with Dirichlet bc (decoupled rows/columns); LinSolve x solver overrides x rhs shapes/dtypes, '
                'two consecutive responses; Inverse; SystemOfEquations: EVERY partition free/prescribed for n <= 4 (both index-argument '
                'styles), random partitions n <= 7; StaticCondensation: EVERY assignment main/free/rest for n <= 4 (n <= 3 quick). '
                'Non-trivial: n >= 2; distinct by (module, class, n, storage, partition, rhs kind, values).')
    ctx.assumptions += ['theorems are over exact arithmetic in an arbitrary star ring; accuracy of LAPACK/SuperLU validated at 1e-9 against '
                        'the exact rational result checked inside Coq, not proved',
                        'the solver object inside LinSolve (auto_determine_solver + LDAWrapper, or the override) enters the theorems through '
                        'its C05/C06 contract (solver_ok / ff_solver_ok), validated here by the exact comparison',
                        'LinSolve with a real sparse matrix and complex right-hand side raises its documented TypeError (malformed stream)',
                        'matrix-class changes between consecutive responses of one module (cached flags) belong to C03/C06 and are not generated']
    ctx.trusted += ['Print Assumptions: all C07 theorems are closed under the global context (mathcomp, no axioms)',
                    'tools/gen_C07.py (T-alg with selectors, fail-closed): A[f,:][:,p] = D_f A D_p, scatter into zero arrays = embedded sum',
                    'exact rational reference results are computed in Python (fractions) and CHECKED inside Coq against the block equations']
    vlib.audit(ctx)
    if not vlib.ensure_static(ctx, ['theories/Props/C07.vo', 'theories/Base/CQMat.vo', 'theories/Model/LinModsExec.vo']):
        return
    translate(ctx)
    vlib.check_props(ctx)

    rng = ctx.rng
    checks, labels, reported = [], [], set()

    def add(label, chk, nontrivial=True):
        checks.append(chk)
        labels.append(label)
        ctx.case(tuple(str(v) for v in label[:-1]), nontrivial, sample=dict(case=str(label[:-1]), coq=chk[:300]))

    def impl_fail(call_site, pred, cls, case, expected=None, got=None):
        reported.add(len(checks) - 1)
        ctx.violation('impl-violates', call_site, pred, cls, case, expected=expected, got=got)

    # ------------------------------------------------------------------ matrices
    mats = []
    for c in load_corpus():
        A = np.array([[complex(*v) if isinstance(v, list) else v for v in row] for row in c['A']])
        A = A.astype(complex) if c.get('complex') else A.real.astype(float)
        mats.append((c.get('class', 'general'), A, c['name'], c))
    nmat = 50 if ctx.quick() else 300
    k = 0
    while len(mats) < nmat:
        cplx = k % 3 == 2
        clss = lc.CLASSES_CPLX if cplx else lc.CLASSES_REAL
        cls = clss[k % len(clss)]
        n = rng.randint(1, 7)
        if cls in ('zerodiag', 'hzerodiag'):
            n = max(2, n + n % 2 if n < 7 else 6)
        if cls in ('indef', 'hindef', 'general', 'permuted', 'csym', 'lower', 'upper') and n < 2:
            n = 2
        k += 1
        mats.append((cls, lc.gen_matrix(rng, cls, n, cplx), f'gen{k}', None))
    # FE matrices with Dirichlet conditions from the real assembly modules (integer element matrix, integer scaling)
    fe = []
    for (nx, ny), bcn in (((1, 1), [0]), ((2, 1), [0, 3]), ((1, 2), [1]), ((2, 1), [])):
        dom = pym.DomainDefinition(nx, ny)
        B = np.array([[rng.randint(-2, 2) for _ in range(4)] for _ in range(4)])
        el = (B @ B.T + 3 * np.eye(4)).astype(float)                       # SPD integer element matrix
        sx = pym.Signal('x', np.array([float(rng.randint(1, 3)) for _ in range(dom.nel)]))
        m = pym.AssembleGeneral(sx, domain=dom, element_matrix=el, bc=np.array(bcn, dtype=int) if bcn else None, bcdiagval=float(rng.randint(1, 4)))
        m.response()
        K = m.sig_out[0].state
        fe.append(('fe_bc', K, f'AssembleGeneral{nx}x{ny}bc{bcn}'))
    dom = pym.DomainDefinition(1, 1)
    m = pym.AssemblePoisson(pym.Signal('x', np.array([2.0])), domain=dom, bc=np.array([0, 2]))
    m.response()
    fe.append(('fe_poisson', m.sig_out[0].state, 'AssemblePoisson1x1'))      # entries k/6: dyadic-free rationals, toleranced

    # ------------------------------------------------------------------ LinSolve
    def linsolve_cases(cls, A, name, Astored, stor):
        n = A.shape[0]
        cplx = np.iscomplexobj(A)
        sparse = stor != 'dense'
        A_exact = cq_matrix(A)
        overrides = [('auto', lambda: {})]
        if sparse:
            overrides += [('SolverSparseLU', lambda: dict(solver=S.SolverSparseLU())),
                          ('LDAWrapper(SolverSparseLU)', lambda: dict(solver=S.LDAWrapper(S.SolverSparseLU())))]
            if cls in ('spd', 'hpd', 'fe_bc', 'fe_poisson'):
                overrides.append(('CG', lambda: dict(solver=S.CG(preconditioner=S.DampedJacobi(), tol=1e-13))))
        else:
            overrides += [('SolverDenseLU', lambda: dict(solver=S.SolverDenseLU())), ('SolverDenseQR', lambda: dict(solver=S.SolverDenseQR()))]
            if cls in lc.HERMITIAN:
                overrides += [('SolverDenseLDL', lambda: dict(solver=S.SolverDenseLDL())), ('hermitian=True', lambda: dict(hermitian=True))]
                if not cplx:
                    overrides.append(('symmetric=True', lambda: dict(symmetric=True)))
            else:
                overrides.append(('hermitian=False', lambda: dict(hermitian=False)))
        for ol, okw in (overrides if ctx.quick() is False or n <= 4 else [overrides[0], rng.choice(overrides[1:])]):
            bk = rng.choice(['vec', 'col', 'blk', 'dup', 'wide', 'zero'] if ol != 'CG' else ['vec', 'col', 'blk'])
            bc_ = cplx or (not sparse and rng.random() < 0.3)
            b = lc.gen_rhs(rng, n, bk, bc_)
            sA, sb = pym.Signal('A', Astored), pym.Signal('b', b.copy())
            replay = dict(module='LinSolve', override=ol, storage=stor, cls=cls, A=A.tolist().__repr__(), b=b.tolist().__repr__())
            ctx.count('LinSolve:' + ol)
            ctx.count(f'rhs:{bk}:{"complex" if bc_ else "real"}')
            try:
                mod = pym.LinSolve([sA, sb], **okw())
                mod.response()
                x = mod.sig_out[0].state
            except Exception as e:
                ctx.evaluations += 1
                ctx.violation('impl-violates', 'LinSolve._response', 'response raises for a non-singular matrix', f'{cls} matrix {stor}', dict(replay, error=repr(e)))
                continue
            B = cq_matrix(b)
            X = cq_solve(A_exact, B)
            shape_ok = np.shape(x) == b.shape
            tolq = REL * (10 ** 3 if ol == 'CG' else 1)
            add(('LinSolve', ol, cls, n, stor, bk, name, replay),
                (coq_check_solve(A_exact, 'N', X, B, x, tolq) if shape_ok else 'false') + f' && {vlib.blit(shape_ok)}', n >= 2)
            ctx.search_evaluations += 1
            if not (shape_ok and close(A @ as_col(x), as_col(b)) if ol != 'CG' else shape_ok):
                impl_fail('LinSolve._response', 'A x = b', f'{cls} matrix {stor}', replay, got=np.asarray(x).tolist().__repr__()[:1500])
            # a second response of the same module: new values, same class (solver object and previous solution reused)
            if rng.random() < 0.5 and ol != 'CG':
                A2 = A * 2 if cls not in ('fe_bc', 'fe_poisson') else A * 3
                b2 = lc.gen_rhs(rng, n, rng.choice(['vec', 'blk']), bc_)
                sA.state = store(A2, stor) if cls not in ('fe_bc', 'fe_poisson') else (Astored * 3)
                sb.state = b2.copy()
                replay2 = dict(replay, second=dict(A='2*A' if cls not in ('fe_bc', 'fe_poisson') else '3*A', b=b2.tolist().__repr__()))
                ctx.count('LinSolve:second response')
                try:
                    mod.response()
                    x2 = mod.sig_out[0].state
                except Exception as e:
                    ctx.evaluations += 1
                    ctx.violation('impl-violates', 'LinSolve._response', 'second response raises', f'{cls} matrix {stor}', dict(replay2, error=repr(e)))
                    continue
                A2e = cq_matrix(A2)
                B2 = cq_matrix(b2)
                X2 = cq_solve(A2e, B2)
                ok2 = np.shape(x2) == b2.shape
                add(('LinSolve2', ol, cls, n, stor, name, replay2), (coq_check_solve(A2e, 'N', X2, B2, x2) if ok2 else 'false'), n >= 2)
                ctx.search_evaluations += 1
                if not (ok2 and close(A2 @ as_col(x2), as_col(b2))):
                    impl_fail('LinSolve._response', 'A x = b (second response)', f'{cls} matrix {stor}', replay2)

    for (cls, A, name, corp) in mats:
        ctx.count(f'class:{cls}')
        ctx.count(f'n:{A.shape[0]}')
        for stor in ('dense', rng.choice(['csc', 'csr'])):
            linsolve_cases(cls, A, name, store(A, stor), stor)
    for (cls, K, name) in fe:
        A = K.toarray()
        ctx.count(f'class:{cls}')
        linsolve_cases(cls, A, name, K, 'csc')
        linsolve_cases(cls, A, name, A.copy(), 'dense')
    # corpus: F04 witness through LinSolve (dense and sparse), exact expectation x = [1/3, 1/3]
    # (it is part of mats via corpus/C07; nothing else to do)

    # ------------------------------------------------------------------ Inverse
    for (cls, A, name, corp) in mats:
        n = A.shape[0]
        Ae = cq_matrix(A)
        replay = dict(module='Inverse', cls=cls, A=A.tolist().__repr__())
        ctx.count('Inverse')
        try:
            mod = pym.Inverse([pym.Signal('A', A.copy())])
            mod.response()
            Bi = mod.sig_out[0].state
        except Exception as e:
            ctx.evaluations += 1
            ctx.violation('impl-violates', 'Inverse._response', 'response raises for a non-singular matrix', f'{cls} matrix', dict(replay, error=repr(e)))
            continue
        Bx = cq_inverse(Ae)
        ok = np.shape(Bi) == A.shape
        add(('Inverse', cls, n, name, replay), f'check_inv {coq_cmat(Ae)} {coq_cmat(Bx)} {coq_cmat(cq_matrix(Bi)) if ok else "[]"} {vlib.qlit(REL * scale_of(Bx))}', n >= 2)
        ctx.search_evaluations += 1
        if not (ok and close(A @ Bi, np.eye(n))):
            impl_fail('Inverse._response', 'A B = I', f'{cls} matrix', replay)

    # ------------------------------------------------------------------ SystemOfEquations
    def soe_case(cls, A, name, f, p, stor, bk, cplx_rhs, style):
        n = A.shape[0]
        Ae = cq_matrix(A)
        kcols = {'vec': 1, 'blk': 3}[bk]
        cplx = cplx_rhs

        def vals(m):
            v = np.array([[complex(rng.randint(-4, 4), rng.randint(-4, 4)) if cplx else rng.randint(-4, 4) for _ in range(kcols)] for _ in range(m)])
            v = v.astype(complex if cplx else float).reshape(m, kcols)
            return v[:, 0].copy() if bk == 'vec' else v
        bf, xp = vals(len(f)), vals(len(p))
        kw = dict(free=np.array(f, dtype=int), prescribed=np.array(p, dtype=int))
        if style == 'free-only':
            kw.pop('prescribed')
        elif style == 'prescribed-only':
            kw.pop('free')
        real_dense_cplx = (not np.iscomplexobj(A)) and cplx and stor == 'dense'
        icls = 'real dense A with complex bf or xp' if real_dense_cplx else f'{cls} matrix {stor}'
        replay = dict(module='SystemOfEquations', cls=cls, storage=stor, A=A.tolist().__repr__(), free=list(map(int, f)), prescribed=list(map(int, p)),
                      style=style, bf=bf.tolist().__repr__(), xp=xp.tolist().__repr__())
        ctx.count('SoE:' + stor)
        ctx.count('SoE:' + style)
        ctx.count(f'SoE:rhs:{bk}:{"complex" if cplx else "real"}')
        ctx.count(f'SoE:|p|={len(p)}')
        sA = pym.Signal('A', store(A, stor))
        try:
            mod = pym.SystemOfEquations([sA, pym.Signal('bf', bf.copy()), pym.Signal('xp', xp.copy())], **kw)
            mod.response()
            x, b = [s.state for s in mod.sig_out]
        except Exception as e:
            ctx.evaluations += 1
            ctx.violation('impl-violates', 'SystemOfEquations._response', 'response raises for a non-singular free block', icls, dict(replay, error=repr(e)))
            return
        # exact model output
        BF, XP = cq_matrix(bf), cq_matrix(xp)
        Aff = [[Ae[i][j] for j in f] for i in f]
        Afp = [[Ae[i][j] for j in p] for i in f]
        rhs = cq_sub(BF, cq_mul(Afp, XP)) if p else BF
        XF = cq_solve(Aff, rhs)
        X = [None] * n
        for a, i in enumerate(f):
            X[i] = XF[a]
        for a, i in enumerate(p):
            X[i] = XP[a]
        Bx = cq_mul(Ae, X)
        ok = np.shape(x) == (n,) + bf.shape[1:] and np.shape(b) == np.shape(x)
        tol = REL * max(scale_of(X), scale_of(Bx))
        if ok:
            chk = (f'check_soe {kcols} {nl(f)} {nl(p)} {coq_cmat(Ae)} {coq_cmat(BF) if f else "[]"} {coq_cmat(XP) if p else "[]"} '
                   f'{coq_cmat(X)} {coq_cmat(Bx)} {coq_cmat(cq_matrix(x))} {coq_cmat(cq_matrix(b))} {vlib.qlit(tol)}')
        else:
            chk = 'false'
        add(('SoE', cls, n, stor, tuple(f), tuple(p), bk, cplx, style, name, replay), chk, n >= 2)
        # implementation-side oracle: the property text
        ctx.search_evaluations += 1
        xs, bs = as_col(x), as_col(b)
        good = ok and close(xs[p], as_col(xp)) and close(bs[f], as_col(bf)) and close(A @ xs, bs) \
            and (np.iscomplexobj(x) == (np.iscomplexobj(A) or cplx))
        if not good:
            impl_fail('SystemOfEquations._response', 'x[p] = xp, b[f] = bf, A x = b', icls, replay,
                      got=dict(x=np.asarray(x).tolist().__repr__()[:800], b=np.asarray(b).tolist().__repr__()[:800]))
        # inputs stay untouched (fix F12)
        if sA.state.shape != A.shape:
            impl_fail('SystemOfEquations._response', 'input matrix signal untouched', icls, replay)

    small = [(c, A, nm) for (c, A, nm, _) in mats if 2 <= A.shape[0] <= 4]
    seen_n = {}
    for (cls, A, name) in small:
        n = A.shape[0]
        seen_n[n] = seen_n.get(n, 0) + 1
        if seen_n[n] > (5 if ctx.quick() else 20):
            continue
        for mask in range(1, 2 ** n):                      # f non-empty; p may be empty
            f = [i for i in range(n) if mask >> i & 1]
            p = [i for i in range(n) if not mask >> i & 1]
            if rng.random() < 0.5:
                rng.shuffle(f)                              # index order is free
            Aff = A[np.ix_(f, f)]
            if cq_solve(cq_matrix(Aff), cq_matrix(np.zeros(len(f)))) is None:
                continue                                    # singular free block: outside the module's domain
            cplxA = np.iscomplexobj(A)
            for stor in ('dense', 'csc'):
                cr = cplxA or (stor == 'dense' and rng.random() < 0.25)
                soe_case(cls, A, name, f, p, stor, rng.choice(['vec', 'blk']), cr,
                         rng.choice(['both', 'both', 'free-only', 'prescribed-only']) if f == sorted(f) else 'both')
                if stor == 'dense' and not cplxA and not cr and name.startswith('F'):
                    # witness class of fix 92bff31 (F20): real dense A with complex loads / prescribed values
                    soe_case(cls, A, name, f, p, stor, 'vec', True, 'both')
    ctx.extra['soe_exhaustive_partitions_n_le'] = 4
    for (cls, A, name, _) in mats:
        n = A.shape[0]
        if n < 5:
            continue
        for _ in range(2):
            f = sorted(rng.sample(range(n), rng.randint(1, n - 1)))
            p = [i for i in range(n) if i not in f]
            if cq_solve(cq_matrix(A[np.ix_(f, f)]), cq_matrix(np.zeros(len(f)))) is None:
                continue
            soe_case(cls, A, name, f, p, rng.choice(['dense', 'csc', 'csr']), rng.choice(['vec', 'blk']), np.iscomplexobj(A), 'both')
    for (cls, K, name) in fe:
        A = K.toarray()
        n = A.shape[0]
        f = sorted(rng.sample(range(n), n - 2))
        p = [i for i in range(n) if i not in f]
        if cq_solve(cq_matrix(A[np.ix_(f, f)]), cq_matrix(np.zeros(len(f)))) is not None:
            soe_case(cls, A, name, f, p, 'csc', 'vec', False, 'both')
            soe_case(cls, A, name, f, p, 'dense', 'blk', False, 'prescribed-only')

    # ------------------------------------------------------------------ StaticCondensation
    def sc_case(cls, A, name, m_, f, stor, solver_kw=None):
        n = A.shape[0]
        Ae = cq_matrix(A)
        replay = dict(module='StaticCondensation', cls=cls, storage=stor, A=A.tolist().__repr__(), main=list(map(int, m_)), free=list(map(int, f)))
        ctx.count('SC:' + stor)
        ctx.count(f'SC:|m|={len(m_)},|f|={len(f)},rest={n - len(m_) - len(f)}')
        sA = pym.Signal('A', store(A, stor))
        try:
            mod = pym.StaticCondensation([sA], main=np.array(m_, dtype=int), free=np.array(f, dtype=int), **(solver_kw or {}))
            mod.response()
            Ar = np.asarray(mod.sig_out[0].state.toarray() if sps.issparse(mod.sig_out[0].state) else mod.sig_out[0].state)
        except Exception as e:
            ctx.evaluations += 1
            ctx.violation('impl-violates', 'StaticCondensation._response', 'response raises for a non-singular free block', f'{cls} matrix {stor}', dict(replay, error=repr(e)))
            return
        Aff = [[Ae[i][j] for j in f] for i in f]
        Afm = [[Ae[i][j] for j in m_] for i in f]
        Amf = [[Ae[i][j] for j in f] for i in m_]
        Amm = [[Ae[i][j] for j in m_] for i in m_]
        X = cq_solve(Aff, Afm)
        Ared = cq_sub(Amm, cq_mul(Amf, X))
        ok = Ar.shape == (len(m_), len(m_))
        add(('SC', cls, n, stor, tuple(m_), tuple(f), name, replay),
            f'check_sc {nl(m_)} {nl(f)} {coq_cmat(Ae)} {coq_cmat(X)} {coq_cmat(Ared)} {coq_cmat(cq_matrix(Ar)) if ok else "[]"} {vlib.qlit(REL * scale_of(Ared))}' if ok else 'false',
            n >= 2)
        # oracle: the condensed system reproduces the main-dof response of the full system (rest dofs fixed to zero, no load on f)
        ctx.search_evaluations += 1
        mf = list(m_) + list(f)
        Asub = A[np.ix_(mf, mf)]
        good = ok
        if ok and cq_solve(cq_matrix(Asub), cq_matrix(np.zeros(len(mf)))) is not None:
            bm = np.array([rng.randint(-4, 4) for _ in m_], dtype=float)
            full = np.linalg.solve(Asub, np.concatenate([bm, np.zeros(len(f))]))
            good = close(Ar @ full[:len(m_)], bm.astype(Ar.dtype))
        if not good:
            impl_fail('StaticCondensation._response', 'condensed system reproduces the main-dof response', f'{cls} matrix {stor}', replay)
        if sA.state.shape != A.shape:
            impl_fail('StaticCondensation._response', 'input matrix signal untouched', f'{cls} matrix {stor}', replay)

    nmax_sc = 3 if ctx.quick() else 4
    seen_n = {}
    for (cls, A, name) in small:
        n = A.shape[0]
        if n > nmax_sc:
            continue
        seen_n[n] = seen_n.get(n, 0) + 1
        if seen_n[n] > (3 if ctx.quick() else 8):
            continue
        for assign in itertools.product((0, 1, 2), repeat=n):    # 0 main, 1 free, 2 rest
            m_ = [i for i in range(n) if assign[i] == 0]
            f = [i for i in range(n) if assign[i] == 1]
            if not m_ or not f:
                continue
            if cq_solve(cq_matrix(A[np.ix_(f, f)]), cq_matrix(np.zeros(len(f)))) is None:
                continue
            for stor in ('dense', 'csc'):
                sc_case(cls, A, name, m_, f, stor)
    ctx.extra['sc_exhaustive_partitions_n_le'] = nmax_sc
    for (cls, A, name, _) in mats:
        n = A.shape[0]
        if n < 4:
            continue
        idx = list(range(n))
        rng.shuffle(idx)
        a = rng.randint(1, n - 1)
        b_ = rng.randint(a + 1, n)
        m_, f = idx[:a], idx[a:b_]
        if cq_solve(cq_matrix(A[np.ix_(f, f)]), cq_matrix(np.zeros(len(f)))) is None:
            continue
        stor = rng.choice(['dense', 'csc', 'csr'])
        sc_case(cls, A, name, m_, f, stor, rng.choice([None, dict(solver=S.SolverDenseLU()) if stor == 'dense' else dict(solver=S.SolverSparseLU())]))
    for (cls, K, name) in fe:
        A = K.toarray()
        n = A.shape[0]
        sc_case(cls, A, name, [n - 1], list(range(1, n - 1)), 'csc')

    # ------------------------------------------------------------------ malformed stream (exception class only)
    err_checks, err_labels = [], []
    A3 = np.array([[4., 1, 0], [1, 5, 2], [0, 2, 6]])

    def expect(label, fn, want):
        try:
            fn()
            got = 'none'
        except Exception as e:
            got = lc.exc_enum(e)
        err_checks.append(vlib.blit(got in want))
        err_labels.append(dict(case=label, got=got, expected=want))
        ctx.case(('malformed', label), True)
        ctx.count('malformed')

    def mk_ls(A, b):
        m = pym.LinSolve([pym.Signal('A', A), pym.Signal('b', b)])
        m.response()
    expect('LinSolve real sparse matrix, complex rhs', lambda: mk_ls(sps.csc_matrix(A3), np.array([1j, 2, 3])), ['TypeError'])

    def mk_soe(bf, xp, **kw):
        m = pym.SystemOfEquations([pym.Signal('A', sps.csc_matrix(A3)), pym.Signal('bf', bf), pym.Signal('xp', xp)], **kw)
        m.response()
    expect('SoE sizes do not add up', lambda: mk_soe(np.ones(2), np.ones(2), free=np.array([0, 1]), prescribed=np.array([2])), ['AssertionError'])
    expect('SoE ndim mismatch', lambda: mk_soe(np.ones((2, 1)), np.ones(1), free=np.array([0, 1]), prescribed=np.array([2])), ['AssertionError'])
    expect('SoE no index sets', lambda: mk_soe(np.ones(2), np.ones(1)), ['AssertionError'])

    # ------------------------------------------------------------------ evaluate inside Coq
    failing, err = vlib.run_cases(ctx, 'linmods', HEADER, checks, chunk=50)
    failing2, err2 = vlib.run_cases(ctx, 'err', 'From Coq Require Import List Bool.\nFrom Pymoto Require Import Base.Num.\nImport ListNotations.\n', err_checks, chunk=500)
    allerr = '\n'.join(e for e in (err, err2) if e)
    ctx.obligation('correspondence:case files evaluated', 'correspondence', not allerr, allerr)
    if allerr:
        ctx.violation('correspondence', 'linalg modules', 'case files compile', 'harness', dict(error=allerr[-3000:]), theorem='cases')
    for idx in failing[:30]:
        if idx in reported:
            continue
        lab = labels[idx]
        ctx.violation('correspondence', f'{lab[0]}._response', 'outputs equal the exact model outputs (1e-9) and satisfy the block equations',
                      f'{lab[1]}', dict(label=[str(v) for v in lab[:-1]], replay=lab[-1]),
                      note='exact rational model output (checked inside Coq) and implementation differ')
    for idx in failing2[:20]:
        ctx.violation('impl-violates', 'linalg modules', 'malformed request raises the documented exception class', 'malformed request', err_labels[idx],
                      expected=err_labels[idx]['expected'], got=err_labels[idx]['got'])
    ctx.extra['cases'] = len(checks)


def load_corpus():
    d = os.path.join(vlib.ROOT, 'corpus', 'C07')
    out = []
    if os.path.isdir(d):
        for fn in sorted(os.listdir(d)):
            if fn.endswith('.json'):
                with open(os.path.join(d, fn)) as f:
                    j = json.load(f)
                out += j if isinstance(j, list) else [j]
    return out


if __name__ == '__main__':
    vlib.main(run, 'C07')
