"""C17 — the optimality-criteria update keeps bounds, move limit and volume."""
import os, json, math, warnings, signal
from fractions import Fraction
import numpy as np
import vlib
from vlib import zlit
import py2coq
import gen_C17

CORPUS = os.path.join(vlib.ROOT, 'corpus', 'C17')
RUN_TIMEOUT = 5.0      # seconds per minimize_oc run (a normal run takes milliseconds)


def fhex(v):
    v = float(v)
    if v != v:
        return 'nan'
    if v == math.inf:
        return 'infinity'
    if v == -math.inf:
        return 'neg_infinity'
    h = v.hex()
    return f'({h})' if h.startswith('-') else h


def fl(xs):
    return '[' + '; '.join(fhex(v) for v in xs) + ']'


HEADER = '''From Coq Require Import ZArith List Bool PrimFloat.
From Pymoto Require Import Base.Num Base.Cmp Base.PyFloat Model.MMAvars Model.Concat Model.OC.
Import ListNotations.
Open Scope float_scope.
(* arrays hold floats *)
Definition F (l : list float) : list pynum := map PFlt l.
Definition PA (l : list float) : pstate pynum := PArray (F l).
Definition PS (f : float) : pstate pynum := PScalar (PFlt f).
Definition pn_eqb (a b : pynum) : bool := PrimFloat.eqb (py_float a) (py_float b).
Definition pnl_eqb (a b : list pynum) : bool := fl_eqb_list (map py_float a) (map py_float b).
Definition ps_eqb (a b : pstate pynum) : bool :=
  match a, b with
  | PNone, PNone => true
  | PScalar x, PScalar y => pn_eqb x y
  | PArray l, PArray m => pnl_eqb l m
  | _, _ => false
  end.
Definition states_eqb (a b : list (pstate pynum)) : bool :=
  Nat.eqb (length a) (length b) && forallb (fun q => ps_eqb (fst q) (snd q)) (combine a b).
Definition hist_eqb (a b : list (list (pstate pynum))) : bool :=
  Nat.eqb (length a) (length b) && forallb (fun q => states_eqb (fst q) (snd q)) (combine a b).
Definition bools_eqb (a b : list bool) : bool :=
  Nat.eqb (length a) (length b) && forallb (fun q => Bool.eqb (fst q) (snd q)) (combine a b).
(* the network as observed: (objective value, sensitivities) at the k-th response/sensitivity call *)
Definition obs_of (O : list (float * list (pstate pynum))) (it : nat) (st : list (pstate pynum)) :=
  let q := nth it O (nan, []) in (PFlt (fst q), snd q).
(* err: 0 = run completed, 1 = ValueError before the loop (a state is None), 2 = NameError (xnew unbound),
   3 = the run did not return within the time limit (the model runs out of fuel: a float loop that cannot end) *)
Definition run_ok (pr : @oc_params pynum) (maxvol : option pynum) (vars : list (pstate pynum))
           (O : list (float * list (pstate pynum))) (err : Z)
           (exp_states : list (list (pstate pynum))) (exp_warns : list bool) (exp_final : list (pstate pynum)) : bool :=
  match minimize_oc PyOOps pr (obs_of O) maxvol 3000 vars with
  | None => (err =? 1)%Z
  | Some t =>
      match stop t with
      | StopUnbound => (err =? 2)%Z
      | StopOutOfFuel => (err =? 3)%Z
      | StopValueError => false
      | _ => (err =? 0)%Z && hist_eqb (map snd (designs t)) exp_states && bools_eqb (warns t) exp_warns
             && states_eqb (final_states t) exp_final
      end
  end.
(* pymoto.utils._concatenate_to_array on the initial states with their dtypes (typed model of Model/MMAvars.v): dtype of the
   result, values (converted to float64: exact for the integers and float32 numbers used), cumulative indices *)
Definition convP (src dst : MMAvars.dtype) (x : pynum) : pynum :=
  match dst with MMAvars.F32 | MMAvars.F64 => PFlt (py_float x) | _ => x end.
Definition dtype_eqb (a b : MMAvars.dtype) : bool :=
  match a, b with
  | MMAvars.I32, MMAvars.I32 | MMAvars.I64, MMAvars.I64 | MMAvars.F32, MMAvars.F32 | MMAvars.F64, MMAvars.F64 => true
  | _, _ => false
  end.
Definition TS (dt : MMAvars.dtype) (x : pynum) : MMAvars.tstate pynum := MMAvars.TVal dt (MMAvars.Scal x).
Definition TA (dt : MMAvars.dtype) (l : list pynum) : MMAvars.tstate pynum := MMAvars.TVal dt (MMAvars.Arr l).
Definition tconcat_ok (states : list (MMAvars.tstate pynum)) (err : bool) (r_dt : MMAvars.dtype) (r_vals : list float) (r_cum : list nat) : bool :=
  match MMAvars.concat_to_array_t convP states with
  | None => err
  | Some (v, c) => negb err && dtype_eqb (fst v) r_dt && pnl_eqb (snd v) (F r_vals) && list_eqb Nat.eqb c r_cum
  end.
(* the flat design at every response is the concatenation of the signal states (write-back) *)
Definition flat_ok (pr : @oc_params pynum) (maxvol : option pynum) (vars : list (pstate pynum))
           (O : list (float * list (pstate pynum))) : bool :=
  match minimize_oc PyOOps pr (obs_of O) maxvol 3000 vars with
  | None => true
  | Some t => forallb (fun d => pnl_eqb (fst d) (concat (map pflat (snd d)))) (designs t)
              && pnl_eqb (final t) (concat (map pflat (final_states t)))
  end.
'''


# ----------------------------------------------------------------------------- problems
def objective(kind, c, p, x):
    """value and gradient of the generated objectives (all have non-positive gradients except 'mixed')"""
    c = np.asarray(c, dtype=float)
    if kind == 'inv':
        return float(np.sum(c / x)), -c / x ** 2
    if kind == 'pow':
        return float(np.sum(c * x ** (-p))), -p * c * x ** (-p - 1)
    if kind == 'lin':
        return float(10.0 - np.sum(c * x)), -c + 0.0 * x
    if kind == 'exp':
        return float(np.sum(c * np.exp(-x))), -c * np.exp(-x)
    if kind == 'mixed':     # malformed for OC: some positive gradients
        b = np.asarray(p, dtype=float)
        return float(np.sum(c / x) + np.sum(b * x)), -c / x ** 2 + b
    raise ValueError(kind)


def canon_state(v):
    """Signal state -> ('none',) | ('scalar', float) | ('array', [floats]) (flattened, C order)"""
    if v is None:
        return ('none',)
    a = np.asarray(v)
    if a.ndim == 0:
        return ('scalar', float(a))
    return ('array', [float(t) for t in a.ravel()])


def ps(c):
    if c[0] == 'none':
        return 'PNone'
    if c[0] == 'scalar':
        return f'(PS {fhex(c[1])})'
    return f'(PA {fl(c[1])})'


def pn(v):
    """Python number -> Coq pynum (ints stay ints, the way minimize_oc receives them)"""
    if isinstance(v, (bool, np.bool_)):
        raise TypeError(v)
    if isinstance(v, (int, np.integer)):
        return f'(PInt ({int(v)}))'
    return f'(PFlt {fhex(v)})'


def psl(cs):
    return '[' + '; '.join(ps(c) for c in cs) + ']'


# the Python / numpy kind in which an initial state is handed over (key 'num' of a variable description; default: floats)
NUM_TAG = dict(pyfloat='F64', f64='F64', pyint='I64', i64='I64', i32='I32', f32='F32')
NUM_NP = dict(f64=np.float64, i64=np.int64, i32=np.int32, f32=np.float32)
INT_NUMS = ('pyint', 'i64', 'i32')


def build_state(v):
    """problem variable description -> initial Signal state"""
    if v['kind'] == 'none':
        return None
    num = v.get('num')
    if v['kind'] == 'scalar':
        if num in (None, 'pyfloat'):
            return float(v['value'])
        r = int(v['value']) if num == 'pyint' else NUM_NP[num](v['value'])
        assert float(r) == float(v['value']), v
        return r
    a = np.array(v['value'], dtype=NUM_NP[num or 'f64'])
    assert np.array_equal(a.astype(float), np.array(v['value'], dtype=float)), v
    return a


def ps_var(v):
    """initial state as the model sees it: integers stay integers (PInt), everything else is a binary64 number"""
    if v['kind'] == 'none':
        return 'PNone'
    is_int = v.get('num') in INT_NUMS
    one = (lambda t: f'(PInt ({int(t)}))') if is_int else (lambda t: f'(PFlt {fhex(t)})')
    if v['kind'] == 'scalar':
        return f'(PScalar {one(v["value"])})'
    return '(PArray [' + '; '.join(one(t) for t in np.array(v['value'], dtype=float).ravel()) + '])'


def ts_var(v):
    """initial state with its dtype tag for the typed concatenation model"""
    if v['kind'] == 'none':
        return 'MMAvars.TNone'
    tag = 'MMAvars.' + NUM_TAG[v.get('num') or ('pyfloat' if v['kind'] == 'scalar' else 'f64')]
    is_int = v.get('num') in INT_NUMS
    one = (lambda t: f'(PInt ({int(t)}))') if is_int else (lambda t: f'(PFlt {fhex(t)})')
    if v['kind'] == 'scalar':
        return f'(TS {tag} {one(v["value"])})'
    return f'(TA {tag} [' + '; '.join(one(t) for t in np.array(v['value'], dtype=float).ravel()) + '])'


def run_impl(pym, prob):
    """run minimize_oc on the real implementation with a recording module in the user's network"""
    sigs = [pym.Signal(f'x{i}', state=build_state(v)) for i, v in enumerate(prob['vars'])]
    rec = dict(states=[], fs=[], sens=[], wcount=[], norms=[])
    wl_box = []

    class Objective(pym.Module):
        def _response(self, *xs):
            rec['states'].append([canon_state(v) for v in xs])
            rec['wcount'].append(sum(1 for w in wl_box[0] if 'OC only works' in str(w.message)))
            self.shapes = [np.shape(v) for v in xs]
            x = np.concatenate([np.asarray(v, dtype=float).ravel() for v in xs])
            f, g = objective(prob['objective'], prob['c'], prob.get('p'), x)
            self.g = g
            rec['fs'].append(f)
            return f

        def _sensitivity(self, df):
            g = self.g * df
            out, k = [], 0
            for i, sh in enumerate(self.shapes):
                n = int(np.prod(sh)) if sh != () else 1
                piece = g[k:k + n]
                k += n
                if i in prob.get('none_sens', []):
                    out.append(None)
                elif sh == ():
                    out.append(float(piece[0]))
                else:
                    out.append(piece.reshape(sh).copy())
            rec['sens'].append([canon_state(v) for v in out])
            return out

    fsig = pym.Signal('f')
    kw = dict(prob['params'])
    for k in ('xmin', 'xmax'):
        if isinstance(kw.get(k), list):
            kw[k] = bounds_object(kw[k], prob.get('bounds_as', 'array'))
    # caller-owned objects (re-inspected after the run and after LATER runs): the bound vectors and the initial state arrays
    owned = [[k, kw[k], np.array(kw[k], dtype=float).copy()] for k in ('xmin', 'xmax') if isinstance(kw.get(k), (np.ndarray, list, tuple))]
    owned += [[f'initial state of x{i}', s.state, np.array(s.state).copy()] for i, s in enumerate(sigs) if isinstance(s.state, np.ndarray)]
    err = None
    orig_norm = np.linalg.norm

    def norm_rec(a, *args, **kwargs):
        r = orig_norm(a, *args, **kwargs)
        rec['norms'].append(float(r))
        return r
    with warnings.catch_warnings(record=True) as wl:
        warnings.simplefilter('always')
        wl_box.append(wl)
        np.linalg.norm = norm_rec

        def on_alarm(*a):
            raise TimeoutError('minimize_oc did not return within the time limit')
        old_handler = signal.signal(signal.SIGALRM, on_alarm)
        signal.setitimer(signal.ITIMER_REAL, RUN_TIMEOUT)
        try:
            net = pym.Network(Objective(sigs, fsig))
            pym.minimize_oc(net, sigs, fsig, verbosity=0, **kw)
        except TimeoutError:
            err = 'Timeout'
        except ValueError:
            err = 'ValueError'
        except NameError:
            err = 'NameError'
        except TypeError:
            err = 'TypeError'
        except IndexError:
            err = 'IndexError'
        except AssertionError:
            err = 'AssertionError'
        except RuntimeError:
            err = 'RuntimeError'
        except Exception:
            err = 'Other'
        finally:
            signal.setitimer(signal.ITIMER_REAL, 0)
            signal.signal(signal.SIGALRM, old_handler)
            np.linalg.norm = orig_norm
        total_w = sum(1 for w in wl if 'OC only works' in str(w.message))
    rec['final'] = [canon_state(s.state) for s in sigs]
    wc = rec['wcount'] + [total_w]
    rec['warns'] = [wc[k + 1] - wc[k] > 0 for k in range(len(rec['sens']))]
    rec['err'] = err
    rec['held'] = dict(sigs=sigs, owned=owned, fsig=fsig)
    return rec


def bounds_object(vals, how):
    """a per-variable bound vector in the memory layout / container the caller may own it in"""
    if how == 'list':
        return [float(v) for v in vals]
    if how == 'tuple':
        return tuple(float(v) for v in vals)
    if how == 'strided':                     # every second entry of a longer array (non-contiguous view)
        base = np.full(2 * len(vals), -7.0)
        base[::2] = vals
        return base[::2]
    if how == 'readonly':
        a = np.array(vals, dtype=float)
        a.setflags(write=False)
        return a
    return np.array(vals, dtype=float)


class Ledger:
    """everything earlier runs of this process left behind: the variable signals with their final states and the caller-owned
    arrays; re-inspected after later runs (a finished optimisation must keep its result, whatever is optimised afterwards)"""

    def __init__(self):
        self.items = []

    def add(self, cls, prob, rec, hits):
        held = rec.pop('held')
        info = dict(problem=prob, designs=[], history='caller-owned arrays after the run')
        for ow in held['owned']:
            name, obj, snap = ow
            if not np.array_equal(np.array(obj, dtype=float), snap):
                hits.append((info, 'caller-owned arrays (bounds, initial states) are not modified',
                             f'{name} was {snap.tolist()} before the run and is {np.array(obj, dtype=float).tolist()} afterwards',
                             'caller-owned arrays'))
                ow[2] = np.array(obj, dtype=float).copy()
        snap = [None if s.state is None else np.array(s.state).copy() for s in held['sigs']]
        self.items.append(dict(cls=cls, prob=prob, sigs=held['sigs'], owned=held['owned'], snap=snap, final=rec['final'],
                               fsig=held['fsig'], f=held['fsig'].state))

    def inspect(self, ctx, hits, last=None, after=None):
        items = self.items if last is None else self.items[-last - 1:-1]
        for pos, it in enumerate(items):
            ctx.search_evaluations += 1
            info = dict(problem=it['prob'], designs=[], history=f'{len(self.items)} runs in this process; re-inspected after: {after}')
            for i, (s, sn) in enumerate(zip(it['sigs'], it['snap'])):
                now = None if s.state is None else np.array(s.state)
                same = (now is None and sn is None) or (now is not None and sn is not None and now.shape == sn.shape and now.dtype == sn.dtype
                                                       and np.array_equal(now, sn, equal_nan=True))
                if not same:
                    hits.append((info, 'final design of a finished run stays in its variable signals (re-inspected after later runs)',
                                 f'signal x{i} held {None if sn is None else sn.tolist()} when its run ended and holds '
                                 f'{None if now is None else now.tolist()} after later runs', 'several minimize_oc runs in one process'))
                    it['snap'][i] = None if now is None else now.copy()       # report once
            for ow in it['owned']:
                name, obj, snap = ow
                if not np.array_equal(np.array(obj, dtype=float), snap):
                    hits.append((info, 'caller-owned arrays (bounds, initial states) are not modified',
                                 f'{name} was {snap.tolist()} and is {np.array(obj, dtype=float).tolist()} after later runs',
                                 'several minimize_oc runs in one process'))
                    ow[2] = np.array(obj, dtype=float).copy()               # report once


def coq_params(prob):
    """the parameters as the implementation sees them (defaults of the signature filled in by the model's
    default_params when a keyword is omitted)"""
    p = prob['params']

    def get(name, proj):
        return pn(p[name]) if name in p else f'({proj} default_params)'

    def bnd(name, proj):
        if name not in p:
            return f'({proj} default_params)'
        return f'(BVector (F {fl(p[name])}))' if isinstance(p[name], list) else f'(BScalar {pn(p[name])})'
    maxit = str(int(p['maxit'])) + '%nat' if 'maxit' in p else '(maxit default_params)'
    pr = (f'(mkParams {get("tolx", "tolx")} {get("tolf", "tolf")} {maxit} {bnd("xmin", "bmin")} {bnd("xmax", "bmax")} '
          f'{get("move", "move")} {get("l1init", "l1init")} {get("l2init", "l2init")} {get("l1l2tol", "l1l2tol")} (warn_eps default_params))')
    mv = f'(Some {pn(p["maxvol"])})' if p.get('maxvol') is not None else 'None'
    return pr, mv


DEFAULTS = dict(tolx=1e-4, tolf=1e-4, maxit=100, xmin=0.0, xmax=1.0, move=0.2, l1init=0, l2init=100000, l1l2tol=1e-4)


def flat_x0(prob):
    out = []
    for v in prob['vars']:
        if v['kind'] == 'scalar':
            out.append(float(v['value']))
        elif v['kind'] == 'array':
            out += [float(t) for t in np.array(v['value'], dtype=float).ravel()]
    return np.array(out, dtype=float)


def gen_problem(rng, cls, thorough, state_nums=None):
    """cls: 'small' (n <= 7), 'large' (8 <= n), 'malformed';
    state_nums: None (floats: Python float / float64 arrays) | 'int' (Python int, np.int64 / np.int32 scalars and arrays) |
                'f32' | 'mixed' (every signal draws its own kind)"""
    nv = int(rng.integers(1, 5))
    vars_ = []
    if cls == 'large':
        total = int(rng.choice([8, 9, 15, 16, 17, 24, 40] + ([127, 128, 129, 150, 300] if thorough else [129])))
        cuts = sorted(set(int(t) for t in rng.integers(1, total, nv - 1))) if nv > 1 else []
        sizes = [b - a for a, b in zip([0] + cuts, cuts + [total])]
    else:
        sizes = []
        left = 7
        for i in range(nv):
            if left <= 0:
                break
            s = int(rng.integers(0, min(4, left) + 1))     # 0 = scalar signal
            sizes.append(s)
            left -= max(s, 1)
    for s in sizes:
        if s == 0:
            vars_.append(dict(kind='scalar', value=float(np.round(rng.uniform(0.15, 0.85), 2))))
        else:
            val = np.round(rng.uniform(0.15, 0.85, s), 2)
            if s == 4 and rng.random() < 0.3:
                val = val.reshape(2, 2)
            vars_.append(dict(kind='array', value=val.tolist()))
    if state_nums is not None:
        for v in vars_:
            fam = dict(int=(('pyint', 'i64', 'i32'), ('i64', 'i32')), f32=(('f32',), ('f32',)),
                       mixed=(('pyfloat', 'pyint', 'f64', 'i64', 'i32', 'f32'), ('f64', 'i64', 'i32', 'f32')))[state_nums]
            v['num'] = str(rng.choice(fam[0 if v['kind'] == 'scalar' else 1]))
            shp = np.shape(v['value'])
            if v['num'] in INT_NUMS:            # integer designs 1 or 2 (the box is widened below)
                val = rng.integers(1, 3, size=shp if shp else None).astype(float)
            elif v['num'] == 'f32':             # float32 numbers
                val = np.round(np.array(v['value'], dtype=float) * 64) / 64
            else:
                val = np.array(v['value'], dtype=float)
            v['value'] = val.tolist() if shp else float(val)
    prob = dict(vars=vars_)
    x0 = flat_x0(prob)
    n = x0.size
    kind = str(rng.choice(['inv', 'inv', 'pow', 'lin', 'exp']))
    prob['objective'] = kind
    prob['c'] = np.round(rng.uniform(0.5, 9.0, n), 2).tolist()
    if kind == 'pow':
        prob['p'] = float(rng.choice([2.0, 0.5, 3.0]))
    params = {}
    # bounds
    r = rng.random()
    if r < 0.25:
        pass                                            # defaults xmin = 0.0, xmax = 1.0
    elif r < 0.6:
        params['xmin'] = float(rng.choice([0.0, 0.01, 0.05, 0.1]))
        params['xmax'] = float(rng.choice([1.0, 0.9, 2.0]))
    else:
        params['xmin'] = np.round(np.minimum(x0, rng.uniform(0.01, 0.3, n)), 3).tolist()
        params['xmax'] = np.round(np.maximum(x0, rng.uniform(0.7, 1.5, n)), 3).tolist()
        if state_nums is not None:       # float32 starting values have more than three decimals: keep them inside the box
            params['xmin'] = np.minimum(params['xmin'], x0).tolist()
            params['xmax'] = np.maximum(params['xmax'], x0).tolist()
        if rng.random() < 0.45:          # frozen (passive) variables: xmin[i] == xmax[i] == x0[i] for some / most / all entries
            fz = rng.random(n) < float(rng.choice([0.25, 0.5, 0.8, 1.0]))
            if not fz.any():
                fz[int(rng.integers(n))] = True
            params['xmin'] = np.where(fz, x0, params['xmin']).tolist()
            params['xmax'] = np.where(fz, x0, params['xmax']).tolist()
            prob['frozen'] = 'all' if fz.all() else 'some'
            prob['bounds_as'] = str(rng.choice(['array', 'array', 'list', 'tuple', 'strided', 'readonly']))
    if kind in ('inv', 'pow') and 'xmin' not in params:
        params['xmin'] = 0.01
        params['xmax'] = 1.0
    if kind in ('inv', 'pow') and not isinstance(params['xmin'], list) and params['xmin'] == 0.0:
        params['xmin'] = 0.01
    if state_nums is not None and not isinstance(params.get('xmax', 1.0), list) and params.get('xmax', 1.0) < x0.max():
        params['xmax'] = float(x0.max() + rng.choice([0.0, 0.5, 1.0]))       # integer designs start inside the box
    if rng.random() < 0.8:
        params['move'] = float(rng.choice([0.05, 0.1, 0.2, 0.5, 0.0]))
    mv = params.get('move', 0.2)
    lo = np.maximum(np.array(params.get('xmin', 0.0), dtype=float) + 0 * x0, x0 - mv)
    hi = np.minimum(np.array(params.get('xmax', 1.0), dtype=float) + 0 * x0, x0 + mv)
    r = rng.random()
    if r < 0.3:
        prob['maxvol_kind'] = 'default'
    elif r < 0.7:
        params['maxvol'] = float(np.round(rng.uniform(lo.sum(), hi.sum()), 3)) if hi.sum() > lo.sum() else float(x0.sum())
        prob['maxvol_kind'] = 'reachable-first-step'
    elif r < 0.85:
        params['maxvol'] = float(np.round(0.3 * lo.sum(), 3))
        prob['maxvol_kind'] = 'unreachable-low'
    else:
        params['maxvol'] = float(np.round(hi.sum() + 1.0 + n, 3))
        prob['maxvol_kind'] = 'unreachable-high'
    params['maxit'] = int(rng.integers(1, 9 if not thorough else 14))
    if rng.random() < 0.3:
        params['tolx'] = float(rng.choice([1e-6, 1e-2, 1e-3]))
    if rng.random() < 0.3:
        params['tolf'] = float(rng.choice([1e-6, 1e-2, 1e-8]))
    if rng.random() < 0.3:
        params['l1l2tol'] = float(rng.choice([1e-6, 1e-3, 1e-2]))
    if rng.random() < 0.2:
        params['l2init'] = float(rng.choice([1e3, 1e7, 1e9]))
    if rng.random() < 0.1:
        params['l1init'] = float(rng.choice([1e-3, 0.5]))
    if rng.random() < 0.15 and len(vars_) > 1:
        prob['none_sens'] = [int(rng.integers(len(vars_)))]
    prob['params'] = params
    if cls == 'malformed':
        m = str(rng.choice(['positive-gradient', 'positive-gradient', 'positive-gradient', 'none-state', 'degenerate-interval', 'maxit-zero',
                            'outside-box']))
        prob['malformed'] = m
        if m == 'positive-gradient':
            prob['objective'] = 'mixed'
            b = np.where(rng.random(n) < 0.5, np.round(rng.uniform(5, 60, n), 1), 0.0)
            if not b.any():
                b[0] = 50.0
            prob['p'] = b.tolist()
            if not isinstance(params.get('xmin', 0.01), list) and params.get('xmin', 0.0) == 0.0:
                params['xmin'] = 0.01
        elif m == 'none-state':
            vars_[int(rng.integers(len(vars_)))] = dict(kind='none')
        elif m == 'degenerate-interval':      # l2init <= l1init: the bisection body never runs (before F19: NameError)
            params['l1init'] = 5.0
            params['l2init'] = float(rng.choice([5.0, 4.0, 5.00001]))
            params['l1l2tol'] = 1e-4
        elif m == 'maxit-zero':
            params['maxit'] = 0
        elif m == 'outside-box':
            params['xmin'] = 0.9
            params['xmax'] = 1.0
    return prob


# ----------------------------------------------------------------------------- implementation-side oracle
# finding F19 (fixed in ebed191; findings/F19_C17_oc_volume_large_gradients.py): its triple, used when the class regresses
# second part of F19 (hang introduced by ebed191, fixed in bd6675c; findings/F19b_C17_oc_bisection_hang.py): used on regression
HANG_PRED = 'minimize_oc returns'
HANG_CLASS = 'multiplier bisection cannot reach l1l2tol in binary64'
FINDING_SITE = 'minimize_oc'
FINDING_PRED = 'volume equals maxvol when reachable within the move limits'
FINDING_CLASS = 'update at l2init still exceeds maxvol (multiplier interval [l1init, l2init] too small)'


def reference_volume_gap(x, g, lo, hi, maxvol, l1, l2, tol):
    """independent statement of 'volume equals maxvol to bisection tolerance': locate the multiplier at which the
    volume of the clipped update crosses maxvol and return the volume change across an interval of +-2*tol around it;
    None when the target cannot be bracketed (not reachable by the update within the move limits, or l1init too large)"""
    g = np.minimum(g, 0)

    def vol(lam):
        with np.errstate(all='ignore'):
            return float(np.sum(np.clip(x * np.sqrt(-g / lam), lo, hi)))
    if not (l2 > 0) or not (l1 < l2):
        return None
    b = l2
    while vol(b) > maxvol and b < 1e300:
        b *= 10
    if not (vol(b) <= maxvol):
        return None
    a = l1 if l1 > 0 else min(1e-12, b * 1e-12)
    if not (vol(a) > maxvol):
        return None
    for _ in range(300):
        m = 0.5 * (a + b)
        if vol(m) > maxvol:
            a = m
        else:
            b = m
    lam = 0.5 * (a + b)
    return vol(max(lam - 2 * tol, 1e-300)) - vol(lam + 2 * tol)


def oracle(ctx, prob, rec, hits):
    """bounds, move limit, volume, convergence -- on the implementation's recorded designs"""
    if rec['err'] == 'Timeout':
        ctx.search_evaluations += 1
        hits.append((dict(problem=prob, designs=[]), HANG_PRED, f'minimize_oc did not return within {RUN_TIMEOUT} s', HANG_CLASS))
        return
    if rec['err'] is not None or prob.get('malformed') in ('none-state', 'degenerate-interval', 'outside-box'):
        return
    p = dict(DEFAULTS, **prob['params'])
    designs = [np.concatenate([np.array([c[1]] if c[0] == 'scalar' else c[1], dtype=float) for c in st]) for st in rec['states']]
    final = np.concatenate([np.array([c[1]] if c[0] == 'scalar' else c[1], dtype=float) for c in rec['final']])
    seq = designs + [final]
    n = seq[0].size
    xmin = np.array(p['xmin'], dtype=float) + np.zeros(n)
    xmax = np.array(p['xmax'], dtype=float) + np.zeros(n)
    mv = p['move']
    maxvol = p.get('maxvol')
    if maxvol is None:
        maxvol = float(np.sum(seq[0]))
    ctx.search_evaluations += 1
    info = dict(problem=prob, designs=[d.tolist() for d in seq])
    for k, d in enumerate(seq):
        if d.size != n:
            hits.append((info, 'write-back', f'design {k} has {d.size} entries, expected {n}'))
            return
        if (d < xmin).any() or (d > xmax).any():
            hits.append((info, 'xmin <= x <= xmax', f'design {k} = {d.tolist()} leaves [{xmin.tolist()}, {xmax.tolist()}]'))
            return
        if k > 0 and (np.abs(d - seq[k - 1]) > mv * (1 + 1e-12) + 1e-15).any():
            hits.append((info, 'move limit', f'design {k} differs from design {k - 1} by {np.abs(d - seq[k - 1]).max()} > move {mv}'))
            return
    # sizes of the pieces held by the signals never change
    sizes0 = [1 if c[0] == 'scalar' else len(c[1]) for c in rec['states'][0]] if rec['states'] else None
    for st in rec['states'] + [rec['final']]:
        if sizes0 is not None and [1 if c[0] == 'scalar' else len(c[1]) for c in st] != sizes0:
            hits.append((info, 'write-back', 'a variable signal changed its number of entries'))
            return
    # volume: every design that was produced by an update (k >= 1)
    gaps = []
    for k in range(1, len(seq)):
        if k - 1 >= len(rec['sens']):
            break
        if np.array_equal(seq[k], seq[k - 1]) and k == len(seq) - 1:
            continue                      # final design of a run that stopped without writing back
        x = seq[k - 1]
        gparts = []
        for c, s in zip(rec['sens'][k - 1], rec['states'][k - 1]):
            if c[0] == 'none':
                gparts.append(np.zeros(1 if s[0] == 'scalar' else len(s[1])))
            else:
                gparts.append(np.array([c[1]] if c[0] == 'scalar' else c[1], dtype=float))
        g = np.concatenate(gparts)
        lo, hi = np.maximum(xmin, x - mv), np.minimum(xmax, x + mv)
        ref = reference_volume_gap(x, g, lo, hi, maxvol, float(p['l1init']), float(p['l2init']), float(p['l1l2tol']))
        gap = abs(float(np.sum(seq[k])) - maxvol)
        if ref is None:
            ctx.count('oracle:volume target not reachable by the update / l1init too large (not demanded)')
            continue
        gc = np.minimum(g, 0)
        with np.errstate(all='ignore'):
            vol_l2 = float(np.sum(np.clip(x * np.sqrt(-gc / float(p['l2init'])), lo, hi)))
        needs_growth = vol_l2 > maxvol
        if needs_growth:
            ctx.count('oracle:volume reachable only above l2init (bracket growing needed, F19)')
        gaps.append(gap)
        ctx.count('oracle:volume checked')
        if gap > ref + 1e-9 * max(1.0, abs(maxvol)):
            msg = f'design {k}: |sum - maxvol| = {gap} exceeds the volume change {ref} across the final multiplier interval'
            if needs_growth:      # the class of fixed finding F19: reported with its original triple
                hits.append((info, FINDING_PRED, msg + f' (the update at l2init = {p["l2init"]} has volume {vol_l2} > maxvol)', FINDING_CLASS))
            else:
                hits.append((info, 'volume equals maxvol to bisection tolerance', msg))
            return
    if gaps:
        ctx.extra['observed_max_volume_gap'] = max(ctx.extra.get('observed_max_volume_gap', 0.0), max(gaps))
    # convergence to the analytic optimum of  min sum c_i/x_i  s.t.  sum x = maxvol, xmin <= x <= xmax:
    # x_i = clip(sqrt(c_i/lambda), xmin_i, xmax_i); interior optimum: x = maxvol*sqrt(c)/sum(sqrt(c))
    if prob.get('convergence_check'):
        c = np.array(prob['c'], dtype=float)
        xs = analytic_optimum(c, maxvol, xmin, xmax)
        dist = float(np.abs(final - xs).max())
        ctx.extra['observed_max_distance_to_optimum'] = max(ctx.extra.get('observed_max_distance_to_optimum', 0.0), dist)
        ctx.count('oracle:convergence checked')
        ctx.count('oracle:convergence checked:' + prob.get('start', 'start feasible'))
        icls = prob.get('start', 'well-formed problem')
        vgap = abs(float(np.sum(final)) - maxvol)
        if dist > 2e-3:
            stop = ('the objective test' if len(rec['states']) == len(rec['sens']) + 1 else
                    'maxit' if len(rec['states']) == p['maxit'] else 'the step-size test')
            hits.append((info, 'converges to the analytic optimum',
                         f'the run stopped after {len(rec["states"])} response() calls (by {stop}; tolf={p["tolf"]}, tolx={p["tolx"]}, '
                         f'maxit={p["maxit"]}) at volume {float(np.sum(final))} (maxvol {maxvol}); final design {final.tolist()} is {dist} '
                         f'away from the analytic optimum {xs.tolist()}; objective values {rec["fs"]}', icls))
        elif vgap > 1e-3 * max(1.0, abs(maxvol)):
            hits.append((info, 'volume equals maxvol when reachable',
                         f'final design has volume {float(np.sum(final))}, maxvol {maxvol} is attainable inside the box', icls))


def analytic_optimum(c, V, xmin, xmax):
    """KKT point of min sum c_i/x_i s.t. sum x = V, xmin <= x <= xmax (V attainable): x_i = clip(sqrt(c_i/lam), ...)"""
    c = np.asarray(c, dtype=float)
    xs = V * np.sqrt(c) / np.sum(np.sqrt(c))
    if (xs >= xmin).all() and (xs <= xmax).all():
        return xs

    def vol(lam):
        return float(np.sum(np.clip(np.sqrt(c / lam), xmin, xmax)))
    a, b = 1e-12, 1e12                      # vol is non-increasing in lam
    for _ in range(400):
        m = math.sqrt(a * b) if b / a > 4 else 0.5 * (a + b)
        if vol(m) > V:
            a = m
        else:
            b = m
    return np.clip(np.sqrt(c / (0.5 * (a + b))), xmin, xmax)


def split_vars(rng, x0, layout):
    """distribute the flat start design over 1..4 variable signals (arrays, scalars, a 2-D array)"""
    n = x0.size
    if layout == 'one' or n == 1:
        return [dict(kind='array', value=x0.tolist())]
    if layout == 'scalars+array' and n >= 3:
        return [dict(kind='scalar', value=float(x0[0])), dict(kind='array', value=x0[1:n - 1].tolist()),
                dict(kind='scalar', value=float(x0[n - 1]))]
    if layout == 'four' and n >= 6:
        return [dict(kind='array', value=x0[:1].tolist()), dict(kind='array', value=x0[1:5].reshape(2, 2).tolist()),
                dict(kind='scalar', value=float(x0[5]))] + ([dict(kind='array', value=x0[6:].tolist())] if n > 6 else [])
    k = max(1, n // 3)
    parts = [x0[:k], x0[k:2 * k], x0[2 * k:]] if layout == 'three' and n >= 3 else [x0[:k], x0[k:]]
    return [dict(kind='array', value=q.tolist()) for q in parts if q.size]


def convergence_stress(rng):
    """deliberately chosen separable problems sum c_i/x_i (every run; c drawn from the seed): the start is infeasible
    (volume ABOVE maxvol: the move-limited steps must shrink the design and the objective necessarily RISES before the
    optimum is reached; or below maxvol), the objective / step tests are disabled (tolf = 0, tolx = 0) or left at their
    defaults, the optimum is interior or clipped by per-variable bounds, 1..4 variable signals"""
    out = []
    layouts = ['one', 'two', 'three', 'scalars+array', 'four']
    k = 0
    for start, frac0, fracV in (('start above maxvol', 0.5, 0.3), ('start above maxvol', 0.8, 0.35), ('start above maxvol', 0.6, 0.5),
                                ('start below maxvol', 0.2, 0.45), ('start below maxvol', 0.35, 0.6), ('start feasible', 0.4, 0.4)):
        for move in (0.05, 0.2):
            for tol in ('default', 'tolf=0', 'tolf=0,tolx=0', 'tight'):
                k += 1
                n = (6, 3, 8, 5, 2, 7)[k % 6]
                for _ in range(50):
                    c = np.round(rng.uniform(1.0, 9.0, n), 2)
                    V = float(np.round(fracV * n, 3))
                    xs = V * np.sqrt(c) / np.sum(np.sqrt(c))
                    if 0.05 < xs.min() and xs.max() < 0.95:
                        break
                x0 = np.full(n, frac0) if k % 3 else np.round(frac0 + rng.uniform(-0.1, 0.1, n), 2)
                params = dict(xmin=0.01, xmax=1.0, maxvol=V, move=move, maxit=100)
                if tol == 'tolf=0':
                    params.update(tolf=0.0, tolx=1e-6)
                elif tol == 'tolf=0,tolx=0':
                    params.update(tolf=0.0, tolx=0.0, maxit=40)
                elif tol == 'tight':
                    params.update(tolf=1e-12, tolx=1e-7)
                if k % 4 == 0:          # per-variable bounds that clip the optimum of the largest / smallest c
                    xmin, xmax = np.full(n, 0.01), np.full(n, 1.0)
                    xmax[int(np.argmax(c))] = float(np.round(0.8 * xs.max(), 3))
                    xmin[int(np.argmin(c))] = float(np.round(1.2 * xs.min(), 3))
                    x0 = np.clip(x0, xmin, xmax)
                    params.update(xmin=xmin.tolist(), xmax=xmax.tolist())
                out.append(dict(vars=split_vars(rng, x0, layouts[k % 5]), objective='inv', c=c.tolist(), params=params,
                                maxvol_kind='given', convergence_check=True, start=start, tolerances=tol))
    return out


def frozen_stress(rng):
    """deliberately chosen problems with FROZEN variables (xmin[i] == xmax[i]: passive solid / void / intermediate entries), run on
    every seed: frozen entries alone, mixed with free ones in the same signal, a whole signal frozen, all but one, all; the start has
    the prescribed volume (also through the default maxvol) or the target lies below / above it within the move limits; move limits
    0.15 / 0.05 / 0.5; four objective families; bounds handed over as array / list / tuple / strided view / read-only array.
    The volume clause is evaluated on the FULL design vector (frozen entries included)."""
    out = []
    layouts = ['one', 'two', 'three', 'scalars+array', 'four']
    containers = ['array', 'list', 'strided', 'tuple', 'readonly']
    patterns = ('solid-first-of-each-signal', 'solid-some', 'void-some', 'mid-some', 'solid+void', 'zero-some', 'whole-signal',
                'all-but-one', 'all', 'single-variable')
    k = 0
    for pattern in patterns:
        for move in (0.15, 0.05, 0.5):
            for volk in ('start-volume', 'default', 'lower', 'higher'):
                k += 1
                n = 1 if pattern == 'single-variable' else (8, 5, 6, 3, 7, 4)[k % 6]
                layout = layouts[k % 5]
                c = np.round(rng.uniform(1.0, 9.0, n), 2)
                x0 = np.round(rng.uniform(0.25, 0.6, n), 2) if k % 2 else np.full(n, 0.4)
                sizes = [int(np.size(v['value'])) for v in split_vars(rng, x0, layout)]
                firsts = np.concatenate([[0], np.cumsum(sizes)[:-1]]).astype(int)
                fz = np.zeros(n, dtype=bool)
                val = np.full(n, 1.0)
                if pattern == 'solid-first-of-each-signal':
                    fz[firsts] = True
                elif pattern in ('solid-some', 'void-some', 'mid-some', 'solid+void', 'zero-some'):
                    fz[rng.permutation(n)[:max(1, n // 3)]] = True
                    if pattern == 'void-some':
                        val[:] = 0.01
                    elif pattern == 'mid-some':
                        val = np.round(rng.uniform(0.3, 0.8, n), 2)
                    elif pattern == 'solid+void':
                        val = np.where(np.arange(n) % 2 == 0, 1.0, 0.01)
                    elif pattern == 'zero-some':
                        val[:] = 0.0
                elif pattern == 'whole-signal':
                    j = k % len(sizes)
                    fz[firsts[j]:firsts[j] + sizes[j]] = True
                    val = np.round(rng.uniform(0.3, 1.0, n), 2)
                elif pattern == 'all-but-one':
                    fz[:] = True
                    fz[k % n] = n == 1
                    val = np.round(rng.uniform(0.3, 1.0, n), 2)
                else:                                   # 'all', 'single-variable'
                    fz[:] = True
                    val = np.round(rng.uniform(0.3, 1.0, n), 2)
                x0 = np.where(fz, val, x0)
                xmin, xmax = np.where(fz, x0, 0.01), np.where(fz, x0, 1.0)
                kind = 'lin' if pattern == 'zero-some' and k % 2 else 'exp' if pattern == 'zero-some' else ('inv', 'pow', 'inv', 'exp', 'lin')[k % 5]
                nfree = int((~fz).sum())
                params = dict(xmin=xmin.tolist(), xmax=xmax.tolist(), move=move, maxit=6)
                if volk == 'start-volume':
                    params['maxvol'] = float(np.sum(x0))
                elif volk == 'lower':
                    params['maxvol'] = float(np.round(np.sum(x0) - 0.4 * min(move, 0.2) * nfree, 4))
                elif volk == 'higher':
                    params['maxvol'] = float(np.round(np.sum(x0) + 0.4 * min(move, 0.2) * nfree, 4))
                if k % 3 == 0:
                    params.update(tolf=0.0, tolx=0.0)
                prob = dict(vars=split_vars(rng, x0, layout), objective=kind, c=c.tolist(), params=params,
                            maxvol_kind='default' if volk == 'default' else 'given', frozen=pattern, volume=volk,
                            bounds_as=containers[k % 5])
                if kind == 'pow':
                    prob['p'] = (2.0, 0.5, 3.0)[k % 3]
                if len(prob['vars']) > 1 and k % 7 == 0:
                    prob['none_sens'] = [k % len(prob['vars'])]
                if kind == 'inv' and volk in ('start-volume', 'default') and nfree >= 2 and 'none_sens' not in prob:
                    # the separable problem with passive entries: analytic optimum x_i = clip(sqrt(c_i/lam), xmin_i, xmax_i)
                    params.update(maxit=80, tolf=1e-12, tolx=1e-7)
                    prob.update(convergence_check=True, start='frozen variables, start feasible')
                out.append(prob)
    return out


def convergence_problem(rng):
    """sum c_i/x_i with an interior optimum, enough iterations"""
    n = int(rng.integers(2, 8))
    c = np.round(rng.uniform(1.0, 9.0, n), 2)
    V = float(np.round(rng.uniform(0.35, 0.6) * n, 2))
    xs = V * np.sqrt(c) / np.sum(np.sqrt(c))
    if xs.max() > 0.95 or xs.min() < 0.05:
        return None
    x0 = np.full(n, V / n)
    cut = int(rng.integers(1, n)) if n > 1 else 1
    vars_ = [dict(kind='array', value=x0[:cut].tolist())] + ([dict(kind='array', value=x0[cut:].tolist())] if cut < n else [])
    return dict(vars=vars_, objective='inv', c=c.tolist(), params=dict(xmin=0.01, xmax=1.0, maxvol=V, maxit=60, tolx=1e-7, tolf=1e-12),
                maxvol_kind='given', convergence_check=True)


def borderline(prob, rec):
    """the step-size test uses np.linalg.norm, whose float summation order is not modelled: runs in which the test is
    decided by less than 1e-9 relative are not compared"""
    tolx = prob['params'].get('tolx', 1e-4)
    if tolx == 0:
        return False          # `rel_stepsize < 0` is false whatever the summation order of the norms is
    nm = rec['norms']
    for k in range(0, len(nm) - 1, 2):
        if nm[k + 1] == 0:
            return True
        r = nm[k] / nm[k + 1]
        if abs(r - tolx) <= 1e-9 * tolx:
            return True
    return False


def run(ctx):
    import pymoto as pym
    ctx.rule = ('full minimize_oc runs on the real implementation with a recording module in the user\'s network; 1-4 variable signals '
                '(scalars, 1-D and 2-D arrays), scalar/per-variable/default bounds, move limits incl. 0, default/reachable/unreachable '
                'volume targets, objectives sum c/x, sum c x^-p, 10 - w.x, sum c exp(-x), sensitivities that are None; classes: small '
                '(n <= 7), large (8 <= n <= 300: numpy pairwise summation), large-gradient (F19), malformed (positive gradients, None state, l2init <= l1init, '
                'maxit = 0, start outside the box), convergence (sum c/x, feasible start), convergence-stress (48 deliberate sum c/x problems on every run: start '
                'volume above / below / at maxvol so that the objective must rise during the move-limited steps, move 0.05 / 0.2, tolerances default / '
                'tolf=0 / tolf=0,tolx=0 with 40 iterations / tight, interior and bound-clipped optima, 1-4 signals incl. scalars and 2-D; the oracle '
                'demands the final design within 2e-3 of the analytic (KKT) optimum and its volume at maxvol), int-states / mixed-states / f32-states (initial states handed over '
                'as Python int, numpy int32 / int64 / float32 scalars and arrays, alone and mixed with floats; corpus state_kinds.json on every run; the model keeps integers as '
                'integers; for EVERY problem dtype, values and cumulative indices of the design vector that pymoto.utils._concatenate_to_array builds from the initial states '
                'are compared with the typed model of Model/MMAvars.v); every recorded signal state at every response(), every warning and the final states '
                'are compared bit-exactly (binary64) with the Coq model; FROZEN VARIABLES: 120 deliberate problems on every run with xmin[i] == xmax[i] entries '
                '(passive solid = 1, void = 0.01, exactly 0, intermediate values; the first entry of every signal, a third of the entries, a whole signal, all but one, '
                'all, a single variable; start volume = target (also through the default maxvol) / target below / above within the move limits; move 0.15 / 0.05 / 0.5; '
                'four objective families; bounds handed over as array / list / tuple / strided view / read-only array; for sum c/x the final design is compared with the '
                'analytic optimum with passive entries) and 45 % of the generated per-variable bounds freeze some / most / all entries at the start value; the volume '
                'clause is evaluated on the FULL design vector; SEVERAL RUNS PER PROCESS: after every run the three runs before it, and at the end all ~800 runs of the '
                'process, are re-inspected (the variable signals still hold the final design, bound vectors and initial state arrays are unchanged), and every fifth '
                'stress problem is run again at the end of the process and must reproduce its designs; a case is non-trivial when at least one design was written back; '
                'distinct by the full problem description')
    ctx.assumptions += [
        'theorems are over the reals (sqrt = real square root); the binary64 instance of the same model is executed and compared '
        'bit-exactly with the implementation',
        'the network returns sensitivities of the size of the states (premise of C17_iterates_in_box)',
        'volume clause: proved in multiplier space (bracketing); the size of the volume gap for a given l1l2tol is validated, not proved',
        'convergence to the analytic optimum is validated (fixed point is proved)',
        'volume clause demanded when the target is reachable by the update within the move limits and l1init is below the root',
        'l2init is a float (a Python int l2init grown beyond 2^53 by the bracket-growing loop is not modelled)',
        'integer-typed initial states are small integers (1, 2) and float32 states multiples of 1/64, so the conversion to float64 by the concatenation is exact',
        'runs whose step-size test is decided by less than 1e-9 relative are not compared (np.linalg.norm summation order not modelled)']
    ctx.trusted += [
        'Print Assumptions: theorems over R use ClassicalDedekindReals.sig_forall_dec, sig_not_dec, '
        'FunctionalExtensionality.functional_extensionality_dep, Classical_Prop.classic (Coq stdlib Reals); the Concat theorems are closed '
        'under the global context',
        'Coq primitive floats implement IEEE-754 binary64 (+ - * / sqrt, comparisons) like numpy; Base/PyFloat.np_sum reproduces numpy\'s '
        'pairwise summation (validated bit-for-bit on every run)',
        'tools/gen_C17.py (T-real translator of the update formula, bisection step, tests, defaults; literal comparison of the control skeleton)',
        'tools/gen_utils.py (array-bookkeeping dialect for pymoto/utils.py) and the numpy dtype semantics embodied in Model/MMAvars.v (promotion table validated by check C10)',
        'np.linalg.norm is patched from outside during the runs only to record its results (borderline filter)']
    vlib.audit(ctx)
    if not vlib.ensure_static(ctx, ['theories/Props/C17.vo', 'theories/Props/C17b.vo']):
        return
    # ---- (T)
    gen_ok, err = True, ''
    try:
        text = gen_C17.gen(vlib.REPO)
        p = ctx.write_gen('OCGen.v', text)
        gen_ok, _, err = vlib.compile_file(ctx, p, 'gen:OCGen.v compiles', 'translator')
    except py2coq.Unsupported as e:
        ctx.obligation('gen:OCGen.v translation', 'translator', False, str(e))
        gen_ok, err = False, str(e)
    if gen_ok:
        bp = os.path.join(ctx.bridge_dir, 'OCBridge.v')
        gen_ok, _, err = vlib.compile_file(ctx, bp, 'bridge:OCBridge (generated update/bisection/tests/defaults = model)', 'bridge')
    if not gen_ok:
        ctx.violation('proof', 'pymoto/routines.py', 'generated minimize_oc pieces equal Model/OC.v', 'translator/bridge',
                      dict(error=err[-3000:]), theorem='BridgeC17.OCBridge')
    # ---- (T) pymoto/utils.py: the helpers that build the design vector, against the typed model (dtype of every operand)
    import gen_utils
    ok2, err2 = True, ''
    try:
        p = ctx.write_gen('UtilsGen.v', gen_utils.generate(vlib.REPO))
        ok2, _, err2 = vlib.compile_file(ctx, p, 'gen:UtilsGen.v (translated from pymoto/utils.py) compiles', 'translator')
    except py2coq.Unsupported as e:
        ctx.obligation('gen:UtilsGen.v translation of pymoto/utils.py', 'translator', False, str(e))
        ok2, err2 = False, str(e)
    if ok2:
        bp = os.path.join(ctx.bridge_dir, 'UtilsBridge.v')
        ok2, _, err2 = vlib.compile_file(ctx, bp, 'bridge:UtilsBridge (generated _concatenate_to_array / _split_from_array = typed model of Model/MMAvars.v '
                                         '= Model/Concat.v without dtypes; the generated concatenation is float64 for entries of every dtype)', 'bridge')
    if not ok2:
        ctx.violation('proof', 'pymoto/utils.py', 'generated _concatenate_to_array / _split_from_array equal the typed model of Model/MMAvars.v '
                      '(result float64 whatever the dtypes of the entries) and Model/Concat.v', 'translator/bridge', dict(error=err2[-3000:]),
                      theorem='BridgeC17.UtilsBridge.gen_concat_dtype_float64')
    vlib.check_props(ctx)
    vlib.check_props(ctx, 'theories/Props/C17b.v')     # explicit volume-gap bound of one OC step (xmin >= 0)

    rng = np.random.default_rng(ctx.seed)
    problems = []
    if os.path.isdir(CORPUS):
        for fn in sorted(os.listdir(CORPUS)):
            if fn.endswith('.json'):
                for c in json.load(open(os.path.join(CORPUS, fn)))['cases']:
                    c = dict(c)
                    c['corpus'] = fn + ':' + c.get('note', '')
                    problems.append(('corpus', c))
    if ctx.replay:
        try:
            rp = json.load(open(ctx.replay))
            pr = rp.get('case', {}).get('problem') or rp.get('case', {}).get('info', {}).get('problem')
            if pr:
                problems.insert(0, ('replay', pr))
        except Exception:
            pass
    nsmall, nlarge, nmal, nconv = (300, 40, 40, 16) if ctx.quick() else (1500, 160, 200, 60)
    for _ in range(nsmall):
        problems.append(('small', gen_problem(rng, 'small', not ctx.quick())))
    for _ in range(nlarge):
        problems.append(('large', gen_problem(rng, 'large', not ctx.quick())))
    for _ in range(nmal):
        problems.append(('malformed', gen_problem(rng, 'malformed', not ctx.quick())))
    # initial states of every kind: Python int / float, numpy int32 / int64 / float32 / float64 scalars and arrays, alone and mixed
    for nums, cnt in (('int', 40), ('mixed', 30), ('f32', 10)) if ctx.quick() else (('int', 200), ('mixed', 150), ('f32', 50)):
        for _ in range(cnt):
            problems.append((nums + '-states', gen_problem(rng, 'small', not ctx.quick(), state_nums=nums)))
    for _ in range(10 if ctx.quick() else 40):
        lp = gen_problem(rng, 'small', False)
        if lp['objective'] in ('inv', 'pow', 'exp'):
            lp['c'] = [float(t) * float(rng.choice([1e4, 1e5, 1e6])) for t in lp['c']]
            lp['params'].pop('l2init', None)
            problems.append(('large-gradient', lp))
    k = 0
    while k < nconv:
        cp = convergence_problem(rng)
        if cp is not None:
            problems.append(('convergence', cp))
            k += 1
    for cp in convergence_stress(rng):
        problems.append(('convergence-stress', cp))
        ctx.count('convergence-stress:' + cp['start'] + ':' + cp['tolerances'])

    for fp in frozen_stress(rng):
        problems.append(('frozen-stress', fp))
    # the same problems once more at the end of the process (after ~700 other runs): same trajectory as the first time
    repeats = [(c + ':again', json.loads(json.dumps(pb))) for c, pb in problems if c in ('frozen-stress', 'convergence-stress')][::5]
    problems += repeats

    ledger = Ledger()
    first_run = {}
    import pymoto.utils as putils
    DT = {'int32': 'MMAvars.I32', 'int64': 'MMAvars.I64', 'float32': 'MMAvars.F32', 'float64': 'MMAvars.F64'}
    checks, labels, hits = [], [], []
    tchecks, tlabels = [], []
    sum_checks = []
    for cls, prob in problems:
        # the design vector as pymoto.utils._concatenate_to_array builds it from the initial states (dtype, values, indices)
        try:
            tv, tc = putils._concatenate_to_array([build_state(v) for v in prob['vars']])
            tv = np.asarray(tv)
            tdt = DT.get(tv.dtype.name)
            texpr = (f'tconcat_ok [{"; ".join(ts_var(v) for v in prob["vars"])}] false {tdt or "MMAvars.I32"} {fl([float(t) for t in tv])} '
                     f'[{"; ".join(str(int(t)) for t in tc)}]%nat' + ('' if tdt else ' && false'))
            tobs = dict(dtype=tv.dtype.name, values=[float(t) for t in tv], cum=[int(t) for t in tc])
        except ValueError:
            texpr = f'tconcat_ok [{"; ".join(ts_var(v) for v in prob["vars"])}] true MMAvars.F64 [] []'
            tobs = dict(error='ValueError')
        tchecks.append(texpr)
        tlabels.append((cls, prob, tobs))
        for v in prob['vars']:
            ctx.count('state_kind=' + ('none' if v['kind'] == 'none' else v.get('num') or ('pyfloat' if v['kind'] == 'scalar' else 'f64')))
        rec = run_impl(pym, prob)
        ledger.add(cls, prob, rec, hits)
        ledger.inspect(ctx, hits, last=3, after=cls)          # the three runs before this one still hold their results
        if prob.get('frozen'):
            ctx.count(f'frozen:{prob["frozen"]}')
            ctx.count('bounds_as:' + prob.get('bounds_as', 'array'))
        if cls in ('frozen-stress', 'convergence-stress'):
            first_run[json.dumps(prob, sort_keys=True)] = (rec['states'], rec['final'], rec['err'])
        elif cls.endswith(':again'):
            ctx.search_evaluations += 1
            ref = first_run[json.dumps(prob, sort_keys=True)]
            if ref != (rec['states'], rec['final'], rec['err']):
                hits.append((dict(problem=prob, designs=[], history='run at the start of the process and again after all other runs'),
                             'the same problem gives the same designs whenever it is run in the process',
                             f'first run: final {ref[1]}, error {ref[2]}; repeated run: final {rec["final"]}, error {rec["err"]}',
                             'several minimize_oc runs in one process'))
        if borderline(prob, rec):
            ctx.count('discarded:borderline step-size test')
            continue
        x0 = flat_x0(prob)
        n = int(x0.size)
        ctx.count('class:' + cls)
        ctx.count('nvars=%d' % len(prob['vars']))
        ctx.count('n=%s' % (n if n <= 8 else '9-16' if n <= 16 else '17-128' if n <= 128 else '>128'))
        ctx.count('objective:' + prob['objective'])
        ctx.count('bounds:' + ('default' if 'xmin' not in prob['params'] else 'vector' if isinstance(prob['params']['xmin'], list) else 'scalar'))
        ctx.count('maxvol:' + prob.get('maxvol_kind', 'given' if prob['params'].get('maxvol') is not None else 'default'))
        if prob.get('malformed'):
            ctx.count('malformed:' + prob['malformed'])
        R, S = len(rec['states']), len(rec['sens'])
        if rec['err']:
            stopk = 'error:' + rec['err']
        elif R == S + 1:
            stopk = 'tolf'
        elif R == S and R == prob['params'].get('maxit', 100) and rec['final'] != (rec['states'][-1] if rec['states'] else None):
            stopk = 'maxit'
        elif R == S and R == prob['params'].get('maxit', 100):
            stopk = 'maxit-or-tolx'
        else:
            stopk = 'tolx'
        ctx.count('stop:' + stopk)
        ctx.count('warned' if any(rec['warns']) else 'no-warning')
        errc = {None: 0, 'ValueError': 1, 'NameError': 2, 'Timeout': 3}.get(rec['err'], 9)
        pr, mv = coq_params(prob)
        vars_c = '[' + '; '.join(ps_var(v) for v in prob['vars']) + ']'
        obs = []
        for k2 in range(R):
            sens = rec['sens'][k2] if k2 < S else []
            fk = rec['fs'][k2] if k2 < len(rec['fs']) else float('nan')      # response raised inside the user module
            obs.append(f'({fhex(fk)}, {psl(sens)})')
        O = '[' + ';\n   '.join(obs) + ']'
        exp_states = '[' + ';\n   '.join(psl(st) for st in rec['states']) + ']'
        exp_warns = '[' + '; '.join(vlib.blit(w) for w in rec['warns']) + ']'
        expr = (f'run_ok {pr} {mv} {vars_c}\n  {O}\n  {zlit(errc)}\n  {exp_states}\n  {exp_warns} {psl(rec["final"])}'
                f'\n  && flat_ok {pr} {mv} {vars_c} {O}')
        nontrivial = rec['err'] is None and R >= 2 and not cls.endswith(':again')      # a repeated run is not a new case
        key = json.dumps(prob, sort_keys=True)
        checks.append((n, expr))
        labels.append((cls, prob, dict(responses=R, sensitivities=S, err=rec['err'], warns=rec['warns'],
                                       final=[list(c) for c in rec['final']], stop=stopk)))
        ctx.case((cls, key), nontrivial, sample=dict(cls=cls, problem=prob, responses=R, stop=stopk))
        # np.sum model validation on the designs of this run
        for st in rec['states'][:3] + [rec['final']]:
            flat = [t for c in st for t in ([c[1]] if c[0] == 'scalar' else c[1] if c[0] == 'array' else [])]
            if flat and all(math.isfinite(t) for t in flat):
                sum_checks.append(f'PrimFloat.eqb (np_sum {fl(flat)}) {fhex(float(np.sum(np.array(flat, dtype=float))))}')
        oracle(ctx, prob, rec, hits)

    ledger.inspect(ctx, hits, after='all runs of the process')
    ctx.extra['runs_reinspected_at_the_end'] = len(ledger.items)

    # extra validation of the summation model on random arrays of many lengths
    for n in list(range(1, 40)) + [63, 64, 65, 127, 128, 129, 130, 136, 137, 200, 255, 256, 257, 300]:
        a = rng.uniform(0, 1, n) * 10.0 ** rng.integers(-3, 3, n)
        sum_checks.append(f'PrimFloat.eqb (np_sum {fl(a.tolist())}) {fhex(float(np.sum(a)))}')
    ctx.oracle_validation['Base/PyFloat.np_sum == numpy.sum (bit-exact)'] = len(sum_checks)

    # ---- evaluate inside Coq: shard by size
    small = [(i, e) for i, (n, e) in enumerate(checks) if len(e) < 20000]
    big = [(i, e) for i, (n, e) in enumerate(checks) if len(e) >= 20000]
    failing = []
    errs = []
    for name, part, chunk in (('small', small, 40), ('big', big, 3)):
        if not part:
            continue
        f, e = vlib.run_cases(ctx, name, HEADER, [x[1] for x in part], chunk=chunk)
        failing += [part[i][0] for i in f]
        if e:
            errs.append(e)
    fsum, esum = vlib.run_cases(ctx, 'npsum', HEADER, sum_checks, chunk=150)
    if esum:
        errs.append(esum)
    ftc, etc_ = vlib.run_cases(ctx, 'tconcat', HEADER, tchecks, chunk=150)
    if etc_:
        errs.append(etc_)
    ctx.evaluations += len(tchecks)
    err = '\n'.join(errs)
    ctx.obligation('correspondence:case files evaluated', 'correspondence', not err, err)
    if err:
        ctx.violation('correspondence', 'minimize_oc', 'case files compile', 'harness', dict(error=err[-3000:]), theorem='cases_oc')
    for idx in fsum[:5]:
        ctx.violation('correspondence', 'numpy.sum', 'np_sum model == numpy.sum', 'summation order', dict(check=sum_checks[idx][:3000]),
                      note='the pairwise summation model no longer reproduces numpy.sum bit for bit')
    for idx in ftc[:10]:
        cls, prob, tobs = tlabels[idx]
        ctx.violation('correspondence', '_concatenate_to_array', 'typed model == implementation (dtype, values, cumulative indices of the design vector)',
                      cls, dict(problem=prob, observed=tobs, coq_check=tchecks[idx][:3000]),
                      note='the design vector built from the initial states differs from the typed model (float64, every entry converted once)')
    for idx in sorted(failing)[:20]:
        cls, prob, obs = labels[idx]
        ctx.violation('correspondence', 'minimize_oc', 'model == implementation (bit-exact trajectory)', prob.get('malformed', cls),
                      dict(problem=prob, observed=obs, coq_check=checks[idx][1][:3000]), note='Coq model and implementation differ')
    for h in hits[:20]:
        info, pred, msg = h[0], h[1], h[2]
        prob = info['problem']
        icls = h[3] if len(h) > 3 else prob.get('malformed', 'well-formed problem')
        ctx.violation('impl-violates', FINDING_SITE, pred, icls, info, expected=msg)


if __name__ == '__main__':
    vlib.main(run, 'C17')
