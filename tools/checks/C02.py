"""C02 — Network backpropagation yields the total derivative of any module graph.

Theorems: coq/theories/Props/C02.v (about Model/Net.v).  Tie (H): random module graphs are built with the REAL
pymoto.Network / Signal / SignalSlice, run (response, seeds, sensitivity), and the sensitivity of EVERY signal (and, for
linear graphs, every state) is compared inside Coq with the model evaluated by vm_compute.  Every case is also checked
(inside Coq) to satisfy the hypotheses of the theorem (net_ok), so the theorem applies to each compared case.
Oracle: dense forward-mode Jacobian product in numpy (exact) and central differences of the real network response.

Explored on every run (random stream AND a deterministic stress catalogue, see stress_cases):
  * Network construction: print_timing (absent / False / True / 0 / 0.0 / 10.0 / 1e9) on the outer and on inner Networks,
    construction by positional modules / one list / one tuple / append one by one / call syntax / split append, library
    modules given as dictionaries; the option is part of the model (Net.v: NNet tm, SNet tm);
  * slices of 1-, 2- and 3-dimensional signals in every admissible index form (integers, basic slices, index lists and
    arrays, boolean masks, tuples mixing them, all-integer tuples, paired and open-mesh index arrays, Ellipsis, newaxis,
    partial tuples, chains over views), mapped to repeat-free position lists of the flattened array;
  * matrix signals whose sensitivities are DyadCarrier objects: modules that produce DyadCarriers, modules that hand the
    received object through unchanged (to one / two inputs), modules that transform it (scale, transpose, A.T @ d @ B.T),
    DyadCarrier seeds, DyadCarrier contributions into 2-D slices; compared through todense();
  * construction HISTORIES (Model/NetBuild.v; Coq replays the append() calls and evaluates the model on the object they
    produce): every inner Network filled before / after it is placed in its parent (post-order, breadth-first, depth-first,
    random interleavings), evaluations of the partial network between append() calls, shadow networks that share the
    module objects (copy(), a flat Network over the same modules, Network(*inner.mods)) evaluated in between, two design
    iterations, and a pristine reference (the same graph built in one constructor call from fresh objects);
  * modules without outputs (sinks; modules that hand out sensitivities of their own) and without inputs (constants),
    seeds on signals no module touches;
  * user-defined sensitivity types on signals reached along several paths: a class with __iadd__, a sparse class whose
    add_sensitivity() works in place and returns None, a lazy-sum class whose add_sensitivity() returns self; seeds of
    these types; aliasing modules handing them through; observed through the class's own dense view.
"""
import os, io, json, glob, copy, contextlib
from fractions import Fraction
import numpy as np
import vlib
from vlib import zl, zlit

HEADER = '''From Coq Require Import ZArith List Bool.
From Pymoto Require Import Base.Num Base.Cmp Model.Net Model.NetBuild.
Import ListNotations.
Definition csame (a b : list (option (list Z))) : bool := list_eqb (option_eqb Zl_eqb) a b.
Definition shapes_okb (dims : nat -> nat) (c : list (option (list Z))) : bool :=
  forallb (fun p => match snd p with None => true | Some g => Nat.eqb (length g) (dims (fst p)) end)
          (combine (seq 0 (length c)) c).
Definition L (i o : list nat) (n : list bool) (b : list (nat * nat * list (list Z))) : lin Z :=
  {| l_idims := i; l_odims := o; l_none := n; l_blocks := b |}.
(* sensitivities of all signals after response(); seeds; sensitivity() *)
Definition sens_case (N : nat) (dl : list nat) (s : stree Z) (seeds expected : list (option (list Z))) : bool :=
  net_ok N (dims_of dl) s && shapes_okb (dims_of dl) seeds &&
  csame (show_c N (bwd_node (dims_of dl) (to_node s) (cenv_of seeds))) expected.
(* the same for a network put together by a history of append() calls: Coq replays the history (NetBuild.v) *)
Definition P (i : list ref) (o : list nat) (l : lin Z) : @spec Z := (i, o, l).
Definition hist_case (N : nat) (dl : list nat) (pool : list (option (obj (@spec Z)))) (ops : list bop)
           (seeds expected : list (option (list Z))) : bool :=
  match sbuilt ops pool with
  | Some o => sens_case N dl (obj_stree o) seeds expected
  | None => false
  end.
(* networks containing modules that hand out sensitivities of their own (not adjoint pairs: outside net_ok); the wiring
   discipline is checked, then model == implementation *)
Definition raw_case (N : nat) (dl : list nat) (pool : list (option (obj (module Z)))) (ops : list bop)
           (seeds expected : list (option (list Z))) : bool :=
  match mbuilt ops pool with
  | Some o => wf_net (flatten (obj_node o)) && below N (flatten (obj_node o)) && shapes_okb (dims_of dl) seeds &&
              csame (show_c N (bwd_obj (dims_of dl) o (cenv_of seeds))) expected
  | None => false
  end.
(* states of all signals after response() (graphs of linear modules) *)
Definition state_case (N : nat) (s : stree Z) (init expected : list (list Z)) : bool :=
  Zll_eqb (show_t N (fwd_node (to_node s) (env_of init))) expected.
'''

EINSUMS = ['i->', 'i,i->i', 'i,i->', 'i,j->ij', 'ij,j->i', 'ii->', 'ij->ji', 'ij,ij->ij', 'ij->']
LINEAR_KINDS = {'lin', 'id', 'add', 'concat'}


# ----------------------------------------------------------------------------- case description helpers
def size_of(shape):
    n = 1
    for d in shape:
        n *= d
    return n


def to_index(level):
    t = level['t']
    if t == 'basic':
        return slice(level['start'], level['stop'], level['step'])
    if t == 'int':
        return level['i']
    if t == 'ints':
        return np.array(level['idx'], dtype=int)
    if t == 'mask':
        return np.array(level['m'], dtype=bool)
    if t == 'list':                     # a python list (possibly nested) used as index
        return copy.deepcopy(level['idx'])
    if t == 'ellipsis':
        return Ellipsis
    if t == 'newaxis':
        return None
    if t == 'tuple':
        return tuple(to_index(x) for x in level['items'])
    raise ValueError(t)


def to_level(ix):
    """inverse of to_index: the JSON description of a python/numpy index object"""
    if isinstance(ix, tuple):
        return dict(t='tuple', items=[to_level(x) for x in ix])
    if isinstance(ix, slice):
        return dict(t='basic', start=ix.start, stop=ix.stop, step=ix.step)
    if ix is Ellipsis:
        return dict(t='ellipsis')
    if ix is None:
        return dict(t='newaxis')
    if isinstance(ix, list):
        return dict(t='list', idx=copy.deepcopy(ix))
    if isinstance(ix, np.ndarray):
        if ix.dtype == bool:
            return dict(t='mask', m=ix.astype(int).tolist())
        return dict(t='ints', idx=ix.tolist())
    return dict(t='int', i=int(ix))


def ref_positions(shape, levels):
    """flat positions selected by the chain of slices, the shape of the selection, and whether writes through
    the chain reach the base array (every inner level is a numpy view)"""
    a = np.arange(size_of(shape)).reshape(shape)
    cur = a
    writable = True
    for k, lv in enumerate(levels):
        nxt = cur[to_index(lv)]
        if k < len(levels) - 1 and not (isinstance(nxt, np.ndarray) and np.shares_memory(nxt, a)):
            writable = False
        cur = nxt
    cur = np.asarray(cur)
    return [int(v) for v in cur.ravel()], list(cur.shape), writable


FULL = dict(t='basic', start=None, stop=None, step=1)


def admissible(shape, levels):
    """the slice chain is inside the domain of the theorem (wt_ref): it selects at least one position, pairwise
    different positions, and writes through the chain reach the base array"""
    try:
        pos, _, writable = ref_positions(shape, levels)
    except (IndexError, ValueError, TypeError):
        return False
    return writable and len(pos) > 0 and len(set(pos)) == len(pos)


def _basic(rng, n):
    if rng.random() < 0.25:
        st = rng.choice([-1, -2, 2, 3])
    else:
        st = 1
    for _ in range(20):
        a, b = rng.randint(0, n), rng.randint(0, n)
        if st < 0:
            a, b = max(a, b), min(a, b)
            lv = dict(t='basic', start=(a - 1 if a > 0 else None), stop=(b - 1 if b > 0 else None), step=st)
        else:
            a, b = min(a, b), max(a, b)
            lv = dict(t='basic', start=a if rng.random() < 0.8 else (a - n if a < n else a), stop=b, step=st)
        if len(range(n)[to_index(lv)]) > 0:
            return lv
    return dict(FULL)


def _ints(rng, n, k=None, t='ints'):
    k = rng.randint(1, n) if k is None else k
    idx = rng.sample(range(n), k)
    if rng.random() < 0.3:
        idx = [i - n if rng.random() < 0.5 else i for i in idx]  # negative positions address the same entries
    return dict(t=t, idx=idx)


def _mask(rng, n):
    m = [rng.random() < 0.5 for _ in range(n)]
    if not any(m):
        m[rng.randrange(n)] = True
    return dict(t='mask', m=[int(b) for b in m])


def _adv(rng, n):
    """an advanced (copying) index for one axis: index array, index list or boolean mask"""
    r = rng.random()
    if r < 0.4:
        return _ints(rng, n)
    if r < 0.75:
        return _ints(rng, n, t='list')
    return _mask(rng, n)


def _draw_1d(rng, n):
    r = rng.random()
    if r < 0.22:
        return 'basic', [_basic(rng, n)]
    if r < 0.36:
        return 'int-array', [_ints(rng, n)]
    if r < 0.42:
        return 'int-list', [_ints(rng, n, t='list')]
    if r < 0.50:
        return 'mask', [_mask(rng, n)]
    if r < 0.58:
        return 'scalar-index', [dict(t='int', i=rng.randrange(-n, n))]
    if r < 0.68:
        l1 = _basic(rng, n)
        return 'nested-basic', [l1, _basic(rng, len(range(n)[to_index(l1)]))]
    if r < 0.76:
        l1 = _basic(rng, n)
        return 'basic-then-array', [l1, _ints(rng, len(range(n)[to_index(l1)]))]
    if r < 0.86:      # a 1-tuple around any of the single forms
        inner = rng.choice([_basic(rng, n), _ints(rng, n), _ints(rng, n, t='list'), _mask(rng, n),
                            dict(t='int', i=rng.randrange(-n, n))])
        return '1d-tuple', [dict(t='tuple', items=[inner])]
    if r < 0.91:      # a 2-D index array: the value of the slice is a matrix
        k = rng.choice([x for x in (2, 4, 6) if x <= n] or [1])
        idx = rng.sample(range(n), k)
        rows = 2 if k % 2 == 0 and rng.random() < 0.7 else 1
        return '1d-index-matrix', [dict(t='ints', idx=[idx[i * (k // rows):(i + 1) * (k // rows)] for i in range(rows)])]
    if r < 0.96:
        inner = rng.choice([_basic(rng, n), dict(t='int', i=rng.randrange(-n, n)), _ints(rng, n, t='list')])
        items = [dict(t='ellipsis'), inner] if rng.random() < 0.5 else [inner, dict(t='ellipsis')]
        return '1d-ellipsis', [dict(t='tuple', items=items)]
    items = [_basic(rng, n)]
    items.insert(rng.randint(0, 1), dict(t='newaxis'))
    return '1d-newaxis', [dict(t='tuple', items=items)]


ND_FORMS = [('row', 5), ('rows-array', 4), ('rows-list', 3), ('rows-mask', 3), ('mask-full', 4), ('tuple-slices', 9),
            ('tuple-int-slice', 8), ('tuple-all-int', 8), ('tuple-slice-adv', 10), ('tuple-int-adv', 8),
            ('tuple-adv-pairs', 8), ('tuple-open-mesh', 6), ('tuple-ellipsis', 5), ('tuple-newaxis', 3),
            ('tuple-partial', 3), ('chain-row-then-basic', 4), ('chain-view-then-index', 9)]


def _draw_nd(rng, shape):
    import itertools
    nd = len(shape)

    def sl(ax):
        return _basic(rng, shape[ax]) if rng.random() < 0.6 else dict(FULL)

    def it(ax):
        return dict(t='int', i=rng.randrange(-shape[ax], shape[ax]))

    def anyof(ax):
        return rng.choice([sl, it, lambda a: _adv(rng, shape[a])])(ax)
    form = rng.choices([f for f, _ in ND_FORMS], [w for _, w in ND_FORMS])[0]
    tup = lambda items: [dict(t='tuple', items=items)]
    if form == 'row':
        return form, [it(0)]
    if form == 'rows-array':
        return form, [_ints(rng, shape[0])]
    if form == 'rows-list':
        return form, [_ints(rng, shape[0], t='list')]
    if form == 'rows-mask':
        return form, [_mask(rng, shape[0])]
    if form == 'mask-full':
        bits = [int(rng.random() < 0.5) for _ in range(size_of(shape))]
        if not any(bits):
            bits[rng.randrange(len(bits))] = 1
        return form, [dict(t='mask', m=np.array(bits).reshape(shape).tolist())]
    if form == 'tuple-slices':
        return form, tup([sl(ax) for ax in range(nd)])
    if form == 'tuple-int-slice':
        axes = rng.sample(range(nd), rng.randint(1, nd - 1))
        return form, tup([it(ax) if ax in axes else sl(ax) for ax in range(nd)])
    if form == 'tuple-all-int':
        return form, tup([it(ax) for ax in range(nd)])
    if form == 'tuple-slice-adv':
        a = rng.randrange(nd)
        return form, tup([_adv(rng, shape[ax]) if ax == a else sl(ax) for ax in range(nd)])
    if form == 'tuple-int-adv':
        a, b = rng.sample(range(nd), 2)
        return form, tup([_adv(rng, shape[ax]) if ax == a else it(ax) if ax == b else rng.choice([sl, it])(ax)
                          for ax in range(nd)])
    if form == 'tuple-adv-pairs':       # U[rows, cols]: index arrays/lists broadcast against each other
        axes = sorted(rng.sample(range(nd), rng.randint(2, nd)))
        combos = list(itertools.product(*[range(shape[a]) for a in axes]))
        pts = rng.sample(combos, rng.randint(1, min(4, len(combos))))
        items = []
        for ax in range(nd):
            if ax in axes:
                col = [p[axes.index(ax)] for p in pts]
                if rng.random() < 0.3:
                    col = [c - shape[ax] if rng.random() < 0.5 else c for c in col]
                items.append(dict(t=rng.choice(['ints', 'list']), idx=col))
            else:
                items.append(rng.choice([sl, it])(ax))
        return form, tup(items)
    if form == 'tuple-open-mesh':       # U[np.ix_(rows, cols)]
        a, b = sorted(rng.sample(range(nd), 2))
        ra = rng.sample(range(shape[a]), rng.randint(1, shape[a]))
        rb = rng.sample(range(shape[b]), rng.randint(1, shape[b]))
        items = []
        for ax in range(nd):
            if ax == a:
                items.append(dict(t=rng.choice(['ints', 'list']), idx=[[r] for r in ra]))
            elif ax == b:
                items.append(dict(t=rng.choice(['ints', 'list']), idx=[rb]))
            else:
                items.append(rng.choice([sl, it])(ax))
        return form, tup(items)
    if form == 'tuple-ellipsis':
        r = rng.random()
        if r < 0.4:
            items = [dict(t='ellipsis'), anyof(nd - 1)]
        elif r < 0.8:
            items = [anyof(0), dict(t='ellipsis')]
        else:
            items = [anyof(0), dict(t='ellipsis'), anyof(nd - 1)]
        return form, tup(items)
    if form == 'tuple-newaxis':
        items = [rng.choice([sl, it])(ax) for ax in range(nd)]
        items.insert(rng.randint(0, nd), dict(t='newaxis'))
        return form, tup(items)
    if form == 'tuple-partial':
        return form, tup([anyof(ax) for ax in range(rng.randint(1, nd - 1))])
    if form == 'chain-row-then-basic':
        return form, [it(0), _basic(rng, shape[1])]
    # a view (tuple of basic slices), then any index form of the view
    l1 = dict(t='tuple', items=[sl(ax) for ax in range(nd)])
    _, vshape, _ = ref_positions(shape, [l1])
    if len(vshape) == 0 or min(vshape) == 0:
        return 'tuple-slices', [l1]
    _, l2 = _draw_levels(rng, tuple(vshape))
    return form, [l1] + l2[:1]


def _draw_levels(rng, shape):
    return _draw_1d(rng, shape[0]) if len(shape) == 1 else _draw_nd(rng, shape)


def rand_levels(rng, shape, stats):
    """a random admissible slice chain for a signal of this shape (C18 domain; every index form numpy offers: integers,
    basic slices, index arrays / lists, boolean masks, tuples mixing them, all-integer tuples, paired and open-mesh
    index arrays, Ellipsis, newaxis, partial tuples, chains over views); None when the signal cannot be sliced"""
    if len(shape) == 0:
        return None
    for _ in range(30):
        label, levels = _draw_levels(rng, shape)
        if admissible(shape, levels):
            stats('slice:' + label)
            return levels
        stats('slice-redrawn:' + label)
    stats('slice:full')
    return [dict(FULL)]


def is_nonlinear(m):
    return m['kind'] in ('sq', 'mul', 'const') or (m['kind'] == 'einsum' and ',' in m['expr'])


PT_VALUES = [True, True, 0.0, 10.0, 0, 1e9, False]
CTORS = ['args', 'args', 'list', 'tuple', 'append', 'call', 'split']
DENSE, ANYCAP, DYCAP = ('dense', 'slice2d'), ('dense', 'slice2d', 'dyad'), ('dyad', 'slice2d')


def rand_net_opts(rng, stats, p=0.45):
    """construction options of one Network: {} = Network(*mods) with the default print_timing"""
    o = {}
    if rng.random() < p:
        o['print_timing'] = rng.choice(PT_VALUES)
    if rng.random() < 0.4:
        o['ctor'] = rng.choice(CTORS)
    stats('print_timing:' + repr(o.get('print_timing', 'default')))
    stats('ctor:' + o.get('ctor', 'args'))
    return o


def gen_case(rng, stats):
    sigs, sources = [], {}
    matrix_mode = rng.random() < 0.3          # biased towards matrix signals and DyadCarrier sensitivities
    stats('mode:matrix' if matrix_mode else 'mode:general')

    def new_sig(shape, dyad=0):
        sigs.append(dict(shape=list(shape), dyad=int(dyad)) if dyad else dict(shape=list(shape)))
        return len(sigs) - 1

    def rand_shape():
        r = rng.random()
        if matrix_mode:
            if r < 0.05:
                return ()
            if r < 0.25:
                return (rng.randint(1, 4),)
            if r < 0.92:
                return (rng.randint(1, 3), rng.randint(1, 3))
            return (rng.randint(1, 2), rng.randint(1, 3), rng.randint(1, 2))      # at most 12 entries per signal
        if r < 0.08:
            return ()
        if r < 0.62:
            return (rng.randint(1, 4),)
        if r < 0.92:
            return (rng.randint(1, 3), rng.randint(1, 4))
        return (rng.randint(1, 2), rng.randint(1, 3), rng.randint(1, 2))

    p_dy = 0.6 if matrix_mode else 0.12

    def small():
        return rng.randint(-2, 2)

    for k in range(rng.randint(1, 3) + (1 if matrix_mode else 0)):
        sh = rand_shape()
        s = new_sig(sh, dyad=(k > 0 and len(sh) == 2 and rng.random() < p_dy))
        sources[s] = [rng.randint(-3, 3) for _ in range(size_of(sigs[s]['shape']))]
    avail = sorted(sources)
    nmods = rng.randint(2, 9)
    mods = []

    def pick_ref(want_shape=None, allow_slice=True, caps=DENSE, rank=None):
        """a reference to an available signal; optionally one whose value has exactly this shape / rank.
        cap: 'dyad' = whole matrix signal whose sensitivity is a DyadCarrier (its consumers must contribute DyadCarriers;
        never sliced), 'slice2d' = matrix-valued slice of a dense signal (takes dense and DyadCarrier contributions),
        'dense' = anything else (dense contributions only)"""
        for _ in range(16):
            s = rng.choice(avail)
            shape = tuple(sigs[s]['shape'])
            levels = None
            if sigs[s].get('dyad'):
                if 'dyad' not in caps:
                    continue
            elif allow_slice and rng.random() < 0.4:
                levels = rand_levels(rng, shape, stats)
            if levels:
                _, vshape, _ = ref_positions(shape, levels)
            else:
                vshape = list(shape)
            cap = 'dyad' if sigs[s].get('dyad') else ('slice2d' if levels and len(vshape) == 2 else 'dense')
            if cap not in caps:
                continue
            if rank is not None and len(vshape) != rank:
                continue
            if want_shape is None or tuple(vshape) == tuple(want_shape):
                return dict(sig=s, levels=levels), tuple(vshape), cap
        for s in avail:          # no luck: the first whole signal that fits (the first source always takes dense contributions)
            shape = tuple(sigs[s]['shape'])
            cap = 'dyad' if sigs[s].get('dyad') else 'dense'
            if cap in caps and (rank is None or len(shape) == rank) and (want_shape is None or shape == tuple(want_shape)):
                return dict(sig=s, levels=None), shape, cap
        return None, None, None

    def out_dyad(caps_in, oshape):
        """is the output of a pass-through module a DyadCarrier-typed signal?  It must be when an input is, it cannot
        be when an input only takes dense contributions"""
        if len(oshape) != 2 or 'dense' in caps_in:
            return 0
        if 'dyad' in caps_in:
            return 1
        return int(rng.random() < 0.5)

    def emits(cap):
        return 1 if cap == 'dyad' else int(cap == 'slice2d' and rng.random() < 0.4)

    kinds = ['lin', 'id', 'add', 'sq', 'mul', 'einsum', 'concat', 'scale', 'transpose', 'sandwich', 'bilin']
    weights = [26, 10, 14, 3, 3, 5, 3, 7, 7, 10, 12] if matrix_mode else [36, 7, 8, 10, 8, 14, 9, 2, 2, 2, 2]
    nonlin = 0
    for _ in range(nmods):
        kind = rng.choices(kinds, weights)[0]
        m = None
        odyad = None
        if nonlin >= 3 and kind in ('sq', 'mul', 'einsum'):
            kind = 'lin'          # at most 3 quadratic modules: the seeded response has degree <= 8 in every source entry
        if kind == 'lin':
            nin, nout = rng.choice([1, 1, 2, 2, 3]), rng.choice([1, 1, 1, 2])
            ins, ishapes, emit = [], [], []
            for k in range(nin):
                if k > 0 and rng.random() < 0.25:
                    ins.append(copy.deepcopy(ins[-1])); ishapes.append(ishapes[-1]); emit.append(emit[-1])  # the same signal twice
                    stats('same-signal-twice')
                else:
                    r, sh, cap = pick_ref(caps=ANYCAP)
                    ins.append(r); ishapes.append(sh); emit.append(emits(cap))
            oshapes = [rand_shape() for _ in range(nout)]
            odyad = [int(len(sh) == 2 and rng.random() < (0.5 if matrix_mode else 0.15)) for sh in oshapes]
            none = [rng.random() < 0.08 for _ in range(nin)]
            blocks = []
            for o in range(nout):
                for i in range(nin):
                    if rng.random() < 0.75 and not none[i]:
                        blocks.append([o, i, [[small() for _ in range(size_of(ishapes[i]))]
                                              for _ in range(size_of(oshapes[o]))]])
            if rng.random() < 0.15 and blocks:
                blocks.append(copy.deepcopy(rng.choice(blocks)))      # two blocks for the same (o, i) add up
            m = dict(kind='lin', ins=ins, oshapes=[list(s) for s in oshapes], none=[int(b) for b in none], blocks=blocks)
            if any(emit):
                m['emit'] = emit
                m['decomp'] = rng.choice(['rows', 'cols'])
        elif kind in ('id', 'scale', 'transpose'):
            r, sh, cap = pick_ref(caps=ANYCAP, rank=2 if kind == 'transpose' else None)
            if r is None:
                kind = 'id'
                r, sh, cap = pick_ref(caps=ANYCAP)
            osh = tuple(reversed(sh)) if kind == 'transpose' else sh
            m = dict(kind=kind, ins=[r], oshapes=[list(osh)])
            if kind == 'scale':
                m['c'] = rng.choice([-2, -1, 2, 3, 1, 0])
            odyad = [out_dyad([cap], osh)]
        elif kind in ('add', 'mul'):
            r1, sh, cap1 = pick_ref(caps=ANYCAP if kind == 'add' else DENSE)
            cap2 = cap1
            if rng.random() < 0.3:
                r2 = copy.deepcopy(r1); stats('same-signal-twice')
            else:
                want = DENSE if kind == 'mul' else {'dyad': DYCAP, 'dense': DENSE, 'slice2d': ANYCAP}[cap1]
                r2, _, cap2 = pick_ref(want_shape=sh, caps=want)
            if r2 is None:
                r2, cap2 = copy.deepcopy(r1), cap1
            m = dict(kind=kind, ins=[r1, r2], oshapes=[list(sh)])
            if kind == 'add':
                odyad = [out_dyad([cap1, cap2], sh)]
        elif kind == 'sandwich':        # Y = A X B
            r, sh, cap = pick_ref(caps=ANYCAP, rank=2)
            if r is not None:
                p_, q_ = rng.randint(1, 3), rng.randint(1, 3)
                m = dict(kind='sandwich', ins=[r], oshapes=[[p_, q_]],
                         A=[[small() for _ in range(sh[0])] for _ in range(p_)],
                         B=[[small() for _ in range(q_)] for _ in range(sh[1])])
                odyad = [out_dyad([cap], (p_, q_))]
        elif kind == 'bilin':           # y_a = u_a^T X v_a; the sensitivity is sum_a w_a u_a (x) v_a
            r, sh, cap = pick_ref(caps=ANYCAP, rank=2)
            if r is not None:
                p_ = rng.randint(1, 3)
                m = dict(kind='bilin', ins=[r], oshapes=[[] if p_ == 1 and rng.random() < 0.5 else [p_]],
                         U=[[small() for _ in range(sh[0])] for _ in range(p_)],
                         V=[[small() for _ in range(sh[1])] for _ in range(p_)], emit=[emits(cap)])
        elif kind == 'sq':
            r, sh, _ = pick_ref()
            m = dict(kind='sq', ins=[r], oshapes=[list(sh)])
        elif kind == 'concat':
            ins, tot = [], 0
            for _ in range(rng.randint(1, 3)):
                r, sh, _ = pick_ref()
                ins.append(r); tot += size_of(sh)
            m = dict(kind='concat', ins=ins, oshapes=[[tot]])
            if rng.random() < 0.3:
                m['as_dict'] = 1
        elif kind == 'einsum':
            expr = rng.choice(EINSUMS)
            ops = expr.split('->')[0].split(',')
            letters, ins, ok = {}, [], True
            for op in ops:
                want = None
                # find a reference of the right rank whose extents agree with the letters bound so far
                for _ in range(15):
                    r, sh, _ = pick_ref()
                    if len(sh) != len(op):
                        continue
                    if all(letters.get(c, d) == d for c, d in zip(op, sh)) and all(sh[a] == sh[b] for a in range(len(op)) for b in range(len(op)) if op[a] == op[b]):
                        want = (r, sh)
                        break
                if want is None:
                    ok = False
                    break
                ins.append(want[0])
                for c, d in zip(op, want[1]):
                    letters[c] = d
            if ok:
                out = expr.split('->')[1]
                m = dict(kind='einsum', expr=expr, ins=ins, oshapes=[[letters[c] for c in out]])
                if rng.random() < 0.3:
                    m['as_dict'] = 1
        if m is None:       # fall back to a small linear module
            r, sh, _ = pick_ref()
            osh = rand_shape()
            m = dict(kind='lin', ins=[r], oshapes=[list(osh)], none=[0],
                     blocks=[[0, 0, [[small() for _ in range(size_of(sh))] for _ in range(size_of(osh))]]])
            odyad = None
        if is_nonlinear(m):
            nonlin += 1
        m['outs'] = [new_sig(s, dyad=(odyad[i] if odyad else 0)) for i, s in enumerate(m['oshapes'])]
        for o in m['outs']:
            if sigs[o].get('dyad'):
                stats('dyad-signal:' + m['kind'])
        if any(m.get('emit', [])):
            stats('dyad-emitter:' + m['kind'])
        mods.append(m)
        avail += m['outs']

    # nesting: consecutive chunks wrapped into inner Networks, each with its own construction options
    def nest(lst, depth):
        if depth == 0 or len(lst) == 0 or rng.random() < 0.35:
            return list(lst)
        out, k = [], 0
        while k < len(lst):
            w = rng.randint(1, max(1, len(lst) - k))
            chunk = lst[k:k + w]
            if rng.random() < 0.5:
                sub = nest(chunk, depth - 1)
                o = rand_net_opts(rng, stats, p=0.35)
                out.append(dict(o, mods=sub) if o else sub)
            else:
                out += chunk
            k += w
        if rng.random() < 0.08:
            out.insert(rng.randint(0, len(out)), [])          # an empty inner Network
        return out
    tree = nest(list(range(len(mods))), 3)
    net = rand_net_opts(rng, stats)

    # seeds: mostly outputs nobody reads, sometimes intermediates or sources; sometimes nothing at all
    read = {r['sig'] for m in mods for r in m['ins']}
    seeds, seed_uv = {}, {}
    for s in range(len(sigs)):
        if s in sources:
            p = 0.06
        elif s in read:
            p = 0.15
        else:
            p = 0.65
        if rng.random() < p:
            if sigs[s].get('dyad'):     # the user seeds a DyadCarrier
                n_, m_ = sigs[s]['shape']
                uv = [[[small() for _ in range(n_)], [small() for _ in range(m_)]] for _ in range(rng.randint(1, 2))]
                seed_uv[s] = uv
                seeds[s] = [int(x) for x in sum(np.outer(u, v) for u, v in uv).ravel()]
            else:
                seeds[s] = [rng.randint(-3, 3) for _ in range(size_of(sigs[s]['shape']))]
    case = dict(signals=sigs, sources={str(k): v for k, v in sources.items()}, modules=mods, tree=tree,
                seeds={str(k): v for k, v in seeds.items()})
    if net:
        case['net'] = net
    if seed_uv:
        case['seed_uv'] = {str(k): v for k, v in seed_uv.items()}
    return case


# ----------------------------------------------------------------------------- construction histories
def tree_node(case, path):
    t = case['tree']
    for k in path:
        t = tree_items(t)[k]
    return t


def tree_paths(case):
    """all members of all networks of the tree in pre-order: (path, node); the outer network is path ()"""
    out = []

    def go(t, p):
        for k, x in enumerate(tree_items(t)):
            out.append((p + (k,), x))
            if not isinstance(x, int):
                go(x, p + (k,))
    go(case['tree'], ())
    return out


def make_history(case, order, rng=None, every=0, shadows=(), p_eval=0.0, p_shadow=0.0):
    """the order of the append() calls that put the network together (members of one network in member order, any
    interleaving between networks).  'post': every inner network is filled before it is placed in its parent;
    'bfs': every network receives all its members while its inner networks are still empty, these are filled afterwards;
    'dfs': an inner network is placed (empty) in its parent and filled right away, before the next sibling arrives;
    'random': random interleaving.  ['e'] = the partial outer network is evaluated (one design iteration) at that
    moment, ['s', kind] = a shadow network sharing the module objects is built and evaluated."""
    nets = [()] + [p for p, x in tree_paths(case) if not isinstance(x, int)]
    nchild = {p: len(tree_items(tree_node(case, p))) for p in nets}
    ev = []
    if order == 'post':
        def go(p):
            for k in range(nchild[p]):
                c = p + (k,)
                if c in nchild:
                    go(c)
                ev.append(['a', list(c)])
        go(())
    elif order == 'dfs':
        def go(p):
            for k in range(nchild[p]):
                c = p + (k,)
                ev.append(['a', list(c)])
                if c in nchild:
                    go(c)
        go(())
    elif order == 'bfs':
        queue = [()]
        while queue:
            p = queue.pop(0)
            for k in range(nchild[p]):
                c = p + (k,)
                ev.append(['a', list(c)])
                if c in nchild:
                    queue.append(c)
    elif order == 'random':
        nxt = {p: 0 for p in nets}
        while True:
            todo = [p for p in nets if nxt[p] < nchild[p]]
            if not todo:
                break
            p = rng.choice(todo)
            ev.append(['a', list(p + (nxt[p],))])
            nxt[p] += 1
            if rng.random() < p_eval:
                ev.append(['e'])
            if rng.random() < p_shadow:
                ev.append(['s', rng.choice(SHADOWS)])
    else:
        raise ValueError(order)
    if every or shadows:
        out, sh = [], list(shadows)
        for i, e in enumerate(ev):
            out.append(e)
            if every and (i + 1) % every == 0:
                out.append(['e'])
                if sh:
                    out.append(['s', sh.pop(0)])
        ev = out + [['s', k] for k in sh]
    return ev


def coq_pool(case, states):
    """pool of objects and Attach operations of Model/NetBuild.v for the history of the case (without one: every
    network filled before it is nested).  raw: leaves are modules (a sensitivity-injecting module is not a block-matrix
    module), else block-matrix specs."""
    raw = any(m['kind'] == 'inject' for m in case['modules'])
    leaves = []
    for m in case['modules']:
        refs = '; '.join(coq_ref(case, r) for r in m['ins'])
        if m['kind'] == 'inject':
            d = '; '.join('None' if d is None else f'Some {zl(d)}' for d in m['d'])
            leaves.append(f'OLeaf (injmod [{refs}] [{d}]%Z)')
            continue
        blocks, idims, odims, none = jac_blocks(case, m, states)
        bl = '[' + '; '.join(f'({o}, {i}, {zl(M)}%Z)' for o, i, M in blocks) + ']'
        L = f"(L {nl(idims)} {nl(odims)} [{'; '.join('true' if b else 'false' for b in none)}] {bl})"
        leaves.append(f"OLeaf (linmod [{refs}] {nl(m['outs'])} {L})" if raw else f"OLeaf (P [{refs}] {nl(m['outs'])} {L})")
    nodes = tree_paths(case)
    ident = {(): 0}
    pool = [f"Some (new_net {coq_timing(case.get('net', {}))})"]
    for i, (pth, x) in enumerate(nodes):
        ident[pth] = i + 1
        pool.append(f'Some ({leaves[x]})' if isinstance(x, int) else f'Some (new_net {coq_timing(tree_opts(x))})')
    loc = {pth: (ident[pth], ()) for pth in ident}
    ops = []
    for ev in (case.get('history') or make_history(case, 'post')):
        if ev[0] != 'a':
            continue
        c = tuple(ev[1])
        r, q = loc[c[:-1]]
        ops.append(f'Attach {ident[c]} {r} {nl(q)}')
        for pth in loc:
            if loc[pth][0] == ident[c]:
                loc[pth] = (r, q + (c[-1],) + loc[pth][1])
    return raw, '[' + '; '.join(pool) + ']', '[' + '; '.join(ops) + ']'


# ----------------------------------------------------------------------------- deterministic stress catalogue
def _mat(r, c, k):
    """a fixed r x c matrix of small integers"""
    M = [[((a * a + 3 * a + 2 * b + k + a * b) % 5) - 2 for b in range(c)] for a in range(r)]
    for a, row in enumerate(M):
        if c and not any(row):
            row[(a + k) % c] = 1        # no vanishing rows: every output depends on its input
    return M


def _vec(n, k):
    return [((2 * a + 3 * k + 1) % 7) - 3 for a in range(n)]


class CaseBuilder:
    """writes the same case description as gen_case, from explicit choices"""
    def __init__(self):
        self.sigs, self.sources, self.mods = [], {}, []

    def sig(self, shape, dyad=0):
        self.sigs.append(dict(shape=list(shape), dyad=1) if dyad else dict(shape=list(shape)))
        return len(self.sigs) - 1

    def src(self, shape, dyad=0, layout=None):
        s = self.sig(shape, dyad)
        self.sources[str(s)] = _vec(size_of(shape), s)
        if layout:
            self.sigs[s]['layout'] = layout
        return s

    def ref(self, s, *index):
        return dict(sig=s, levels=[to_level(ix) for ix in index] or None)

    def vshape(self, r):
        return tuple(ref_positions(tuple(self.sigs[r['sig']]['shape']), r['levels'] or [])[1])

    def mod(self, kind, ins, oshapes, odyad=None, **extra):
        ins = [self.ref(r) if isinstance(r, int) else r for r in ins]
        m = dict(kind=kind, ins=ins, oshapes=[list(sh) for sh in oshapes], **extra)
        m['outs'] = [self.sig(sh, (odyad or [0] * len(oshapes))[i]) for i, sh in enumerate(oshapes)]
        self.mods.append(m)
        return m['outs'][0] if len(m['outs']) == 1 else m['outs']

    def lin(self, ins, oshapes, odyad=None, emit=None, decomp='rows'):
        ins = [self.ref(r) if isinstance(r, int) else r for r in ins]
        k = len(self.mods)
        blocks = [[o, i, _mat(size_of(osh), size_of(self.vshape(r)), k + o + 2 * i)]
                  for o, osh in enumerate(oshapes) for i, r in enumerate(ins)]
        extra = dict(emit=emit, decomp=decomp) if emit else {}
        return self.mod('lin', ins, oshapes, odyad, none=[0] * len(ins), blocks=blocks, **extra)

    def bilin(self, r, p, emit=1, scalar=False):
        r = self.ref(r) if isinstance(r, int) else r
        n, m = self.vshape(r)
        k = len(self.mods)
        return self.mod('bilin', [r], [[] if scalar else [p]], U=_mat(p, n, k + 1), V=_mat(p, m, k + 3), emit=[emit])

    def sandwich(self, r, p, q, odyad=0):
        r = self.ref(r) if isinstance(r, int) else r
        n, m = self.vshape(r)
        k = len(self.mods)
        return self.mod('sandwich', [r], [[p, q]], [odyad], A=_mat(p, n, k), B=_mat(m, q, k + 2))

    def acc(self, s, kind):
        """signal s carries sensitivities of the user-defined type `kind` (see ACC)"""
        self.sigs[s]['acc'] = kind
        return s

    def case(self, seeds, tree=None, net=None, seed_uv=None, history=None):
        if history is not None:
            tmp = dict(tree=list(range(len(self.mods))) if tree is None else tree)
            history = make_history(tmp, **history) if isinstance(history, dict) else history
        c = dict(signals=copy.deepcopy(self.sigs), sources=dict(self.sources), modules=copy.deepcopy(self.mods),
                 tree=list(range(len(self.mods))) if tree is None else tree,
                 seeds={str(k): list(v) for k, v in seeds.items()})
        if net:
            c['net'] = net
        if history is not None:
            c['history'] = history
        if seed_uv:
            c['seed_uv'] = {str(k): v for k, v in seed_uv.items()}
            for k, uv in seed_uv.items():
                c['seeds'][str(k)] = [int(x) for x in sum(np.outer(u, v) for u, v in uv).ravel()]
        return c


A_ = lambda *v: np.array(v)
B_ = lambda *v: np.array(v, dtype=bool)
S_ = slice
INDEX_CATALOGUE = {
    (5,): [(S_(1, 4),), ([0, 3],), (2,), (A_(4, 0, -2),), ([4, 0],), (A_([0, 1], [3, 4]),), ((S_(None, None, 2),),),
           (([0, 3],),), ((2,),), ((-1,),), ((B_(1, 0, 1, 1, 0),),), ((Ellipsis, 1),), ((S_(0, 3), Ellipsis),),
           ((None, S_(1, 5)),), ((S_(None), None),), (Ellipsis,), (S_(1, 5), [0, 2]), (S_(4, 0, -1), S_(0, 2)),
           (B_(0, 1, 1, 0, 1),)],
    (3, 4): [((1, 2),), ((-1, -4),), ((0, S_(1, 3)),), ((S_(None), 2),), ((S_(0, 2), S_(1, 4, 2)),),
             ((S_(None), [0, 2]),), ((S_(None), A_(3, 1)),), (([0, 2], S_(None)),), ((1, [0, 3]),), (([2, 0], 1),),
             (([0, 1, 2], [1, 3, 0]),), ((A_(0, 2), A_(1, -1)),), (([[0], [2]], [[1, 3]]),),
             ((A_([0], [2]), A_([3, 0, 1])),), ((S_(None), B_(1, 0, 1, 1)),), ((B_(1, 0, 1), S_(None)),),
             ((B_(1, 0, 1), [0, 3]),), (B_([1, 0, 0, 1], [0, 0, 1, 0], [1, 1, 0, 0]),), ((Ellipsis, 1),),
             ((2, Ellipsis),), ((Ellipsis, [0, 2]),), ((S_(None), None, 1),), ((None, 1, 2),), ((1,),), ((S_(0, 2),),),
             (([0, 2],),), (1,), ([0, 2],), (A_(2, 0),), (B_(0, 1, 1),), (-1, S_(None, None, -1)),
             ((S_(0, 2), S_(None)), (S_(None), [0, 3])), (1, [0, 2]), ((S_(None), S_(1, 4)), (1, 2)),
             ((S_(None, None, -1), S_(None, None, 2)), ([1, 0], [0, 1])), ((S_(1, 3), S_(0, 3)), B_([1, 0, 1], [0, 1, 1]))],
    (2, 3, 2): [((1, 2, 0),), ((0, S_(None), 1),), (([0, 1], S_(None), [1, 0]),), ((S_(None), [0, 2], [1, 0]),),
                ((1, [0, 2], S_(None)),), ((Ellipsis, 0),), ((0, Ellipsis, 1),), ((S_(None), B_(1, 0, 1), S_(None)),),
                (([1], [2], [0]),), ((S_(None), S_(1, 3), S_(None)), ([0, 1], 0, [1, 1])), (1,), ((1, 2),),
                (B_([[1, 0], [0, 0], [0, 1]], [[0, 0], [1, 1], [0, 0]]),), (([[0], [1]], S_(None), [[1, 0]]),),
                ((S_(None), None, [2, 0], 1),)],
}


def stress_cases():
    """deliberately chosen cases that run on every seed: every print_timing value x construction form on networks of
    depth >= 2 (flat and nested), every index form of the catalogue on 1-, 2-, 3-dimensional signals inside a
    fan-out/fan-in network, and DyadCarrier-valued sensitivities handed through / transformed / accumulated later"""
    out = []

    # ---- print_timing / construction forms: x -> a -> b -> f with a second path x -> f
    def chain():
        b = CaseBuilder()
        x = b.src((3,))
        a = b.lin([x], [(2,)])
        q = b.mod('sq', [a], [(2,)])
        f = b.lin([q, x], [(1,)])
        return b, f
    for pt in [True, 0.0, 10.0, 0, 1e9, False]:
        for ctor in ['args', 'list', 'tuple', 'append', 'call', 'split']:
            b, f = chain()
            out.append((f'timing:flat:{pt!r}:{ctor}', b.case({f: [1]}, net=dict(print_timing=pt, ctor=ctor))))
        for ctor in ['args', 'append']:
            b, f = chain()
            out.append((f'timing:inner:{pt!r}:{ctor}', b.case({f: [2]}, tree=[dict(mods=[0, 1], print_timing=pt, ctor=ctor), 2])))
            b, f = chain()
            out.append((f'timing:outer-of-nested:{pt!r}:{ctor}', b.case({f: [1]}, tree=[[0], [1, 2]], net=dict(print_timing=pt, ctor=ctor))))
            b, f = chain()
            out.append((f'timing:both:{pt!r}:{ctor}',
                        b.case({f: [1]}, tree=[dict(mods=[0, dict(mods=[1], print_timing=True)], print_timing=pt, ctor=ctor),
                                               dict(mods=[2], print_timing=pt)], net=dict(print_timing=pt))))

    # ---- index forms: a = L1 U[idx_k], b = L2 U, c = L3 U[idx_k+1], f = L4 (a, b, c)
    for shape, cat in INDEX_CATALOGUE.items():
        for k, chain_ in enumerate(cat):
            b = CaseBuilder()
            u = b.src(shape)
            r1, r2 = b.ref(u, *chain_), b.ref(u, *cat[(k + 1) % len(cat)])
            a = b.lin([r1], [(2,)])
            w = b.lin([u], [(2,)])
            c = b.lin([r2, r1], [(1,)])
            f = b.lin([a, w, c], [(1,)])
            name = f"index:{'x'.join(map(str, shape))}:{k}"
            for r in (r1, r2):
                if not admissible(shape, r['levels']):
                    raise ValueError(f'stress catalogue entry outside the admissible domain: {name}')
            out.append((name, b.case({f: [1], a: [1, -1]}, net=dict(print_timing=10.0) if k % 4 == 0 else None)))

    # ---- DyadCarrier-valued sensitivities
    def dy(name, fn):
        for pt in (None, True):
            b = CaseBuilder()
            seeds, seed_uv = fn(b)
            out.append((f'dyad:{name}' + (':timed' if pt else ''),
                        b.case(seeds, seed_uv=seed_uv, net=dict(print_timing=pt) if pt else None)))

    def d_passthrough_later(b):       # K = K1 + K2 hands dK to both; K1 has a second consumer EARLIER in the network
        k1, k2 = b.src((2, 3), 1), b.src((2, 3), 1)
        g2 = b.bilin(k1, 1, scalar=True)
        k = b.mod('add', [k1, k2], [(2, 3)], [1])
        g1 = b.bilin(k, 2)
        return {g1: [1, 2], g2: [-1]}, None
    dy('add-then-later-contribution', d_passthrough_later)

    def d_passthrough_second(b):      # both inputs of the add have another consumer earlier in the network
        k1, k2 = b.src((2, 3), 1), b.src((2, 3), 1)
        g3 = b.lin([k1], [(2,)], emit=[1], decomp='cols')
        g2 = b.bilin(k2, 2)
        k = b.mod('add', [k1, k2], [(2, 3)], [1])
        g1 = b.bilin(k, 1)
        return {g1: [2], g2: [1, 1], g3: [1, -2]}, None
    dy('add-both-inputs-get-more', d_passthrough_second)

    def d_id_chain(b):
        k1 = b.src((3, 2), 1)
        g0 = b.bilin(k1, 2)
        ka = b.mod('id', [k1], [(3, 2)], [1])
        g1 = b.bilin(ka, 1)
        kb = b.mod('id', [ka], [(3, 2)], [1])
        g2 = b.bilin(kb, 2)
        return {g0: [1, 0], g1: [2], g2: [1, -1]}, None
    dy('id-chain', d_id_chain)

    def d_twice(b):                   # K = K1 + K1: the same object arrives twice on one signal, plus a later one
        k1 = b.src((2, 2), 1)
        g0 = b.bilin(k1, 1)
        k = b.mod('add', [k1, k1], [(2, 2)], [1])
        g1 = b.bilin(k, 2)
        return {g0: [3], g1: [1, 2]}, None
    dy('same-signal-twice', d_twice)

    def d_two_levels(b):              # Ka = K1 + K2, Kb = Ka + K1
        k1, k2 = b.src((2, 3), 1), b.src((2, 3), 1)
        ka = b.mod('add', [k1, k2], [(2, 3)], [1])
        kb = b.mod('add', [ka, k1], [(2, 3)], [1])
        g = b.bilin(kb, 2)
        h = b.bilin(ka, 1)
        return {g: [1, -1], h: [2]}, None
    dy('two-level-add', d_two_levels)

    def d_transform(b):               # new DyadCarriers made from the received one
        k1 = b.src((2, 3), 1)
        g0 = b.bilin(k1, 1)
        ks = b.mod('scale', [k1], [(2, 3)], [1], c=-2)
        kt = b.mod('transpose', [ks], [(3, 2)], [1])
        kw = b.sandwich(kt, 2, 3, odyad=1)
        kk = b.mod('add', [kw, k1], [(2, 3)], [1])
        g1 = b.bilin(kk, 2)
        g2 = b.bilin(kt, 1)
        return {g0: [1], g1: [1, 1], g2: [-1]}, None
    dy('scale-transpose-sandwich', d_transform)

    def d_seeded(b):                  # the user seeds DyadCarriers on an output and on an intermediate matrix
        k1, k2 = b.src((2, 2), 1), b.src((2, 2), 1)
        g0 = b.bilin(k2, 1)
        k = b.mod('add', [k1, k2], [(2, 2)], [1])
        kc = b.mod('id', [k], [(2, 2)], [1])
        g1 = b.bilin(k, 1)
        return {g0: [1], g1: [2]}, {kc: [[[1, 2], [0, 1]], [[1, -1], [2, 0]]], k: [[[0, 1], [1, 1]]], k1: [[[1, 0], [1, 2]]]}
    dy('dyad-seeds', d_seeded)

    def d_lin(b):                     # block-matrix modules that emit / receive DyadCarriers
        k1, x = b.src((2, 3), 1), b.src((3,))
        y = b.lin([k1, x], [(2,)], emit=[1, 0])
        k = b.lin([k1, x], [(3, 2)], odyad=[1], emit=[1, 0], decomp='cols')
        kk = b.mod('add', [k, k], [(3, 2)], [1])
        z = b.lin([k, kk], [(2,)], emit=[1, 1])
        return {y: [1, 1], z: [1, -1]}, None
    dy('lin-emit-receive', d_lin)

    def d_slices(b):                  # DyadCarrier contributions into matrix-valued slices of a dense signal
        u = b.src((3, 4))
        g0 = b.bilin(b.ref(u, (S_(0, 2), S_(1, 3))), 2)
        g1 = b.bilin(b.ref(u, (S_(None), [0, 2])), 1)
        g2 = b.lin([u], [(2,)])
        k = b.mod('add', [b.ref(u, (S_(1, 3), S_(0, 2))), b.ref(u, ([[0], [2]], [[3, 1]]))], [(2, 2)], [1])
        g3 = b.bilin(k, 2)
        g4 = b.bilin(b.ref(u, (None, 2, S_(None))), 1)
        return {g0: [1, 2], g1: [-1], g2: [1, 1], g3: [2, 1], g4: [1]}, None
    dy('into-2d-slices', d_slices)

    # ---- memory layouts: non-C-contiguous multi-dimensional arrays entering the library ConcatSignal (directly from a
    #      source, as output of EinSum 'ij->ji', of the transpose module, of an elementwise module that keeps the layout)
    for lay in LAYOUTS + [None]:
        for shape in [(2, 3), (2, 3, 2)]:
            b = CaseBuilder()
            u, x = b.src(shape, layout=lay), b.src((2,))
            c = b.mod('concat', [u, x, b.ref(u, 1)], [(size_of(shape) + 2 + size_of(shape[1:]),)])
            f = b.lin([c, u], [(2,)])
            out.append((f"layout:source:{lay}:{'x'.join(map(str, shape))}", b.case({f: [1, -1], c: _vec(size_of(shape) + 2 + size_of(shape[1:]), 3)})))
        b = CaseBuilder()
        u = b.src((2, 3), layout=lay)
        e = b.mod('einsum', [u], [(3, 2)], expr='ij->ji')
        t = b.mod('transpose', [u], [(3, 2)])
        q = b.mod('sq', [t], [(3, 2)])
        c1 = b.mod('concat', [e, u], [(12,)])
        c2 = b.mod('concat', [b.ref(u, (S_(None), S_(0, 3, 2))), t, q], [(16,)], as_dict=1)
        f = b.lin([c1, c2], [(2,)])
        out.append((f'layout:module-outputs:{lay}', b.case({f: [1, 2], c2: _vec(16, 1)}, tree=[0, [1, 2], [3, 4], 5])))

    # ---- construction histories: the only seeded outputs are produced by modules of inner networks
    def h_two_paths(b):         # y = x*x; inner: z = L y, g = y*z (y reaches g along two paths)
        x = b.src((3,))
        y = b.mod('sq', [x], [(3,)])
        z = b.lin([y], [(3,)])
        g = b.mod('mul', [y, z], [(3,)])
        return {g: [1, 1, 1]}, [0, [1, 2]]

    def h_three_levels(b):      # outer[a, mid[b, deep[c, d]], e]: seeds on d's output and on e's
        x, p_ = b.src((3,)), b.src((2,))
        a = b.lin([x, p_], [(2,)])
        c1 = b.lin([a, b.ref(x, [0, 2])], [(2,)])
        c2 = b.lin([c1, a], [(2,)])
        d1, d2 = b.lin([c2, c1], [(1,), (2,)])
        e = b.lin([a], [(2,)])
        return {d2: [1, -1], e: [0, 1]}, [0, dict(mods=[1, dict(mods=[2, 3], print_timing=True)]), 4]

    def h_deep_only(b):         # the same shape of tree, only the deepest output is seeded; an empty inner network
        x = b.src((2, 2))
        a = b.lin([x], [(2,)])
        c1 = b.lin([a, b.ref(x, (S_(None), 1))], [(2,)])
        c2 = b.mod('sq', [c1], [(2,)])
        d1 = b.lin([c2, a, a], [(2,)])
        return {d1: [1, 2]}, [0, [[], 1, [2, [3]]]]

    def h_siblings(b):          # two sibling inner networks reading the same source, nothing outside them
        x = b.src((3,))
        a1 = b.lin([x], [(2,)])
        a2 = b.lin([a1, x], [(1,)])
        b1 = b.lin([b.ref(x, S_(0, 2))], [(2,)])
        b2 = b.lin([b1, a1], [(2,)])
        return {a2: [2], b2: [1, 1]}, [dict(mods=[0, 1], print_timing=0.0), [2, 3]]
    for hname, fn in [('two-paths', h_two_paths), ('three-levels', h_three_levels), ('deep-only', h_deep_only),
                      ('siblings', h_siblings)]:
        for order in ['post', 'bfs', 'dfs']:
            for mode, extra in [('plain', {}), ('evaluated-in-between', dict(every=1)),
                                ('shadows', dict(every=2, shadows=list(SHADOWS)))]:
                b = CaseBuilder()
                seeds, tree = fn(b)
                out.append((f'history:{hname}:{order}:{mode}', b.case(seeds, tree=tree, history=dict(order=order, **extra),
                                                                      net=dict(print_timing=True) if mode == 'shadows' else None)))

    # ---- modules without outputs / without inputs, seeds on signals no module touches
    def z_inject_unseeded(b):   # a module hands out a sensitivity on an intermediate signal; nothing is seeded
        x = b.src((3,))
        a = b.lin([x], [(2,)])
        b.mod('inject', [a], [], d=[[2, -1]])
        return {}, None
    def z_inject_inner(b):      # the same inside an inner network none of whose outputs is seeded; another output is
        x = b.src((3,))
        a = b.lin([x], [(2,)])
        c = b.lin([a], [(2,)])
        b.mod('inject', [c, b.ref(x, [2, 0])], [], d=[None, [1, 3]])
        f = b.lin([a], [(1,)])
        return {f: [1]}, [0, [1, 2], 3]
    def z_inject_source(b):     # straight onto a source and onto a slice of it, next to an ordinary path
        x = b.src((2, 3))
        b.mod('inject', [x, b.ref(x, (1, S_(0, 2)))], [], d=[[1, 0, 2, 0, -1, 1], [3, 3]])
        a = b.lin([x], [(2,)])
        return {a: [1, 1]}, [[0], 1]
    def z_sink(b):              # a block-matrix module without outputs returns zero sensitivities; nothing seeded
        x, p_ = b.src((3,)), b.src((2,))
        a = b.lin([x], [(2,)])
        b.lin([a, p_], [])
        return {}, [0, [1]]
    def z_const(b):             # a module without inputs consumes the sensitivity of its constant output
        x = b.src((2,))
        k = b.mod('const', [], [(2,)], v=[2, -1], ret='list')
        k2 = b.mod('const', [], [(2,)], v=[1, 3], ret='none')
        g = b.mod('mul', [k, x], [(2,)])
        h = b.lin([g, k2, x], [(1,)])
        return {h: [1], k2: [1, 1]}, [[0, 1], 2, 3]
    def z_untouched(b):         # seeds on signals that are in no sig_in / sig_out list at all, and on a source
        x, lone = b.src((2,)), b.src((3,))
        a = b.lin([x], [(2,)])
        return {lone: [1, 2, 3], x: [1, -1], a: [2, 0]}, None
    for zname, fn in [('inject-nothing-seeded', z_inject_unseeded), ('inject-inner-unseeded', z_inject_inner),
                      ('inject-source-and-slice', z_inject_source), ('zero-output-sink', z_sink), ('zero-input-const', z_const),
                      ('untouched-signals', z_untouched)]:
        for order in [None, 'bfs']:
            b = CaseBuilder()
            seeds, tree = fn(b)
            out.append((f'zero-io:{zname}:{order}', b.case(seeds, tree=tree, history=dict(order=order, every=2) if order else None)))

    # ---- user-defined sensitivity types on signals reached along several paths
    def a_fan(b, K):            # x is consumed by three modules (and twice by one of them)
        x = b.acc(b.src((4,)), K)
        y0 = b.lin([x], [(1,)], emit=[K])
        y1 = b.lin([x, x], [(2,)], emit=[K, K])
        y2 = b.lin([x], [()], emit=[K])
        f = b.lin([y0, y1, y2], [(1,)])
        return {f: [1]}, None
    def a_intermediate(b, K):   # a typed intermediate signal, seeded by the user with an object of the type
        x = b.src((3,))
        a = b.acc(b.lin([x], [(2, 2)]), K)
        c = b.lin([a], [(2,)], emit=[K])
        d = b.lin([a, c], [(2,)], emit=[K, 0])
        e = b.lin([c, a], [(1,)], emit=[0, K])
        return {d: [1, -1], e: [2], a: [1, 0, 0, 2]}, [0, [1, 2], 3]
    def a_alias(b, K):          # aliasing modules hand the received object on: k = a1 + a2, i = id(k)
        x = b.src((2,))
        a1 = b.acc(b.lin([x], [(3,)]), K)
        a2 = b.acc(b.lin([x], [(3,)]), K)
        g0 = b.lin([a1], [(1,)], emit=[K])
        k = b.acc(b.mod('add', [a1, a2], [(3,)]), K)
        i = b.acc(b.mod('id', [k], [(3,)]), K)
        g1 = b.lin([i, k], [(2,)], emit=[K, K])
        g2 = b.lin([a2, a2], [(1,)], emit=[K, K])
        return {g0: [1], g1: [1, 2], g2: [-1]}, None
    for aname, fn in [('fan-out', a_fan), ('typed-intermediate-seeded', a_intermediate), ('aliasing-modules', a_alias)]:
        for K in ACC_KINDS:
            for order in [None, 'dfs']:
                b = CaseBuilder()
                seeds, tree = fn(b, K)
                out.append((f'acc:{aname}:{K}:{order}', b.case(seeds, tree=tree, history=dict(order=order) if order else None)))
    return out


def decorate(rng, case, stats):
    """widen a random case: user-defined sensitivity types on eligible signals, modules without outputs / inputs, a
    construction history"""
    sigs, mods = case['signals'], case['modules']
    for k in case['sources']:           # memory layout of multi-dimensional source arrays
        if len(sigs[int(k)]['shape']) >= 2 and rng.random() < 0.3:
            sigs[int(k)]['layout'] = rng.choice(LAYOUTS)
            stats('source-layout:' + sigs[int(k)]['layout'])
    if rng.random() < 0.45:
        producer = {o: m for m in mods for o in m['outs']}
        for s_, sg in enumerate(sigs):
            uses = [(m, i) for m in mods for i, r in enumerate(m['ins']) if r['sig'] == s_]
            if sg.get('dyad') or not uses or rng.random() < (0.4 if len(uses) == 1 else 0.15):
                continue
            if any(m['kind'] != 'lin' or m['ins'][i]['levels'] for m, i in uses):
                continue
            if s_ in producer and producer[s_]['kind'] != 'lin':
                continue
            K = rng.choice(ACC_KINDS)
            sg['acc'] = K
            for m, i in uses:
                m.setdefault('emit', [0] * len(m['ins']))
                m.setdefault('decomp', 'rows')
                m['emit'][i] = K
            stats(f'acc:{K}:paths={min(len(uses), 3)}')
    dense = [s_ for s_, sg in enumerate(sigs) if not sg.get('dyad') and not sg.get('acc')]
    r = rng.random()
    if r < 0.12 and dense:          # a module that hands out sensitivities of its own, last in the outer network or in the last inner one
        ins, d = [], []
        for s_ in rng.sample(dense, min(len(dense), rng.randint(1, 2))):
            ins.append(dict(sig=s_, levels=None))
            d.append(None if rng.random() < 0.15 else [rng.randint(-2, 2) for _ in range(size_of(sigs[s_]['shape']))])
        mods.append(dict(kind='inject', ins=ins, oshapes=[], outs=[], d=d))
        stats('zero-output:inject')
    elif r < 0.2 and dense:         # a block-matrix module without outputs
        ins = [dict(sig=s_, levels=None) for s_ in rng.sample(dense, min(len(dense), rng.randint(1, 2)))]
        mods.append(dict(kind='lin', ins=ins, oshapes=[], outs=[], none=[int(rng.random() < 0.2) for _ in ins], blocks=[]))
        stats('zero-output:sink')
    if r < 0.2 and dense:
        t = case['tree']
        while rng.random() < 0.5 and tree_items(t) and not isinstance(tree_items(t)[-1], int):
            t = tree_items(t)[-1]
        tree_items(t).append(len(mods) - 1)
    if rng.random() < 0.35:
        order = rng.choice(['post', 'bfs', 'dfs', 'random', 'random'])
        case['history'] = make_history(case, order, rng=rng, p_eval=0.2, p_shadow=0.1,
                                       every=(0 if order == 'random' else rng.choice([0, 0, 1, 3])))
        stats('history:' + order)
    return case


# ----------------------------------------------------------------------------- user-defined sensitivity types
class IaddSens:
    """(a) accumulates through __iadd__ only (the `+=` branch of Signal.add_sensitivity)"""
    def __init__(self, a):
        self.a = np.array(a, dtype=float)

    def __iadd__(self, other):
        self.a = self.a + other.a
        return self

    def dense_view(self):
        return self.a


class SparseSens:
    """(b) {flat position: value}; its own add_sensitivity() merges in place and returns None"""
    def __init__(self, a):
        a = np.asarray(a, dtype=float)
        self.shape = a.shape
        self.entries = {i: float(v) for i, v in enumerate(a.ravel()) if v != 0}

    def add_sensitivity(self, other):
        for k, v in other.entries.items():
            self.entries[k] = self.entries.get(k, 0.0) + v

    def dense_view(self):
        d = np.zeros(size_of(self.shape))
        for k, v in self.entries.items():
            d[k] += v
        return d.reshape(self.shape)


class LazySumSens:
    """(c) a list of terms summed on demand; its own add_sensitivity() returns self"""
    def __init__(self, a):
        self.terms = [np.array(a, dtype=float)]

    def add_sensitivity(self, other):
        self.terms.extend(np.array(t) for t in other.terms)
        return self

    def dense_view(self):
        return sum(self.terms[1:], self.terms[0])


ACC = {'iadd': IaddSens, 'none': SparseSens, 'self': LazySumSens}
ACC_KINDS = ['iadd', 'none', 'self']


# ----------------------------------------------------------------------------- the real network
def make_module_classes(pym):
    def dense(w):
        """a received sensitivity as numbers (DyadCarriers are expanded, user-defined types give their dense view)"""
        if isinstance(w, pym.DyadCarrier):
            return w.todense()
        return w.dense_view() if hasattr(w, 'dense_view') else w

    def flat(x):
        return np.asarray(dense(x), dtype=float).ravel()

    def as_dyads(G, decomp='rows'):
        """the matrix G as a DyadCarrier: sum_i e_i (x) G[i, :]  or  sum_j G[:, j] (x) e_j"""
        n, m = G.shape
        d = pym.DyadCarrier(shape=(n, m))
        if decomp == 'rows':
            for i in range(n):
                d.add_dyad(np.eye(n)[i], G[i, :])
        else:
            for j in range(m):
                d.add_dyad(G[:, j], np.eye(m)[j])
        return d

    class LinMod(pym.Module):
        """user-defined module with a dense block Jacobian; for inputs flagged in `emit` the sensitivity is handed
        over as a DyadCarrier"""
        def _prepare(self, blocks, oshapes, none, emit=None, decomp='rows'):
            self.blocks = [(o, i, np.array(M, dtype=float).reshape(len(M), -1)) for o, i, M in blocks]
            self.oshapes, self.none = oshapes, none
            self.emit, self.decomp = emit or [0] * len(none), decomp

        def _response(self, *xs):
            ys = [np.zeros(size_of(sh)) for sh in self.oshapes]
            for o, i, M in self.blocks:
                if not self.none[i]:
                    ys[o] = ys[o] + M.reshape(ys[o].size, flat(xs[i]).size) @ flat(xs[i])
            return [y.reshape(sh) for y, sh in zip(ys, self.oshapes)]

        def _sensitivity(self, *ws):
            shapes = [np.shape(s.state) for s in self.sig_in]
            gs = [np.zeros(size_of(sh)) for sh in shapes]
            for o, i, M in self.blocks:
                if ws[o] is not None and not self.none[i]:
                    gs[i] = gs[i] + M.reshape(flat(ws[o]).size, gs[i].size).T @ flat(ws[o])
            def wrap(g, e):
                if e in ACC:
                    return ACC[e](g)
                return as_dyads(g, self.decomp) if e else g
            return [None if self.none[i] else wrap(g.reshape(sh), self.emit[i]) for i, (g, sh) in enumerate(zip(gs, shapes))]

    class InjectMod(pym.Module):
        """no outputs; hands out fixed sensitivities of its own to its inputs (None for some)"""
        def _prepare(self, d):
            self.d = d

        def _response(self, *xs):
            return []

        def _sensitivity(self):
            return [None if d is None else np.array(d, dtype=float).reshape(np.shape(s.state))
                    for d, s in zip(self.d, self.sig_in)]

    class ConstMod(pym.Module):
        """no inputs; its output is a constant, its _sensitivity consumes what it receives"""
        def _prepare(self, v, shape, ret):
            self.v, self.shape, self.ret = v, tuple(shape), ret

        def _response(self):
            return np.array(self.v, dtype=float).reshape(self.shape) if len(self.shape) else float(self.v[0])

        def _sensitivity(self, dy):
            return [] if self.ret == 'list' else None

    class IdMod(pym.Module):
        """passes its input object on and returns the very sensitivity object it receives"""
        def _response(self, x):
            return x

        def _sensitivity(self, dy):
            return dy

    class AddMod(pym.Module):
        def _response(self, a, b):
            return a + b

        def _sensitivity(self, dy):
            return [dy, dy]         # the same object for both inputs

    class ScaleMod(pym.Module):
        def _prepare(self, c):
            self.c = c

        def _response(self, x):
            return self.c * x

        def _sensitivity(self, dy):
            return self.c * dy      # ndarray -> new ndarray, DyadCarrier -> new DyadCarrier

    class TransposeMod(pym.Module):
        def _response(self, x):
            return x.T

        def _sensitivity(self, dy):
            return dy.T             # ndarray -> a view on the output sensitivity, DyadCarrier -> a transposed copy

    class SandwichMod(pym.Module):
        """Y = A X B"""
        def _prepare(self, A, B):
            self.A, self.B = np.array(A, dtype=float), np.array(B, dtype=float)

        def _response(self, x):
            return self.A @ x @ self.B

        def _sensitivity(self, dy):
            return self.A.T @ dy @ self.B.T     # stays a DyadCarrier when dy is one

    class BilinMod(pym.Module):
        """y_a = u_a^T X v_a (as in compliance-type responses); dX = sum_a w_a u_a (x) v_a, optionally as DyadCarrier"""
        def _prepare(self, U, V, scalar, emit):
            self.U, self.V, self.scalar, self.emit = np.array(U, dtype=float), np.array(V, dtype=float), scalar, emit

        def _response(self, x):
            y = np.array([u @ x @ v for u, v in zip(self.U, self.V)])
            return float(y[0]) if self.scalar else y

        def _sensitivity(self, dy):
            w = np.atleast_1d(np.asarray(dy, dtype=float)).ravel()
            if self.emit:
                return pym.DyadCarrier([wa * u for wa, u in zip(w, self.U)], [v for v in self.V])
            return sum(wa * np.outer(u, v) for wa, u, v in zip(w, self.U, self.V))

    class SqMod(pym.Module):
        def _response(self, x):
            return x * x

        def _sensitivity(self, dy):
            return 2 * self.sig_in[0].state * dy

    class MulMod(pym.Module):
        def _response(self, a, b):
            return a * b

        def _sensitivity(self, dy):
            return self.sig_in[1].state * dy, self.sig_in[0].state * dy
    return dict(lin=LinMod, id=IdMod, add=AddMod, sq=SqMod, mul=MulMod, scale=ScaleMod, transpose=TransposeMod,
                sandwich=SandwichMod, bilin=BilinMod, inject=InjectMod, const=ConstMod, dense=dense)


def tree_items(t):
    """members of a (sub)network description: a list, or a dict {mods: [...], print_timing: ..., ctor: ...}"""
    return t['mods'] if isinstance(t, dict) else t


def tree_opts(t):
    return {k: v for k, v in t.items() if k != 'mods'} if isinstance(t, dict) else {}


def flat_mods(case, t=None):
    for x in tree_items(case['tree'] if t is None else t):
        if isinstance(x, int):
            yield case['modules'][x]
        else:
            yield from flat_mods(case, x)


def make_network(pym, members, opts):
    """pymoto.Network over `members` (modules, inner networks or module dictionaries) built the way `opts` says"""
    kw = dict(print_timing=opts['print_timing']) if 'print_timing' in opts else {}
    ctor = opts.get('ctor', 'args')
    if ctor == 'args':
        return pym.Network(*members, **kw)
    if ctor == 'list':
        return pym.Network(list(members), **kw)
    if ctor == 'tuple':
        return pym.Network(tuple(members), **kw)
    net = pym.Network(**kw)
    if ctor == 'append':
        for m in members:
            net.append(m)
    elif ctor == 'call':
        for m in members:
            net(m)
    elif ctor == 'split':       # some at construction, the rest by one append of several modules
        k = len(members) // 2
        net = pym.Network(*members[:k], **kw)
        if members[k:]:
            net.append(*members[k:])
    else:
        raise ValueError(ctor)
    return net


LAYOUTS = ['F', 'T', 'strided']


def source_array(case, key, v):
    """the state a source signal is given: values v (row-major) in the memory layout the case asks for: default C order;
    'F' Fortran order; 'T' a transposed view of a C-ordered array; 'strided' every second entry of a larger array"""
    sg = case['signals'][int(key)]
    sh = tuple(sg['shape'])
    if not len(sh):
        return float(v[0])
    a = np.array(v, dtype=float).reshape(sh)
    lay = sg.get('layout')
    if lay == 'F':
        a = np.asfortranarray(a)
    elif lay == 'T':
        a = np.ascontiguousarray(a.T).T
    elif lay == 'strided':
        big = np.full(tuple(2 * n + 1 for n in sh), 77.0)
        view = big[tuple(slice(1, None, 2) for _ in sh)]
        view[...] = a
        a = view
    return a


def build(pym, classes, case, on_event=None):
    sigs = [pym.Signal(f's{i}') for i in range(len(case['signals']))]
    for k, v in case['sources'].items():
        sigs[int(k)].state = source_array(case, k, v)

    def mkref(r):
        s = sigs[r['sig']]
        for lv in (r['levels'] or []):
            s = s[to_index(lv)]
        return s
    mods = []
    for m in case['modules']:
        ins = [mkref(r) for r in m['ins']]
        outs = [sigs[o] for o in m['outs']]
        k = m['kind']
        if k == 'lin':
            mods.append(classes['lin'](ins, outs, m['blocks'], [tuple(s) for s in m['oshapes']], m['none'],
                                       emit=m.get('emit'), decomp=m.get('decomp', 'rows')))
        elif k in ('id', 'add', 'sq', 'mul', 'transpose'):
            mods.append(classes[k](ins, outs))
        elif k == 'scale':
            mods.append(classes[k](ins, outs, m['c']))
        elif k == 'sandwich':
            mods.append(classes[k](ins, outs, m['A'], m['B']))
        elif k == 'bilin':
            mods.append(classes[k](ins, outs, m['U'], m['V'], len(m['oshapes'][0]) == 0, m.get('emit', [0])[0]))
        elif k == 'inject':
            mods.append(classes[k](ins, outs, m['d']))
        elif k == 'const':
            mods.append(classes[k](ins, outs, m['v'], m['oshapes'][0], m.get('ret', 'list')))
        elif k == 'einsum':
            # library modules may also be handed to Network as dictionaries
            mods.append(dict(type='EinSum', sig_in=ins, sig_out=outs, expression=m['expr']) if m.get('as_dict')
                        else pym.EinSum(ins, outs, expression=m['expr']))
        elif k == 'concat':
            mods.append(dict(type='ConcatSignal', sig_in=ins, sig_out=outs) if m.get('as_dict')
                        else pym.ConcatSignal(ins, outs))
        else:
            raise ValueError(k)

    def mknet(t, opts):
        return make_network(pym, [mods[x] if isinstance(x, int) else mknet(tree_items(x), tree_opts(x)) for x in t], opts)
    if not case.get('history'):
        return sigs, mods, mknet(case['tree'], case.get('net', {}))

    # ---- the network is put together by the recorded sequence of append() calls
    def kw(o):
        return dict(print_timing=o['print_timing']) if 'print_timing' in o else {}
    objs = {(): pym.Network(**kw(case.get('net', {})))}

    def get(p):
        if p not in objs:
            x = tree_node(case, p)
            objs[p] = mods[x] if isinstance(x, int) else pym.Network(**kw(tree_opts(x)))
        return objs[p]
    keep = []
    for ev in case['history']:
        if ev[0] == 'a':
            p = tuple(ev[1])
            parent = get(p[:-1])
            if len(parent.mods) != p[-1]:
                raise ValueError(f'history attaches member {p} out of order')
            parent.append(get(p))
        elif on_event is not None:
            on_event(ev, sigs, objs, keep)
    return sigs, mods, objs[()]


def flat_objs(pym, net):
    for m in net.mods:
        if isinstance(m, pym.Network):
            yield from flat_objs(pym, m)
        else:
            yield m


def evaluable(pym, sigs, net):
    """can this (partial / shadow) network be evaluated now: every input has a state or is produced earlier inside"""
    have = {id(sg) for sg in sigs if sg.state is not None}
    new = set()
    for m in flat_objs(pym, net):
        for sg in m.sig_in:
            while hasattr(sg, 'base') and hasattr(sg, 'slice'):     # SignalSlice (chains): the underlying Signal
                sg = sg.base
            if id(sg) not in have and id(sg) not in new:
                return False
        new |= {id(sg) for sg in m.sig_out}
    return True


def one_pass(pym, case, sigs, net):
    """one design iteration on `net`: response, seeds (on signals that have a state), sensitivity, reset"""
    net.response()
    for k in case['seeds']:
        if sigs[int(k)].state is not None:
            sigs[int(k)].sensitivity = seed_value(pym, case, k)
    net.sensitivity()
    net.reset()
    for sg in sigs:
        sg.reset()


SHADOWS = ['copy', 'flat', 'inner']


def history_event(pym, case, stats=None):
    """what happens at the 'e' (evaluate the partial outer network) and 's' (build and evaluate a shadow network that
    shares the module objects) events of a construction history"""
    def on_event(ev, sigs, objs, keep):
        root = objs[()]
        nets = []
        if ev[0] == 'e':
            nets = [root]
        elif ev[1] == 'copy':
            nets = [root.copy()]
        elif ev[1] == 'flat':
            nets = [pym.Network(*list(flat_objs(pym, root)))]
        elif ev[1] == 'inner':      # every inner network that exists so far, re-wrapped over the same member objects
            nets = [pym.Network(*o.mods) for p, o in sorted(objs.items()) if p != () and isinstance(o, pym.Network) and o.mods]
        keep.extend(nets)
        for net in nets:
            ok = evaluable(pym, sigs, net)
            if stats:
                stats(f"history-event:{ev[0]}{':' + ev[1] if len(ev) > 1 else ''}:{'evaluated' if ok else 'not-evaluable'}")
            if ok:
                one_pass(pym, case, sigs, net)
    return on_event


def seed_value(pym, case, k):
    """the object the user stores in Signal.sensitivity: float, ndarray, or a DyadCarrier for DyadCarrier-typed signals"""
    sg = case['signals'][int(k)]
    sh = tuple(sg['shape'])
    v = case['seeds'][k]
    if sg.get('dyad'):
        d = pym.DyadCarrier(shape=sh)
        uv = case.get('seed_uv', {}).get(k)
        if uv is None:
            W = np.array(v, dtype=float).reshape(sh)
            uv = [[np.eye(sh[0])[i], W[i]] for i in range(sh[0])]
        for u, w in uv:
            d.add_dyad(np.array(u, dtype=float), np.array(w, dtype=float))
        return d
    if sg.get('acc'):               # the user seeds an object of the user-defined sensitivity type
        return ACC[sg['acc']](np.array(v, dtype=float).reshape(sh))
    return np.array(v, dtype=float).reshape(sh) if len(sh) else float(v[0])


def flat_ints(a):
    a = np.asarray(a, dtype=float).ravel()
    out = []
    for v in a:
        if not float(v).is_integer():
            raise ValueError(f'non-integer value {v!r} in an integer-exact case')
        out.append(int(v))
    return out


class ImplLimit(Exception):
    """the implementation did not finish a tiny case within the CPU budget (or the memory budget)"""


@contextlib.contextmanager
def limited(cpu_seconds=2.0, extra_bytes=1 << 30):
    """run the implementation on one (tiny) case under a CPU-time alarm and an address-space cap: a faulty
    implementation may loop or grow without bound (e.g. a DyadCarrier that is added to itself through shared lists);
    that has to end as a reported failure of the case, not as a runaway process"""
    import signal, resource

    def on_alarm(signum, frame):
        raise ImplLimit(f'implementation exceeded {cpu_seconds} s of CPU time on one case')
    old_handler = signal.signal(signal.SIGVTALRM, on_alarm)
    soft, hard = resource.getrlimit(resource.RLIMIT_AS)
    try:
        with open('/proc/self/statm') as f:
            now = int(f.read().split()[0]) * resource.getpagesize()
        cap = now + extra_bytes
        if hard != resource.RLIM_INFINITY:
            cap = min(cap, hard)
        if soft != resource.RLIM_INFINITY:
            cap = min(cap, soft)
        resource.setrlimit(resource.RLIMIT_AS, (cap, hard))
    except (OSError, ValueError):
        pass
    signal.setitimer(signal.ITIMER_VIRTUAL, cpu_seconds)
    try:
        yield
    finally:
        signal.setitimer(signal.ITIMER_VIRTUAL, 0)
        signal.signal(signal.SIGVTALRM, old_handler)
        try:
            resource.setrlimit(resource.RLIMIT_AS, (soft, hard))
        except (OSError, ValueError):
            pass


def run_impl(pym, classes, case, stats=None, info=None):
    def observe(sigs):
        # DyadCarrier / user-defined sensitivities are observed through their dense view
        return [None if s.sensitivity is None else flat_ints(classes['dense'](s.sensitivity)) for s in sigs]
    with limited(), contextlib.redirect_stdout(io.StringIO()):         # print_timing reports go nowhere
        sigs, mods, net = build(pym, classes, case, on_event=history_event(pym, case, stats))
        net.response()
        states = [None if s.state is None else flat_ints(s.state) for s in sigs]
        for k in case['seeds']:
            sigs[int(k)].sensitivity = seed_value(pym, case, k)
        net.sensitivity()
        sens = observe(sigs)
        if case.get('history') and info is not None:
            # further design iterations on the finished network: one with another seed support (every other seed), then
            # reset, response, all seeds, sensitivity
            net.reset()
            for sg in sigs:
                sg.reset()
            net.response()
            for k in sorted(case['seeds'], key=int)[1::2]:
                sigs[int(k)].sensitivity = seed_value(pym, case, k)
            net.sensitivity()
            net.reset()
            for sg in sigs:
                sg.reset()
            net.response()
            for k in case['seeds']:
                sigs[int(k)].sensitivity = seed_value(pym, case, k)
            net.sensitivity()
            info['second'] = observe(sigs)
    return states, sens


# ----------------------------------------------------------------------------- Jacobians at the point
def jac_blocks(case, m, states):
    """block list [(o, i, M)] (python ints) of module m at the evaluation point, idims, odims, none flags"""
    vals, idims = [], []
    for r in m['ins']:
        pos, vshape, _ = ref_positions(tuple(case['signals'][r['sig']]['shape']), r['levels'] or [])
        vals.append((np.array([states[r['sig']][p] for p in pos], dtype=object).reshape(vshape) if len(pos) else np.zeros(vshape, dtype=object)))
        idims.append(len(pos))
    odims = [size_of(s) for s in m['oshapes']]
    k = m['kind']
    none = m.get('none', [0] * len(idims))

    def eye(n):
        return [[1 if a == b else 0 for b in range(n)] for a in range(n)]

    def diag(v):
        v = [int(x) for x in np.asarray(v, dtype=object).ravel()]
        return [[v[a] if a == b else 0 for b in range(len(v))] for a in range(len(v))]
    if k == 'lin':
        blocks = [(o, i, M) for o, i, M in m['blocks']]
    elif k in ('const', 'inject'):
        blocks = []
    elif k == 'id':
        blocks = [(0, 0, eye(idims[0]))]
    elif k == 'scale':
        blocks = [(0, 0, [[m['c'] * v for v in row] for row in eye(idims[0])])]
    elif k == 'transpose':      # Y[j, i] = X[i, j]
        n_, m_ = np.shape(vals[0])
        blocks = [(0, 0, [[1 if (a // n_ == c % m_ and a % n_ == c // m_) else 0 for c in range(n_ * m_)] for a in range(n_ * m_)])]
    elif k == 'sandwich':       # Y[a, b] = sum_ij A[a, i] X[i, j] B[j, b]
        A, B = m['A'], m['B']
        n_, m_ = np.shape(vals[0])
        p_, q_ = len(A), len(B[0]) if B else 0
        blocks = [(0, 0, [[A[a][i] * B[j][b] for i in range(n_) for j in range(m_)] for a in range(p_) for b in range(q_)])]
    elif k == 'bilin':          # y_a = sum_ij U[a][i] X[i, j] V[a][j]
        n_, m_ = np.shape(vals[0])
        blocks = [(0, 0, [[m['U'][a][i] * m['V'][a][j] for i in range(n_) for j in range(m_)] for a in range(len(m['U']))])]
    elif k == 'add':
        blocks = [(0, 0, eye(idims[0])), (0, 1, eye(idims[1]))]
    elif k == 'sq':
        blocks = [(0, 0, diag(2 * vals[0]))]
    elif k == 'mul':
        blocks = [(0, 0, diag(vals[1])), (0, 1, diag(vals[0]))]
    elif k == 'concat':
        blocks, off = [], 0
        for i, n in enumerate(idims):
            blocks.append((0, i, [[1 if (a - off) == b else 0 for b in range(n)] for a in range(odims[0])]))
            off += n
    elif k == 'einsum':
        blocks = []
        for i in range(len(vals)):
            cols = []
            for j in range(idims[i]):
                e = np.zeros(idims[i], dtype=np.int64)
                e[j] = 1
                args = [np.asarray(v, dtype=np.int64) for v in vals]
                args[i] = e.reshape(np.shape(vals[i]))
                cols.append([int(x) for x in np.asarray(np.einsum(m['expr'], *args)).ravel()])
            blocks.append((0, i, [[cols[j][a] for j in range(idims[i])] for a in range(odims[0])]))
    else:
        raise ValueError(k)
    return blocks, idims, odims, none


# ----------------------------------------------------------------------------- Coq rendering
def nl(xs):
    return '[' + '; '.join(str(int(x)) for x in xs) + ']'


def coq_ref(case, r):
    if not r['levels']:
        return f"RSig {r['sig']}"
    pos, _, writable = ref_positions(tuple(case['signals'][r['sig']]['shape']), r['levels'])
    return f"{'RSlice' if writable else 'RLost'} {r['sig']} {nl(pos)}"


def coq_timing(opts):
    """Net.v `timing` of Network(..., print_timing=pt): `pt is not False` selects the timed loops"""
    pt = opts.get('print_timing', False)
    return 'TOff' if pt is False else ('TOn' if pt is True else 'TMin')


def coq_tree(case, states):
    specs = []
    for m in case['modules']:
        blocks, idims, odims, none = jac_blocks(case, m, states)
        bl = '[' + '; '.join(f'({o}, {i}, {zl(M)}%Z)' for o, i, M in blocks) + ']'
        specs.append(f"SMod [{'; '.join(coq_ref(case, r) for r in m['ins'])}] {nl(m['outs'])} "
                     f"(L {nl(idims)} {nl(odims)} [{'; '.join('true' if b else 'false' for b in none)}] {bl})")

    def go(t, opts):
        return f'SNet {coq_timing(opts)} [' + '; '.join(f'({specs[x]})' if isinstance(x, int) else f'({go(tree_items(x), tree_opts(x))})'
                                                        for x in t) + ']'
    return go(case['tree'], case.get('net', {}))


def opt_list(xs):
    return '[' + '; '.join('None' if x is None else f'Some {zl(x)}' for x in xs) + ']%Z'


def coq_checks(case, states, sens):
    n = len(case['signals'])
    dims = [size_of(s['shape']) for s in case['signals']]
    seeds = [case['seeds'].get(str(i)) for i in range(n)]
    raw = any(m['kind'] == 'inject' for m in case['modules'])
    if raw or case.get('history'):
        raw, pool, ops = coq_pool(case, states)
        out = [('sens', f"{'raw_case' if raw else 'hist_case'} {n} {nl(dims)} {pool} {ops} {opt_list(seeds)} {opt_list(sens)}")]
        if raw:
            return out
    else:
        out = [('sens', f"sens_case {n} {nl(dims)} ({coq_tree(case, states)}) {opt_list(seeds)} {opt_list(sens)}")]
    if not any(is_nonlinear(m) for m in case['modules']):
        init = [case['sources'].get(str(i), []) for i in range(n)]
        out.append(('state', f"state_case {n} ({coq_tree(case, states)}) {zl(init)}%Z {zl([s if s is not None else [] for s in states])}%Z"))
    return out


# ----------------------------------------------------------------------------- oracle
def oracle_concat(case, states):
    """response of the library ConcatSignal == row-major concatenation of its inputs (whatever their memory layout)"""
    bad = []
    for m in case['modules']:
        if m['kind'] != 'concat':
            continue
        exp = []
        for r in m['ins']:
            pos, _, _ = ref_positions(tuple(case['signals'][r['sig']]['shape']), r['levels'] or [])
            exp += [states[r['sig']][p_] for p_ in pos]
        if exp != states[m['outs'][0]]:
            bad.append((m['outs'][0], exp, states[m['outs'][0]]))
    return bad


def oracle_dense(case, states, sens):
    """exact dense forward-mode Jacobian product: d(sum_o <w_o, state_o>)/d(source) from per-module Jacobians"""
    n = len(case['signals'])
    dims = [size_of(s['shape']) for s in case['signals']]
    srcs = sorted(int(k) for k in case['sources'])
    off, tot = {}, 0
    for s in srcs:
        off[s] = tot
        tot += dims[s]
    T = {}
    for s in srcs:
        T[s] = np.zeros((dims[s], tot), dtype=object)
        for k in range(dims[s]):
            T[s][k, off[s] + k] = 1

    for m in flat_mods(case):
        blocks, idims, odims, none = jac_blocks(case, m, states)
        ys = [np.zeros((d, tot), dtype=object) for d in odims]
        for o, i, M in blocks:
            if none[i]:
                continue
            r = m['ins'][i]
            pos, _, _ = ref_positions(tuple(case['signals'][r['sig']]['shape']), r['levels'] or [])
            Ti = T[r['sig']][pos, :] if len(pos) else np.zeros((0, tot), dtype=object)
            ys[o] = ys[o] + np.array(M, dtype=object).reshape(odims[o], idims[i]).dot(Ti)
        for o, y in zip(m['outs'], ys):
            T[o] = y
    g = np.zeros(tot, dtype=object)
    for k, w in case['seeds'].items():
        if int(k) in T:
            g = g + np.array(w, dtype=object).dot(T[int(k)])
    for m in flat_mods(case):           # what a module without outputs hands out counts like a seed on its inputs
        if m['kind'] == 'inject':
            for r, d in zip(m['ins'], m['d']):
                if d is not None:
                    pos, _, _ = ref_positions(tuple(case['signals'][r['sig']]['shape']), r['levels'] or [])
                    g = g + np.array(d, dtype=object).dot(T[r['sig']][pos, :])
    bad = []
    for s in srcs:
        exp = [int(x) for x in g[off[s]:off[s] + dims[s]]]
        got = sens[s] if sens[s] is not None else [0] * dims[s]
        if exp != got:
            bad.append((s, exp, got))
    return bad


FD_COEF = [Fraction(1, 280), Fraction(-4, 105), Fraction(1, 5), Fraction(-4, 5), Fraction(0), Fraction(4, 5),
           Fraction(-1, 5), Fraction(4, 105), Fraction(-1, 280)]
BIG = 2 ** 50


def oracle_fd(pym, classes, case, sens):
    """derivative of the REAL network response by the 9-point central difference with integer steps: exact for
    polynomials of degree <= 8 (at most 3 quadratic modules per case) as long as every value stays exactly
    representable.  Returns (bad, skipped)."""
    dims = [size_of(s['shape']) for s in case['signals']]

    with limited(), contextlib.redirect_stdout(io.StringIO()):
        sigs, mobjs, net = build(pym, classes, case)

    def phi(s, k, j):
        for key, v in case['sources'].items():
            sh = tuple(case['signals'][int(key)]['shape'])
            v = [x + (j if (int(key) == s and i == k) else 0) for i, x in enumerate(v)]
            sigs[int(key)].state = source_array(case, key, v)
        with limited(), contextlib.redirect_stdout(io.StringIO()):
            net.response()
        tot = 0
        for sg in sigs:
            if sg.state is not None and np.max(np.abs(np.asarray(sg.state, dtype=float)), initial=0.0) > BIG:
                return None
        for key, w in case['seeds'].items():
            tot += sum(int(a) * int(b) for a, b in zip(flat_ints(sigs[int(key)].state), w))
        for m, mo in zip(case['modules'], mobjs):
            if m['kind'] == 'inject':
                for d, sg in zip(m['d'], mo.sig_in):
                    if d is not None:
                        tot += sum(int(a) * int(b) for a, b in zip(flat_ints(sg.state), d))
        return tot
    bad = []
    for s in sorted(int(k) for k in case['sources']):
        for k in range(dims[s]):
            vals = [phi(s, k, j) for j in range(-4, 5)]
            if any(v is None for v in vals):
                return [], True
            fd = sum(cj * v for cj, v in zip(FD_COEF, vals))
            an = sens[s][k] if sens[s] is not None else 0
            if fd != an:
                bad.append((s, k, str(fd), an))
    return bad, False


# ----------------------------------------------------------------------------- malformed stream
ERR = {None: 'ENone', TypeError: 'ETypeError', ValueError: 'EValueError', IndexError: 'EIndexError',
       AssertionError: 'EAssertionError', RuntimeError: 'ERuntimeError'}


def err_enum(e):
    if e is None:
        return 'ENone'
    for cls in (TypeError, ValueError, IndexError, AssertionError, RuntimeError):
        if isinstance(e, cls):
            return ERR[cls]
    return 'EOther'


def malformed_case(pym, rng):
    """one out-of-protocol mini network; returns (label, observed exception class, Coq expression predicting it)"""
    kind = rng.choice(['resp-count', 'sens-count', 'add-shape', 'slice-add-shape', 'slice-range'])
    n = rng.randint(2, 5)
    x = pym.Signal('x', np.arange(1.0, n + 1))

    class Bad(pym.Module):
        def _prepare(self, nret_resp, nret_sens, dlen):
            self.a, self.b, self.d = nret_resp, nret_sens, dlen

        def _response(self, *xs):
            return [np.ones(2) for _ in range(self.a)]

        def _sensitivity(self, *ws):
            return [np.ones(self.d) for _ in range(self.b)]
    err = None
    if kind == 'resp-count':
        nouts, nret = rng.randint(1, 3), rng.randint(0, 3)
        m = Bad([x], [pym.Signal(f'y{i}') for i in range(nouts)], nret, 1, n)
        try:
            m.response()
        except Exception as e:
            err = e
        # a module returning no value at all (None) is read as zero outputs; a single array as one output
        pred = f'resp_count_err {nret} {nouts}'
        par = (nouts, nret)
    elif kind == 'sens-count':
        nins, nret, seeded = rng.randint(1, 3), rng.randint(0, 3), rng.random() < 0.75
        m = Bad([x] * nins, [pym.Signal('y')], 1, nret, n)
        try:
            m.response()
            if seeded:
                m.sig_out[0].sensitivity = np.ones(2)
            m.sensitivity()
        except Exception as e:
            err = e
        pred = f"sens_count_err {'true' if seeded else 'false'} {nret} {nins}"
        par = (nins, nret, seeded)
    elif kind == 'add-shape':
        d, present = rng.randint(1, 6), rng.random() < 0.7
        m = Bad([x], [pym.Signal('y')], 1, 1, d)
        try:
            m.response()
            m.sig_out[0].sensitivity = np.ones(2)
            if present:
                x.sensitivity = np.zeros(n)
            m.sensitivity()
        except Exception as e:
            err = e
        pred = f"add_err ({'Some ' + str(n) if present else 'None'}) {d}"
        par = (n, d, present)
    elif kind == 'slice-add-shape':
        k, d = rng.randint(2, n), rng.randint(1, 6)
        idx = rng.sample(range(n), k)
        m = Bad([x[np.array(idx)]], [pym.Signal('y')], 1, 1, d)
        try:
            m.response()
            m.sig_out[0].sensitivity = np.ones(2)
            m.sensitivity()
        except Exception as e:
            err = e
        pred = f'add_err (Some {k}) {d}'     # the temporary base.sensitivity[idx] has length k
        par = (n, k, d)
    else:
        idx = [rng.randint(0, n + 2) for _ in range(rng.randint(1, 3))]
        m = Bad([x[np.array(idx)]], [pym.Signal('y')], 1, 1, len(idx))
        try:
            m.response()
        except Exception as e:
            err = e
        pred = f'slice_read_err {n} {nl(idx)}'
        par = (n, tuple(idx))
    obs = err_enum(err)
    return (kind,) + par, obs, f'errclass_eqb ({pred}) {obs}'


# ----------------------------------------------------------------------------- main
def features(case):
    f = set()
    reads = {}
    for m in case['modules']:
        sg = [r['sig'] for r in m['ins']]
        if len(set(sg)) < len(sg):
            f.add('twice')
        for s in set(sg):
            reads[s] = reads.get(s, 0) + 1
        if any(r['levels'] for r in m['ins']):
            f.add('slice')
        if len(m['outs']) > 1:
            f.add('multi-out')
    if any(v > 1 for v in reads.values()):
        f.add('fan-out')
    if any(not isinstance(x, int) for x in case['tree']):
        f.add('nested')

    def timed_nets(t, opts):
        n = int(opts.get('print_timing', False) is not False)
        return n + sum(timed_nets(tree_items(x), tree_opts(x)) for x in t if not isinstance(x, int))
    if timed_nets(case['tree'], case.get('net', {})):
        f.add('print-timing')
    if any(sg.get('dyad') for sg in case['signals']):
        f.add('dyad-signal')
    if any(any(e == 1 for e in m.get('emit', [])) for m in case['modules']):
        f.add('dyad-emitter')
    for sg in case['signals']:
        if sg.get('acc'):
            f.add('acc-type:' + sg['acc'])
    for m in case['modules']:
        if not m['outs']:
            f.add('zero-output:' + m['kind'])
        if not m['ins']:
            f.add('zero-input')
    if case.get('history'):
        f.add('history')
        if any(e[0] == 'e' for e in case['history']):
            f.add('history:evaluated-in-between')
        if any(e[0] == 's' for e in case['history']):
            f.add('history:shadow-networks')
        first = {}
        for i, e in enumerate(case['history']):
            if e[0] == 'a':
                first[tuple(e[1])] = i
        if any(len(pth) > 1 and first[pth] > first[pth[:-1]] for pth in first):
            f.add('history:filled-after-nesting')
    if any(len(sg['shape']) >= 2 and any(r['sig'] == i and r['levels'] for m in case['modules'] for r in m['ins'])
           for i, sg in enumerate(case['signals'])):
        f.add('nd-slice')
    written = {o for m in case['modules'] for o in m['outs']}
    if len([k for k in case['seeds'] if int(k) in written]) > 1:
        f.add('multi-seed')
    for m in case['modules']:
        if len(m['outs']) > 1 and 0 < len([o for o in m['outs'] if str(o) in case['seeds']]) < len(m['outs']):
            f.add('partial-seed')
    return f


def depth(t):
    return 1 + max([depth(tree_items(x)) for x in tree_items(t) if not isinstance(x, int)] + [0])


def run(ctx):
    import pymoto as pym
    classes = make_module_classes(pym)
    ctx.rule = ('fixed cases first (corpus/C02/*.json, then the deterministic stress catalogue stress_cases(): every print_timing '
                'value x construction form on flat and nested depth>=2 networks, every index form of INDEX_CATALOGUE on 1-/2-/3-D '
                'signals in a fan-out/fan-in network, DyadCarrier pass-through / transformation / later accumulation / seeds / '
                'slices; Fortran-ordered / transposed-view / strided 2-D and 3-D arrays entering ConcatSignal from sources and '
                'from EinSum ij->ji / transpose / square outputs; construction histories (post-order / breadth-first / depth-first x plain / evaluated after every append / '
                'shadow networks) on 4 nested graphs whose only seeds sit on outputs of inner networks; modules without outputs '
                '(injecting, sink) / without inputs, untouched seeded signals; user-defined sensitivity types (__iadd__, '
                'add_sensitivity returning None / self) x fan-out, seeded typed intermediate, aliasing modules); then random module DAGs (2-9 modules, 1-4 sources, signal shapes () / (n<=4) / (a<=3, b<=4) / '
                '(a<=2, b<=3, c<=3)) from one seeded RNG, 30% of them in a matrix mode biased to 2-D signals and DyadCarrier-typed '
                'sensitivities: user block-matrix modules (incl. None-returning inputs, duplicate blocks, 2 outputs, sensitivities '
                'handed over as DyadCarrier in row or column dyads), aliasing identity/add modules (return the received object for '
                'one / both inputs), scale / transpose / A X B modules (new DyadCarrier from the received one), bilinear-form '
                'modules (u^T X v, DyadCarrier sensitivities), polynomial modules (square, product), library EinSum (9 patterns) '
                'and ConcatSignal (also passed to Network as dictionaries); inputs are signals or admissible slice chains '
                '(1-D: basic, negative step, integer arrays/lists without repeats, masks, scalar index, nested basic, 1-tuples, '
                'index matrices, Ellipsis, newaxis; n-D: row, row arrays/lists/masks, full masks, tuples of slices, int+slice, '
                'all-integer, slice+advanced, int+advanced, paired index arrays, open mesh, Ellipsis, newaxis, partial tuples, '
                'chains over views); random nesting into inner Networks (depth <= 4, empty ones included); every Network '
                '(outer and inner) draws print_timing from {absent, False, True, 0, 0.0, 10.0, 1e9} and its construction form '
                'from {positional, list, tuple, append, call, split append}; seeds on random subsets of outputs/intermediates/'
                'sources (DyadCarrier seeds on DyadCarrier-typed signals); 45%: eligible signals (whole references, block-matrix '
                'consumers) carry a user-defined sensitivity type; 12% / 8%: a sensitivity-injecting / sink module without outputs; '
                '35%: a construction history (post / bfs / dfs / random interleaving of the append() calls, evaluations of the '
                'partial network and shadow networks in between, two design iterations).  A case is non-trivial when some seed reaches a '
                'source through at least one module; distinct by the full case description.  Malformed stream (~10%): '
                'out-of-protocol mini networks (wrong number of responses / sensitivities, wrong-shaped contribution to a present '
                'sensitivity or through a slice, slice position outside the base): only the exception class is compared with '
                'the error-dispatch model (Net.v errclass).')
    ctx.assumptions += ['modules are adjoint pairs at the evaluation point (C01) and do not mutate their arguments (C04): '
                        'hypothesis wt_mod of the theorem; proved for block-matrix modules (linmod_wt)',
                        'slices are within the admissible domain of C18 (pairwise different positions, nested slices only '
                        'over views): hypothesis wt_ref; the two refuted statements show it is needed',
                        'modules write whole signals (SignalSlice as a module OUTPUT is not modelled)',
                        'nonlinear modules enter the model through their Jacobian at the evaluation point (computed from '
                        'the implementation\'s states in exact integer arithmetic)',
                        'the model is value-level: a sensitivity is the list of its numbers (a DyadCarrier is its todense()); '
                        'object identity / aliasing of sensitivity containers is not in the model, its absence is what the '
                        'correspondence observes (first contribution deep-copied)',
                        'all contributions to one whole signal use one representation: a matrix signal receives either only '
                        'DyadCarrier or only dense contributions (DyadCarrier.__iadd__ accepts DyadCarriers only; a dense '
                        'contribution after a DyadCarrier raises AttributeError), and DyadCarrier-typed signals are not sliced '
                        '(DyadCarrier.__setitem__ only zeroes rows/columns); matrix-valued slices of dense signals take both',
                        'user-defined sensitivity types are observed through their own dense view; signals carrying them are '
                        'referenced whole and all their contributions have that type (a SignalSlice allocates base.state * 0, an '
                        'ndarray); Model/NetBuild.v sig_add has the three accumulation branches, the network model the common value',
                        'a module without outputs that hands out sensitivities of its own is not an adjoint pair: such cases are '
                        'compared with the model (raw_case) and with the oracle (its contributions count as seeds on its inputs), '
                        'the main theorem does not speak about them',
                        'evaluations of partial networks and of shadow networks between append() calls are not in the Coq model '
                        '(it has no state between evaluations); that they leave no trace is what correspondence and the '
                        'pristine-reference oracle observe',
                        'what print_timing prints (and the clock) is not modelled; the model has the two loops of '
                        'Network.response / Network.sensitivity selected by `print_timing is not False`']
    ctx.trusted += ['Print Assumptions: all C02 theorems are closed under the global context (no axioms)',
                    'flattening of numpy arrays / slice chains to position lists via np.arange(size).reshape(shape)[slice] '
                    '(harness canonicalisation)', 'DyadCarrier.todense() to observe DyadCarrier-valued sensitivities']
    vlib.audit(ctx)
    if not vlib.ensure_static(ctx):
        return
    vlib.check_props(ctx)

    def stats(k):
        ctx.count(k)
    cases = []
    for p in sorted(glob.glob(os.path.join(vlib.ROOT, 'corpus', 'C02', '*.json'))):
        with open(p) as f:
            d = json.load(f)
        for i, c in enumerate(d['cases'] if 'cases' in d else [d]):
            cases.append((f'corpus:{os.path.basename(p)}:{i}', c))
    for name, c in stress_cases():
        cases.append(('stress:' + name, c))
    ctx.count('fixed-cases(corpus+stress)', len(cases))
    replaying = bool(getattr(ctx, 'replay', None))
    if replaying:       # re-execute exactly the recorded case (same name, so that the violation record is identical)
        with open(ctx.replay if os.path.isabs(ctx.replay) else os.path.join(vlib.ROOT, ctx.replay)) as f:
            rc = json.load(f)['case']
        cases = [(rc['name'], rc['case'])] if isinstance(rc, dict) and 'case' in rc else []
    else:
        ngen = 1200 if ctx.quick() else 8000
        for i in range(ngen):
            cases.append((f'gen:{i}', None))

    checks, labels, ran = [], [], []
    nlimit = 0
    for name, case in cases:
        states = None
        if nlimit >= 3:         # the implementation keeps running away: already reported, do not burn the budget
            ctx.count('not-run:after-3-runaway-cases')
            continue
        for attempt in range(20):
            if name.startswith('gen:') and not replaying:
                case = decorate(ctx.rng, gen_case(ctx.rng, stats), stats)
            info = {}
            try:
                states, sens = run_impl(pym, classes, case, stats=stats, info=info)
            except Exception as e:      # a valid case must run
                nlimit += isinstance(e, (ImplLimit, MemoryError))
                ctx.violation('impl-violates', 'Network.response/sensitivity', 'a well-formed graph evaluates without exception',
                              'module DAG', dict(name=name, case=case), expected='states and sensitivities', got=repr(e)[:500])
                states = None
                break
            # keep every float operation of the implementation exact: |state| <= 2^16, |sensitivity| <= 2^24
            if max([abs(v) for st in states if st for v in st] + [0]) <= 2 ** 16 and \
                    max([abs(v) for se in sens if se for v in se] + [0]) <= 2 ** 24:
                break
            ctx.count('discarded:magnitude')
            states = None
            if not name.startswith('gen:') or replaying:
                break
        if states is None:
            continue
        missing = [o for m in case['modules'] for o in m['outs'] if states[o] is None]
        if missing:
            ctx.violation('impl-violates', 'Network.response', 'every member module ran: every output signal has a state',
                          'construction history' if case.get('history') else 'module DAG', dict(name=name, case=case),
                          expected='states of all written signals', got=dict(signals_without_state=missing))
            continue
        if 'second' in info and info['second'] != sens:
            ctx.violation('impl-violates', 'Network.sensitivity', 'second design iteration (reset, response, seeds, sensitivity) '
                          'leaves the same sensitivities', 'construction history', dict(name=name, case=case),
                          expected=sens, got=info['second'])
        ran.append((name, case, states, sens))
        ft = features(case)
        for x in ft:
            ctx.count('feature:' + x)
        ctx.count(f"modules:{len(case['modules'])}")
        ctx.count(f"nest-depth:{depth(case['tree'])}")
        ctx.count(f"seeds:{min(len(case['seeds']), 4)}")
        for m in case['modules']:
            ctx.count('kind:' + m['kind'] + (':' + m['expr'] if m['kind'] == 'einsum' else ''))
        nontrivial = any(sens[int(k)] is not None and any(sens[int(k)]) for k in case['sources'])
        for kind, expr in coq_checks(case, states, sens):
            checks.append(expr)
            labels.append((name, kind))
            ctx.case((kind, json.dumps(case, sort_keys=True)), nontrivial,
                     sample=dict(case=name, kind=kind, features=sorted(ft), coq=expr[:400]))
    # malformed stream (about 10%): out-of-protocol mini networks, only the exception class is compared
    nmal = 0 if replaying else max(20, len(checks) // 10)
    for i in range(nmal):
        label, obs, expr = malformed_case(pym, ctx.rng)
        ctx.count('malformed:' + label[0])
        ctx.count('malformed-error:' + obs)
        checks.append(expr)
        labels.append((f'malformed:{i}', label))
        ctx.case(('malformed',) + label, False)
    failing, err = vlib.run_cases(ctx, 'net', HEADER, checks, chunk=60 if ctx.quick() else 150)
    ctx.obligation('correspondence:case files evaluated', 'correspondence', not err, err)
    if err:
        ctx.violation('correspondence', 'Network', 'case files compile', 'harness', dict(error=err[-3000:]), theorem='cases_net')
    bycase = {name: (case, states, sens) for name, case, states, sens in ran}
    for idx in failing[:20]:
        name, kind = labels[idx]
        if name.startswith('malformed:'):
            ctx.violation('correspondence', 'Module.response/sensitivity error dispatch', 'exception class == model', str(kind[0]),
                          dict(name=name, parameters=list(kind), coq_check=checks[idx]),
                          note='the exception class raised by the implementation differs from the model (Net.v errclass)')
            continue
        case, states, sens = bycase[name]
        vals, _ = vlib.eval_coq(ctx, f'fail{idx}', HEADER, [model_expr(case, states, kind)])
        ctx.violation('correspondence', 'Network.sensitivity' if kind == 'sens' else 'Network.response',
                      'model == implementation', kind, dict(name=name, case=case),
                      expected=dict(model=vals), got=dict(states=states, sens=sens),
                      note='Coq model (Net.v) and implementation differ, or the case leaves the theorem\'s domain (net_ok)')

    # ---- implementation-side oracle: total derivative by dense forward mode (exact) and by central differences
    for name, case, states, sens in ran:
        if case.get('history'):
            # pristine reference: the same graph built in one go (fresh signal / module / network objects, every inner
            # network complete before it is handed to its parent), evaluated once
            ctx.search_evaluations += 1
            ref_case = {k: v for k, v in case.items() if k != 'history'}
            try:
                ref = run_impl(pym, classes, ref_case)
            except Exception as e:
                ref = repr(e)[:300]
            if ref != (states, sens):
                ctx.violation('impl-violates', 'Network.append', 'states and sensitivities do not depend on the order of the '
                              'append() calls', 'construction history', dict(name=name, case=case),
                              expected=ref, got=[states, sens])
                continue
        if any(m['kind'] == 'concat' for m in case['modules']):
            ctx.search_evaluations += 1
            bad = oracle_concat(case, states)
            if bad:
                ctx.violation('impl-violates', 'ConcatSignal.response', 'state == row-major concatenation of the input states',
                              'module DAG', dict(name=name, case=case), expected=[b[1] for b in bad], got=[b[2] for b in bad])
                continue
        ctx.search_evaluations += 1
        bad = oracle_dense(case, states, sens)
        if bad:
            ctx.violation('impl-violates', 'Network.sensitivity', 'source sensitivity == dense forward-mode total derivative',
                          'module DAG', dict(name=name, case=case), expected=[b[1] for b in bad], got=[b[2] for b in bad])
            continue
        if any(is_nonlinear(m) for m in case['modules']) or ctx.search_evaluations % 10 == 0 or \
                (not name.startswith('gen:') and any(m['kind'] == 'concat' for m in case['modules'])):
            try:
                bad, skipped = oracle_fd(pym, classes, case, sens)
            except Exception as e:
                ctx.violation('impl-violates', 'Network.response', 'a well-formed graph evaluates without exception',
                              'module DAG', dict(name=name, case=case), expected='states', got=repr(e)[:500])
                continue
            if skipped:
                ctx.count('oracle-fd:skipped-magnitude')
                continue
            ctx.search_evaluations += 1
            if bad:
                ctx.violation('impl-violates', 'Network.sensitivity', 'source sensitivity == finite difference of the response',
                              'module DAG', dict(name=name, case=case), expected=[b[2] for b in bad], got=[b[3] for b in bad])


def model_expr(case, states, kind):
    n = len(case['signals'])
    dims = [size_of(s['shape']) for s in case['signals']]
    tree = coq_tree(case, states)
    if kind == 'sens' and (case.get('history') or any(m['kind'] == 'inject' for m in case['modules'])):
        seeds = [case['seeds'].get(str(i)) for i in range(n)]
        raw, pool, ops = coq_pool(case, states)
        if raw:
            return (f"(match mbuilt {ops} {pool} with Some o => Some (wf_net (flatten (obj_node o)), "
                    f"show_c {n} (bwd_obj (dims_of {nl(dims)}) o (cenv_of {opt_list(seeds)}))) | None => None end)")
        return (f"(match sbuilt {ops} {pool} with Some o => Some (net_ok {n} (dims_of {nl(dims)}) (obj_stree o), "
                f"show_c {n} (bwd_node (dims_of {nl(dims)}) (to_node (obj_stree o)) (cenv_of {opt_list(seeds)}))) | None => None end)")
    if kind == 'sens':
        seeds = [case['seeds'].get(str(i)) for i in range(n)]
        return (f"(net_ok {n} (dims_of {nl(dims)}) ({tree}), "
                f"show_c {n} (bwd_node (dims_of {nl(dims)}) (to_node ({tree})) (cenv_of {opt_list(seeds)})))")
    init = [case['sources'].get(str(i), []) for i in range(n)]
    return f"show_t {n} (fwd_node (to_node ({tree})) (env_of {zl(init)}%Z))"


if __name__ == '__main__':
    vlib.main(run, 'C02')
