"""C20 — result files decode back to the data that was written.

(H) correspondence: the real DomainDefinition.write_to_vti / WriteToVTI / ScalarToFile write into a scratch directory
(tempfile.mkdtemp(), removed in a finally); the bytes of the files, the XML structure parsed by Python and the RAW base64
strings are handed to Coq, where Model/Vti.v, Model/Log.v and the decoder of Model/B64.v are evaluated and compared.
Oracle: decode in Python (xml.etree + base64.b64decode + np.frombuffer) and compare with the inputs.
"""
import os, sys, json, math, shutil, tempfile, warnings, base64, re
from fractions import Fraction
import xml.etree.ElementTree as ET
import numpy as np
import vlib
from vlib import zl, ql, zlit, qlit, blit

HEADER = '''From Coq Require Import ZArith QArith List Bool.
From Pymoto Require Import Base.Num Base.Cmp Base.Bytes Model.Grid Model.B64 Model.Vti Model.Log.
Import ListNotations.
Open Scope Z_scope.
Definition G (a b c : Z) := {| nelx := a; nely := b; nelz := c |}.
Definition tol : Q := (1 # 1000000000)%Q.
Definition andl (l : list bool) : bool := forallb (fun b => b) l.
Fixpoint all2 {A B} (f : A -> B -> bool) (a : list A) (b : list B) : bool :=
  match a, b with [] , [] => true | x :: a', y :: b' => f x y && all2 f a' b' | _, _ => false end.
Definition ostr_eqb := option_eqb Zl_eqb.
(* result of a write: exception code (0 = none), the file that exists afterwards *)
Definition file_ok (r : res (option str)) (code : Z) (obs : option str) : bool :=
  match r with Err e => exn_code e =? code | Ok o => (code =? 0) && ostr_eqb o obs end.
(* one <DataArray> as parsed from the XML: point?, name, NumberOfComponents, raw base64 text, expected float32 bytes *)
Definition arr_ok (d : darray) (o : bool * str * Z * str * list Z) : bool :=
  match o with (pt, name, nc, raw, expect) =>
    Bool.eqb (da_point d) pt && Zl_eqb (da_name d) name && (da_ncomp d =? nc)
    && ostr_eqb (vtk_block_data raw) (Some (concat (da_words d)))
    && option_eqb Z.eqb (vtk_block_header raw) (Some (Z.of_nat (length raw) - 12))
    && ostr_eqb (vtk_block_data raw) (Some expect)
  end.
Definition arrays_ok (r : res (list darray)) (code : Z) (obs : list (bool * str * Z * str * list Z)) : bool :=
  match r with Ok ds => (code =? 0) && all2 arr_ok ds obs | Err e => exn_code e =? code end.
(* decoding only (no model): the raw text decodes to the expected bytes *)
Definition decode_ok (raw : str) (expect : list Z) : bool := ostr_eqb (vtk_block_data raw) (Some expect).
Definition fs_ok (r : res (list (str * str))) (code : Z) (obs : list (str * str)) : bool :=
  match r with
  | Err e => exn_code e =? code
  | Ok fs => (code =? 0) && Nat.eqb (length fs) (length obs)
             && forallb (fun nb => existsb (fun ob => Zl_eqb (fst nb) (fst ob) && Zl_eqb (snd nb) (snd ob)) obs) fs
  end.
Definition sid (s : str) : str := s.
Definition log_ok (r : res lstate) (code : Z) (niter : Z) (obs : str) : bool :=
  match r with Err e => exn_code e =? code | Ok st => (code =? 0) && (l_iter st =? niter) && Zl_eqb (log_file st) obs end.
(* reading the log back inside Coq (single-character separator): row k starts with k and has as many columns as row 0 *)
Definition rows_ok (sepc : Z) (obs : str) (nrows ncols : Z) (hdr_too : bool) : bool :=
  match split_on 10 obs with
  | [] => false
  | hdr :: rest =>
    let rows := removelast rest in
    (Z.of_nat (length rows) =? nrows) && Zl_eqb (last rest [1]) []
    && (negb hdr_too || (Z.of_nat (length (split_on sepc hdr)) =? ncols))
    && all2 (fun r k => let cs := split_on sepc r in
                        (Z.of_nat (length cs) =? ncols) && option_eqb Z.eqb (parse_dec (hd [] cs)) (Some k))
            rows (zrange nrows)
  end.
'''

EXN = {'TypeError': 1, 'ValueError': 2, 'IndexError': 3, 'AssertionError': 4, 'RuntimeError': 5}

def exn_code(e):
    if e is None:
        return 0
    return EXN.get(type(e).__name__, 6)


def sl(s):
    """text / bytes -> Coq list of codes"""
    if isinstance(s, str):
        s = s.encode()
    return '[' + ';'.join(str(b) for b in s) + ']'


def osl(b):
    return 'None' if b is None else f'(Some {sl(b)})'


def words_of(a):
    """float32 image of the entries in logical C order, as 4-byte words (ndarray.astype is the oracle)"""
    b = np.ascontiguousarray(a).astype('<f4').tobytes()
    return [list(b[i:i + 4]) for i in range(0, len(b), 4)]


def wl(ws):
    return '[' + ';'.join('[' + ';'.join(map(str, w)) + ']' for w in ws) + ']'


def num(x):
    """exact rational of a python/numpy number"""
    if isinstance(x, (int, np.integer)):
        return Fraction(int(x))
    return Fraction(float(x))


def small_dyadic(x):
    f = num(x)
    d = f.denominator
    return d & (d - 1) == 0 and d <= 1024 and abs(f.numerator) < 2 ** 20


# ----------------------------------------------------------------------------- building inputs from specs
def build_array(v):
    with warnings.catch_warnings():
        warnings.simplefilter('ignore')
        a = np.array(v['values'], dtype=float).astype(v.get('dtype', 'f8')).reshape(v['shape'])
    lay = v.get('layout', 'C')
    if lay == 'F' and a.ndim == 2:
        a = np.asfortranarray(a)
    elif lay == 'strided' and a.ndim >= 1 and a.shape[-1] > 0:
        big = np.zeros(a.shape[:-1] + (2 * a.shape[-1],), dtype=a.dtype)
        big[..., ::2] = a
        a = big[..., ::2]
    return a


def spec_entry(dom, a):
    """What the PROPERTY demands for one input array (independent of the implementation):
    ('cell'|'point', [(ncomp, float32 vector)]) , 'skip' (neither), or None (the size does not determine it)."""
    nel, nn = dom.nel, dom.nnodes
    if a.ndim == 1:
        ax, vecs = 0, None
    elif a.ndim == 2:
        ax = None
    else:
        return None
    kinds = []
    for axis in range(a.ndim):
        L = a.shape[axis]
        if L > 0 and L % nel == 0:
            kinds.append((axis, 'cell', L // nel))
        if L > 0 and L % nn == 0:
            kinds.append((axis, 'point', L // nn))
    if a.ndim == 1 and not kinds:
        return 'skip'
    if len(kinds) != 1:
        return None
    axis, kind, nc = kinds[0]
    with warnings.catch_warnings():
        warnings.simplefilter('ignore')
        f = np.ascontiguousarray(a).astype('<f4')
    if a.ndim == 1:
        vs = [f]
    else:
        vs = [f[:, i] if axis == 0 else f[i, :] for i in range(a.shape[1 - axis])]
    out = []
    for v in vs:
        if kind == 'point' and nc == 2 and dom.dim == 2:
            p = np.zeros(3 * nn, dtype='<f4')
            p[0::3], p[1::3] = v[0::2], v[1::2]
            out.append((3, p))
        else:
            out.append((nc, np.ascontiguousarray(v)))
    return kind, out


def parse_vti(data):
    """independent reader: XML structure + raw base64 text of every array"""
    root = ET.fromstring(data)
    img = root.find('ImageData')
    piece = img.find('Piece')
    arrays = []
    for sec in piece:
        for da in sec:
            arrays.append(dict(point=(sec.tag == 'PointData'), section=sec.tag, name=da.get('Name'), ncomp=int(da.get('NumberOfComponents')),
                               type=da.get('type'), format=da.get('format'), raw=da.text.strip('\n'), tag=da.tag))
    return dict(root=root.tag, rattr=dict(root.attrib), iattr=dict(img.attrib), pattr=dict(piece.attrib),
                sections=[s.tag for s in piece], arrays=arrays)


def py_decode(raw):
    hdr = base64.b64decode(raw[:12], validate=True)
    body = base64.b64decode(raw[12:], validate=True)
    return int.from_bytes(hdr, 'little'), body


def listdir_rec(d):
    out = {}
    for base, _, files in os.walk(d):
        for f in files:
            p = os.path.join(base, f)
            out[os.path.relpath(p, d)] = open(p, 'rb').read()
    return out


def vec_lit(name, a):
    return f'({sl(name)}, {zl(list(a.shape))}, {wl(words_of(a))})'


def geom_strings(dom_unit, scale, origin):
    """the six numbers as Python prints them (float/np.float64 formatting is an oracle, evaluated here outside pymoto)"""
    es = np.array(dom_unit)
    d = es[0:3] * scale
    org = (0.0, 0.0, 0.0) if origin is None else tuple(origin)
    return [f'{org[i] * scale}' for i in range(3)], [f'{d[i]}' for i in range(3)], [org[i] * scale for i in range(3)], list(d)


class Scratch:
    """scratch directory outside /repo and /verif; the process works inside it with relative paths"""
    def __enter__(self):
        self.old = os.getcwd()
        self.dir = tempfile.mkdtemp(prefix='c20_')
        real = os.path.realpath(self.dir)
        assert not real.startswith('/repo') and not real.startswith(vlib.ROOT), real
        os.chdir(self.dir)
        self.n = 0
        return self

    def fresh(self):
        self.n += 1
        d = os.path.join(self.dir, f'k{self.n}')
        os.makedirs(d)
        os.chdir(d)
        return d

    def __exit__(self, *a):
        os.chdir(self.old)
        shutil.rmtree(self.dir, ignore_errors=True)


# ----------------------------------------------------------------------------- one VTI case
def run_vti(ctx, pym, sc, spec, checks, labels, oracle_jobs):
    nx, ny, nz = spec['domain']
    unit = spec.get('unit', [1.0, 1.0, 1.0])
    scale = spec.get('scale', 1.0)
    origin = spec.get('origin')
    fn = spec.get('filename', 'out.vti')
    dom = pym.DomainDefinition(nx, ny, nz, *unit)
    arrays = [(v['name'], build_array(v)) for v in spec['vectors']]
    wd = sc.fresh()
    if os.path.dirname(fn):
        os.makedirs(os.path.dirname(fn), exist_ok=True)
    vectors = {}
    for n_, a in arrays:
        vectors[n_] = a
    kw = dict(filename=fn, scale=scale)
    if origin is not None:
        kw['origin'] = tuple(origin)
    err = None
    with warnings.catch_warnings():
        warnings.simplefilter('ignore')
        try:
            dom.write_to_vti(vectors, **kw)
        except Exception as e:  # noqa
            err = e
    files = listdir_rec(wd)
    code = exn_code(err)
    g = f'(G {nx} {ny} {nz})'
    org_s, spc_s, org_v, spc_v = geom_strings(unit, scale, origin)
    # the dictionary the implementation saw (python dict semantics are part of the caller here)
    vs_lit = '[' + '; '.join(vec_lit(n_, a) for n_, a in vectors.items()) + ']'
    parts = {}
    obs_file = None
    if code == 0:
        if len(files) > 1:
            raise RuntimeError(f'unexpected files {list(files)}')
        if files:
            (name, data), = files.items()
            obs_file = data
            parts['filename'] = f'Zl_eqb (vti_filename {sl(fn)}) {sl(name)}'
    parts['file'] = f'file_ok (vti_file g {"[" + ";".join(map(sl, org_s)) + "]"} {"[" + ";".join(map(sl, spc_s)) + "]"} vs) {code} {osl(obs_file)}'
    parsed = None
    if obs_file is not None:
        parsed = parse_vti(obs_file)
        # expected float32 bytes per array: from the property-level spec where the sizes determine it, else python's decoder
        expect = expected_bytes(dom, vectors, parsed)
        obs = []
        for a_, ex in zip(parsed['arrays'], expect):
            obs.append(f'({blit(a_["point"])}, {sl(a_["name"])}, {a_["ncomp"]}, {sl(a_["raw"])}, {sl(ex)})')
        parts['arrays'] = f'arrays_ok (vti_arrays g vs) 0 [{"; ".join(obs)}]'
        # geometry: numbers parsed from the header against origin*scale, element_size*scale
        po = [Fraction(float(t)) for t in parsed['iattr']['Origin'].split()]
        ps = [Fraction(float(t)) for t in parsed['iattr']['Spacing'].split()]
        o3 = (0.0, 0.0, 0.0) if origin is None else origin
        exact = all(small_dyadic(x) for x in list(unit) + [scale] + list(o3))
        cmpf = 'Ql_eqb' if exact else 'Ql_close (Qmult tol ' + qlit(max([abs(num(x)) for x in list(o3) + list(unit)] + [1]) * abs(num(scale)) + 1) + '%Q)'
        parts['geometry'] = (f'({cmpf} (geom_origin {qlit(num(scale))}%Q {ql([num(x) for x in o3])}%Q) {ql(po)}%Q && '
                             f'{cmpf} (geom_spacing {qlit(num(scale))}%Q {ql([num(x) for x in unit])}%Q) {ql(ps)}%Q && '
                             f'Zl_eqb (extent g) {sl(parsed["iattr"]["WholeExtent"])} && Zl_eqb (extent g) {sl(parsed["pattr"]["Extent"])})')
        ctx.count('geometry_exact' if exact else 'geometry_tol')
    elif code != 0:
        parts['arrays'] = f'arrays_ok (vti_arrays g vs) {code} []'
    # float32 contract of astype, checked in Coq on the values of this case (finite, in range)
    fl = []
    for n_, a in vectors.items():
        if a.dtype.kind == 'f' and a.size and spec.get('f32check', True):
            flat = np.ascontiguousarray(a).ravel()[:6]
            for x, w in zip(flat, words_of(flat)):
                if np.isfinite(x) and abs(float(x)) < 3.0e38:
                    fl.append(f'f32_close {qlit(Fraction(float(x)))}%Q {zl(w)} && word_okb {zl(w)}')
    if fl:
        parts['f32-contract'] = '(' + ' && '.join(fl) + ')'
        ctx.oracle_validation['ndarray.astype(float32): value within half an ulp (checked in Coq)'] = \
            ctx.oracle_validation.get('ndarray.astype(float32): value within half an ulp (checked in Coq)', 0) + len(fl)
    keys = list(parts)
    expr = f'(let g := {g} in let vs := {vs_lit} in andl [{"; ".join(parts[k] for k in keys)}])'
    label = dict(kind='vti', spec=spec, parts=keys, sub=[f'(let g := {g} in let vs := {vs_lit} in {parts[k]})' for k in keys])
    checks.append(expr)
    labels.append(label)
    shp = tuple(tuple(a.shape) for _, a in arrays)
    nontrivial = obs_file is not None and len(parsed['arrays']) >= 1
    ctx.case(('vti', tuple(spec['domain']), shp, spec.get('scale'), str(spec.get('origin')), fn, code, spec.get('tag')), nontrivial,
             sample=dict(kind='vti', domain=spec['domain'], shapes=[list(s) for s in shp], scale=scale, filename=fn,
                         exception=code, arrays=None if parsed is None else [(a_['section'], a_['name'], a_['ncomp']) for a_ in parsed['arrays']]))
    ctx.count(f'vti:dim{dom.dim}')
    ctx.count(f'vti:class:{spec.get("class", "structured")}')
    ctx.count(f'vti:exception:{type(err).__name__ if err else "none"}')
    for _, a in arrays:
        ctx.count(f'vti:ndim{a.ndim}')
    oracle_jobs.append(('vti', spec, dom, vectors, obs_file, err, scale, origin, unit))


def expected_bytes(dom, vectors, parsed):
    """float32 bytes every array of the file has to decode to, in file order: derived from the INPUTS through the
    property-level spec when the sizes determine kind/components; otherwise (ambiguous sizes) python's decoder"""
    want = {'PointData': [], 'CellData': []}
    determined = True
    for n_, a in vectors.items():
        sp_ = spec_entry(dom, a)
        if sp_ is None:
            determined = False
            break
        if sp_ == 'skip':
            continue
        kind, vs = sp_
        for nc, v in vs:
            want['PointData' if kind == 'point' else 'CellData'].append(v.tobytes())
    out = []
    if determined and len(want['PointData']) + len(want['CellData']) == len(parsed['arrays']):
        it = {k: iter(v) for k, v in want.items()}
        ok = True
        for a_ in parsed['arrays']:
            try:
                out.append(next(it[a_['section']]))
            except StopIteration:
                ok = False
                break
        if ok:
            return out
    out = []
    for a_ in parsed['arrays']:
        try:
            out.append(py_decode(a_['raw'])[1])
        except Exception:  # noqa  (not valid base64: the Coq decoder has to reject it as well; the oracle reports it)
            out.append(b'')
    return out


# ----------------------------------------------------------------------------- WriteToVTI histories
def run_wvti(ctx, pym, sc, spec, checks, labels, oracle_jobs):
    nx, ny, nz = spec['domain']
    unit = spec.get('unit', [1.0, 1.0, 1.0])
    scale = spec.get('scale', 1.0)
    dom = pym.DomainDefinition(nx, ny, nz, *unit)
    wd = sc.fresh()
    sigs = [pym.Signal(t) for t in spec['tags']]
    kw = dict(domain=dom, saveto=spec['saveto'])
    if 'overwrite' in spec:
        kw['overwrite'] = spec['overwrite']
    if 'scale' in spec:
        kw['scale'] = spec['scale']
    err = None
    calls = []
    with warnings.catch_warnings():
        warnings.simplefilter('ignore')
        try:
            m = pym.WriteToVTI(sigs, **kw)
            for it in spec['iterations']:
                arrs = [build_array(v) for v in it]
                for s, a in zip(sigs, arrs):
                    s.state = a
                calls.append(arrs)
                m.response()
        except Exception as e:  # noqa
            err = e
    files = listdir_rec(wd)
    code = exn_code(err)
    g = f'(G {nx} {ny} {nz})'
    org_s, spc_s, _, _ = geom_strings(unit, scale, None)
    calls_lit = '[' + '; '.join('[' + '; '.join(vec_lit(t, a) for t, a in zip(spec['tags'], arrs)) + ']' for arrs in calls) + ']'
    obs = '[' + '; '.join(f'({sl(n_)}, {sl(b)})' for n_, b in sorted(files.items())) + ']'
    overwrite = bool(spec.get('overwrite', False))
    run = (f'wvti_run {g} {sl(spec["saveto"])} {blit(overwrite)} {"[" + ";".join(map(sl, org_s)) + "]"} '
           f'{"[" + ";".join(map(sl, spc_s)) + "]"} 0 {calls_lit} []')
    expr = f'fs_ok ({run}) {code} {obs}' if code == 0 else f'fs_ok ({run}) {code} []'
    checks.append('(' + expr + ')')
    labels.append(dict(kind='wvti', spec=spec, parts=['files'], sub=['(' + expr + ')'], observed_files=sorted(files)))
    ctx.case(('wvti', tuple(spec['domain']), spec['saveto'], overwrite, scale, len(calls), tuple(spec['tags']), code, spec.get('tag')),
             len(files) >= 1, sample=dict(kind='WriteToVTI', domain=spec['domain'], saveto=spec['saveto'], overwrite=overwrite,
                                          iterations=len(calls), files=sorted(files), exception=code))
    ctx.count(f'wvti:iterations{len(spec["iterations"])}')
    ctx.count(f'wvti:overwrite{int(overwrite)}')
    ctx.count(f'wvti:exception:{type(err).__name__ if err else "none"}')
    oracle_jobs.append(('wvti', spec, dom, calls, files, err))


# ----------------------------------------------------------------------------- ScalarToFile histories
def build_logval(v):
    """spec -> python object handed to the signal"""
    t = v['type']
    if t == 'float':
        return float(v['value'])
    if t == 'np.float64':
        return np.float64(v['value'])
    if t == 'np.float32':
        return np.float32(v['value'])
    if t == 'int':
        return int(v['value'])
    if t == '0d':
        return np.array(float(v['value']))
    a = np.array(v['values'], dtype=float).reshape(v['shape'])
    if v.get('layout') == 'F' and a.ndim == 2:
        a = np.asfortranarray(a)
    return a


def logval_lit(obj, fmt):
    """Coq literal of a logged value; entries are already formatted (float.__format__ is the oracle)"""
    if isinstance(obj, np.ndarray) and obj.ndim >= 1:
        forder = obj.ndim == 2 and obj.flags.f_contiguous and not obj.flags.c_contiguous
        ents = [x.__format__(fmt) for x in np.ascontiguousarray(obj).ravel()]
        return f'(LArr {zl(list(obj.shape))} [{";".join(sl(e) for e in ents)}] {blit(forder)})'
    return f'(LNum {sl(obj.__format__(fmt))})'


def run_log(ctx, pym, sc, spec, checks, labels, oracle_jobs):
    wd = sc.fresh()
    sigs = [pym.Signal(t) for t in spec['tags']]
    kw = dict(saveto=spec['saveto'])
    if 'fmt' in spec:
        kw['fmt'] = spec['fmt']
    if 'separator' in spec:
        kw['separator'] = spec['separator']
    fmt = spec.get('fmt', '.10e')
    sep = spec.get('separator', '\t')
    err = None
    calls = []
    with warnings.catch_warnings():
        warnings.simplefilter('ignore')
        try:
            m = pym.ScalarToFile(sigs, **kw)
            for it in spec['iterations']:
                objs = [build_logval(v) for v in it]
                for s, o in zip(sigs, objs):
                    s.state = o
                calls.append(objs)
                m.response()
        except Exception as e:  # noqa
            err = e
    files = listdir_rec(wd)
    code = exn_code(err)
    calls_lit = '[' + '; '.join('[' + '; '.join(f'({sl(t)}, {logval_lit(o, fmt)})' for t, o in zip(spec['tags'], objs)) + ']'
                                for objs in calls) + ']'
    run = f'log_run str sid (separator {sl(spec["saveto"])} {sl(sep)}) l_init {calls_lit}'
    parts = {}
    data = None
    if code == 0:
        if list(files) != [spec['saveto']]:
            raise RuntimeError(f'unexpected files {list(files)} for {spec["saveto"]}')
        data = files[spec['saveto']]
        parts['file'] = f'log_ok ({run}) 0 {len(calls)} {sl(data)}'
        effsep = ',' if '.csv' in spec['saveto'] else sep
        width = re.match(r'[+]?\d', fmt) is not None
        if len(effsep) == 1 and calls and not (width and effsep == ' '):
            ncols = 1 + sum((o.size if isinstance(o, np.ndarray) and o.ndim >= 1 else 1) for o in calls[0])
            hdr_free = not any(effsep in t for t in spec['tags']) and not (
                effsep in ', ' and any(isinstance(o, np.ndarray) and o.ndim >= 2 for o in calls[0]))
            parts['rows'] = f'rows_ok {ord(effsep)} {sl(data)} {len(calls)} {ncols} {blit(hdr_free)}'
    else:
        parts['file'] = f'log_ok ({run}) {code} 0 []'
    keys = list(parts)
    checks.append(f'(andl [{"; ".join(parts[k] for k in keys)}])')
    labels.append(dict(kind='log', spec=spec, parts=keys, sub=[f'({parts[k]})' for k in keys]))
    shapes = tuple(tuple(o.shape) if isinstance(o, np.ndarray) else () for o in (calls[0] if calls else []))
    ctx.case(('log', spec['saveto'], fmt, sep, len(calls), shapes, code, spec.get('tag')), code == 0 and len(calls) >= 1,
             sample=dict(kind='ScalarToFile', saveto=spec['saveto'], fmt=fmt, separator=sep, iterations=len(calls),
                         text=None if data is None else data.decode()[:200], exception=code))
    ctx.count(f'log:fmt:{fmt}')
    ctx.count(f'log:sep:{sep!r}')
    ctx.count(f'log:iterations{len(spec["iterations"])}')
    ctx.count(f'log:exception:{type(err).__name__ if err else "none"}')
    k = 'float.__format__ / np.floating.__format__ (entries formatted by the harness, outside pymoto)'
    ctx.oracle_validation[k] = ctx.oracle_validation.get(k, 0) + sum(
        (o.size if isinstance(o, np.ndarray) else 1) for objs in calls for o in objs)
    oracle_jobs.append(('log', spec, calls, files, err, fmt, sep))


# ----------------------------------------------------------------------------- generators
NAMES = ['x', 'u', 'rho', 'T', 'disp', 'f', 'sens_x', 'a b', 'v-1', 'K.e', 'q2']


def rand_values(rng, n, style):
    if style == 'int':
        return [float(rng.randint(-20, 20)) for _ in range(n)]
    if style == 'dyadic':
        return [rng.randint(-64, 64) / 16.0 for _ in range(n)]
    if style == 'wide':
        return [rng.choice((-1, 1)) * rng.random() * 10.0 ** rng.randint(-30, 30) for _ in range(n)]
    return [rng.gauss(0.0, 1.0) for _ in range(n)]


def good_domains(quick):
    mx, my, mz = (5, 4, 2) if quick else (6, 5, 3)
    out = []
    for a in range(1, mx + 1):
        for b in range(1, my + 1):
            for c in range(0, mz + 1):
                nel, nn = a * b * max(c, 1), (a + 1) * (b + 1) * (c + 1)
                if nn % nel != 0 and nn <= (60 if quick else 120):
                    out.append((a, b, c))
    return out


def gen_vector(rng, dom3, name, want=None):
    """one structured vector spec for the domain; returns spec (sizes chosen per the property's quantifier)"""
    a, b, c = dom3
    nel, nn = a * b * max(c, 1), (a + 1) * (b + 1) * (c + 1)
    dim = 2 if c == 0 else 3
    kind = want or rng.choice(['cell', 'cell', 'point', 'point', 'point', 'block', 'block'])
    style = rng.choice(['float', 'float', 'int', 'dyadic', 'wide'])
    lay = rng.choice(['C', 'C', 'C', 'F', 'strided'])
    dtype = rng.choice(['f8', 'f8', 'f8', 'f4', 'i8'])
    if dtype == 'i8':
        style = 'int'
    if kind == 'cell':
        shape = [rng.choice([1, 1, 1, 2, 3, 6]) * nel]
    elif kind == 'point':
        shape = [rng.choice([1, dim, dim, 2, 3]) * nn]
    else:
        n = rng.choice([nel, nn, nn])
        comp = rng.choice([1, dim, dim, 2, 3] if n == nn else [1, 1, 3])
        k = rng.choice([1, 2, 2, 3, 4, 5, 10, 11])
        shape = [k, comp * n] if rng.random() < 0.6 else [comp * n, k]
    size = int(np.prod(shape))
    return dict(name=name, shape=shape, values=rand_values(rng, size, style), dtype=dtype, layout=lay)


def is_unambiguous(dom3, shape):
    """the property's quantifier read on the sizes in play: exactly one (axis, kind) pair fits, i.e. the sizes determine
    kind, vector axis and component count (plain vectors: the size fits one of nel / nnodes only)"""
    a, b, c = dom3
    nel, nn = a * b * max(c, 1), (a + 1) * (b + 1) * (c + 1)
    cands = [(ax, k) for ax in range(len(shape)) for k, n in (('cell', nel), ('point', nn)) if shape[ax] > 0 and shape[ax] % n == 0]
    return len(cands) == 1


def gen_vti_spec(rng, quick, doms):
    dom3 = rng.choice(doms)
    nvec = rng.choice([1, 1, 2, 2, 3, 4])
    names = rng.sample(NAMES, nvec)
    vectors = []
    for n_ in names:
        for _ in range(20):
            v = gen_vector(rng, dom3, n_)
            if is_unambiguous(dom3, v['shape']):
                break
        else:
            v = gen_vector(rng, dom3, n_, want='cell')
        vectors.append(v)
    while sum(len(v['values']) for v in vectors) > 2500 and len(vectors) > 1:
        vectors.pop()        # keep one case below the size a Coq literal can have
    if sum(len(v['values']) for v in vectors) > 2500:
        vectors = [gen_vector(rng, dom3, names[0], want='cell')]
    spec = dict(kind='vti', domain=list(dom3), vectors=vectors)
    r = rng.random()
    if r < 0.5:
        spec['unit'] = [rng.choice([0.5, 1.0, 2.0, 0.25, 1.5]) for _ in range(3)]
        spec['scale'] = rng.choice([1.0, 2.0, 0.5, 4.0, 3, 0.125])
        if rng.random() < 0.6:
            spec['origin'] = [rng.choice([0.0, 1.0, -2.5, 0.75, 3, 10.0]) for _ in range(3)]
    elif r < 0.8:
        spec['unit'] = [round(rng.uniform(0.05, 3.0), rng.randint(1, 6)) for _ in range(3)]
        spec['scale'] = rng.choice([0.1, 1e-3, 2.54, rng.uniform(0.01, 50.0)])
        if rng.random() < 0.6:
            spec['origin'] = [rng.uniform(-5, 5) for _ in range(3)]
    spec['filename'] = rng.choice(['out.vti', 'res', 'a.VTI', 'sub/dat.vti', 'x.y', 'data.vtiX', 'r.0003.vti', '.hidden', 'p.q/file'])
    return spec


def gen_vti_malformed(rng, doms):
    small = [d for d in doms if (d[0] + 1) * (d[1] + 1) * (d[2] + 1) <= 30]     # keeps nel*nn, nn*nn arrays small
    dom3 = rng.choice(small + [(1, 1, 0), (2, 1, 0), (4, 3, 1), (3, 4, 0), (2, 2, 1)])
    a, b, c = dom3
    nel, nn = a * b * max(c, 1), (a + 1) * (b + 1) * (c + 1)
    what = rng.choice(['neither', 'neither+ok', 'ndim3', 'ambiguous-block', 'ambiguous-total', 'one-vector-block', 'empty-dict', 'zero-size',
                       'scalar0d', 'square', 'special-values'])
    vs = []
    f32check = True

    def mk(name, shape, style='int'):
        return dict(name=name, shape=list(shape), values=rand_values(rng, int(np.prod(shape)), style))
    if what == 'neither':
        vs = [mk('x', [nel * nn + 1])]
    elif what == 'neither+ok':
        vs = [mk('x', [nn + nel + 1 if (nn + nel + 1) % nel and (nn + nel + 1) % nn else 1]), mk('y', [nel])]
    elif what == 'ndim3':
        vs = [mk('x', [2, rng.choice([nel, nn]), 2])]
    elif what == 'ambiguous-block':
        vs = [mk('u', [rng.choice([2, nel, 2 * nel]), rng.choice([1, 2]) * nn])]
    elif what == 'ambiguous-total':
        vs = [mk('u', [nel * nn]), mk('w', [3 * nn])]
    elif what == 'one-vector-block':
        sh = [1, rng.choice([1, 2, 3]) * rng.choice([nn, nel])]
        vs = [mk('u', sh if rng.random() < 0.5 else sh[::-1])]
    elif what == 'empty-dict':
        vs = []
    elif what == 'zero-size':
        vs = [mk('z', rng.choice([[0], [0, nel], [3, 0], [nn, 0]]))]
    elif what == 'scalar0d':
        vs = [mk('s', []), mk('x', [nel])]
    elif what == 'square':
        vs = [mk('q', [nel, nel]), mk('r', [nn, nn])]
    else:
        vals = [0.0, -0.0, 1e-45, 1e-39, 3.5e38, 1e39, -1e300, float('inf'), float('-inf'), float('nan'), 1.0000000596046448, 16777217.0]
        n = nel
        vs = [dict(name='sp', shape=[n], values=[vals[(i + rng.randrange(len(vals))) % len(vals)] for i in range(n)])]
        f32check = False
    return dict(kind='vti', domain=list(dom3), vectors=vs, filename='m.vti', **{'class': 'malformed:' + what, 'f32check': f32check})


def gen_wvti_spec(rng, doms):
    dom3 = rng.choice(doms)
    nsig = rng.choice([1, 2, 3])
    tags = rng.sample(NAMES, nsig)
    if rng.random() < 0.1 and nsig >= 2:
        tags[1] = tags[0]   # repeated tag: dictionary semantics
    protos = []
    for t in tags:
        for _ in range(20):
            v = gen_vector(rng, dom3, t)
            if is_unambiguous(dom3, v['shape']):
                break
        else:
            v = gen_vector(rng, dom3, t, want='cell')
        protos.append(v)
    niter = rng.choice([1, 2, 3, 4, 5])
    while niter * sum(int(np.prod(p['shape'])) for p in protos) > 5000 and len(protos) > 1:
        protos.pop()
        tags.pop()
    if niter * sum(int(np.prod(p['shape'])) for p in protos) > 5000:
        protos = [gen_vector(rng, dom3, tags[0], want='cell')]
    its = []
    for _ in range(niter):
        its.append([dict(p, values=rand_values(rng, int(np.prod(p['shape'])), 'dyadic' if p.get('dtype') != 'i8' else 'int')) for p in protos])
    spec = dict(kind='wvti', domain=list(dom3), tags=tags, iterations=its,
                saveto=rng.choice(['out/dat.vti', 'dat.vti', 'res', 'a/b/c.VTI', 'run.1/out', 'x.dat', 'out.v2/f.vti', 'iter.vtiz']))
    if rng.random() < 0.7:
        spec['overwrite'] = rng.random() < 0.5
    if rng.random() < 0.6:
        spec['scale'] = rng.choice([1.0, 2.0, 0.5, 3, 0.1, 2.54])
    if rng.random() < 0.3:
        spec['unit'] = [rng.choice([0.5, 1.0, 2.0, 0.1]) for _ in range(3)]
    return spec


FMTS = ['e', 'f', 'g', '.3e', '.10e', '.5g', '.3f', '.0f', '+.4e', '12.4e', 'E', '.17g', '']
SEPS = ['\t', ',', ' ', ';', ' ; ', '|', '  ']


def gen_logval(rng, proto=None):
    style = rng.choice(['float', 'wide', 'int', 'dyadic'])
    if proto is None:
        t = rng.choice(['float', 'float', 'np.float64', 'np.float64', 'int', '0d', 'np.float32', 'arr1', 'arr1', 'arr2', 'arr2F'])
        if t == 'arr1':
            proto = dict(type='array', shape=[rng.choice([1, 2, 3, 4, 6])])
        elif t == 'arr2':
            proto = dict(type='array', shape=[rng.choice([1, 2, 3]), rng.choice([1, 2, 3])])
        elif t == 'arr2F':
            proto = dict(type='array', shape=[rng.choice([2, 3]), rng.choice([2, 3])], layout='F')
        else:
            proto = dict(type=t)
    v = dict(proto)
    if v['type'] == 'array':
        v['values'] = rand_values(rng, int(np.prod(v['shape'])), style)
    elif v['type'] == 'int':
        v['value'] = rng.randint(-1000, 1000)
    elif v['type'] == 'np.float32':
        v['value'] = rng.randint(-64, 64) / 8.0
    else:
        v['value'] = rand_values(rng, 1, style)[0]
    return v


def gen_log_spec(rng):
    nsig = rng.choice([0, 1, 1, 2, 3, 4])
    tags = rng.sample(NAMES, nsig)
    protos = [gen_logval(rng) for _ in tags]
    niter = rng.choice([1, 2, 3, 4, 5])
    its = [[gen_logval(rng, {k: v for k, v in p.items() if k in ('type', 'shape', 'layout')}) for p in protos] for _ in range(niter)]
    spec = dict(kind='log', tags=tags, iterations=its,
                saveto=rng.choice(['log.txt', 'log.csv', 'out/log.csv', 'out/hist.txt', 'a.csv.d/log.dat', 'LOG', 'x/y/z.log', 'data.CSV']))
    if rng.random() < 0.8:
        spec['fmt'] = rng.choice(FMTS)
    if rng.random() < 0.7:
        spec['separator'] = rng.choice(SEPS)
    return spec


def gen_log_malformed(rng):
    """arrays without entries: np.nditer refuses them (ValueError); only the exception class is compared"""
    what = rng.choice(['empty', 'empty-2d'])
    shape = {'empty': [0], 'empty-2d': [2, 0]}[what]
    good = dict(type='float', value=1.5)
    bad = dict(type='array', shape=shape, values=[])
    its = [[good, bad]] if rng.random() < 0.5 else [[bad, good], [bad, good]]
    return dict(kind='log', tags=['a', 'b'], iterations=its, saveto='log.txt', fmt=rng.choice(['.3e', 'g']), **{'class': 'malformed:' + what})


# ----------------------------------------------------------------------------- oracle (implementation-side property)
def oracle_vti_file(ctx, dom, vectors, data, scale, origin, unit, site, case):
    """the property, stated on the implementation's file with python's own decoders. returns list of (predicate, expected, got)"""
    bad = []
    try:
        p = parse_vti(data)
    except Exception as e:  # noqa
        return [('file is well-formed XML', 'parses', repr(e))]
    if p['root'] != 'VTKFile' or p['rattr'].get('type') != 'ImageData' or p['rattr'].get('header_type') != 'UInt64' \
            or p['rattr'].get('byte_order') != ('LittleEndian' if sys.byteorder == 'little' else 'BigEndian'):
        bad.append(('VTKFile element describes image data', 'ImageData/UInt64', p['rattr']))
    ext = f'0 {dom.nelx} 0 {dom.nely} 0 {dom.nelz}'
    if p['iattr'].get('WholeExtent') != ext or p['pattr'].get('Extent') != ext:
        bad.append(('extent describes the domain', ext, (p['iattr'].get('WholeExtent'), p['pattr'].get('Extent'))))
    org = (0.0, 0.0, 0.0) if origin is None else origin
    es = [float(u) for u in unit]
    try:
        sp = [float(t) for t in p['iattr']['Spacing'].split()]
        og = [float(t) for t in p['iattr']['Origin'].split()]
        if len(sp) != 3 or any(abs(s - e * scale) > 1e-12 * abs(e * scale) for s, e in zip(sp, es)):
            bad.append(('spacing = element size * scale', [e * scale for e in es], sp))
        if len(og) != 3 or any(abs(o - e * scale) > 1e-12 * max(abs(e * scale), 1e-300) for o, e in zip(og, org)):
            bad.append(('origin = origin * scale', [e * scale for e in org], og))
    except Exception as e:  # noqa
        bad.append(('spacing/origin are numbers', 'floats', repr(e)))
    if any(a_['type'] != 'Float32' or a_['format'] != 'binary' or a_['tag'] != 'DataArray' for a_ in p['arrays']):
        bad.append(('arrays are binary Float32 DataArrays', None, None))
    pos = {'PointData': 0, 'CellData': 0}
    secs = {k: [a_ for a_ in p['arrays'] if a_['section'] == k] for k in pos}
    names = [a_['name'] for a_ in p['arrays']]
    if len(set(names)) != len(names):
        bad.append(('array names are distinct', None, names))
    for key, a in vectors.items():
        sp_ = spec_entry(dom, a)
        if sp_ is None or sp_ == 'skip':
            continue
        kind, vs = sp_
        sec = 'PointData' if kind == 'point' else 'CellData'
        for i, (nc, v) in enumerate(vs):
            cand = [a_ for a_ in secs[sec] if a_['name'] == key or a_['name'].startswith(key + '(')]
            if i >= len(cand):
                bad.append((f'{kind}-sized vector is written as {sec}', f'{key}: array {i} with {nc} components in {sec}',
                            [(a_['section'], a_['name'], a_['ncomp']) for a_ in p['arrays']]))
                break
            a_ = cand[i]
            try:
                _, body = py_decode(a_['raw'])
            except Exception as e:  # noqa
                bad.append(('payload is valid base64', None, repr(e)))
                break
            got = np.frombuffer(body, dtype='<f4')
            if a_['ncomp'] != nc:
                bad.append(('number of components', nc, a_['ncomp']))
            if got.tobytes() != v.tobytes():
                bad.append(('decoded array equals the input in single precision', v.tolist()[:8], got.tolist()[:8]))
    return bad


def oracle(ctx, pym, jobs):
    for job in jobs:
        ctx.search_evaluations += 1
        kind = job[0]
        if kind == 'vti':
            _, spec, dom, vectors, data, err, scale, origin, unit = job
            cls = spec.get('class', 'structured')
            case = dict(spec=spec)
            if err is not None:
                if cls == 'structured':
                    ctx.violation('impl-violates', 'DomainDefinition.write_to_vti', 'writes without raising', cls, case, got=repr(err)[:300])
                continue
            if data is None:
                if cls == 'structured' and any(spec_entry(dom, a) not in (None, 'skip') for a in vectors.values()):
                    ctx.violation('impl-violates', 'DomainDefinition.write_to_vti', 'a file is written', cls, case)
                continue
            bad = oracle_vti_file(ctx, dom, vectors, data, scale, origin, unit, 'DomainDefinition.write_to_vti', case)
            for pred, exp, got in bad:
                ctx.violation('impl-violates', 'DomainDefinition.write_to_vti', pred, cls.split(':')[0], case, expected=exp, got=got)
        elif kind == 'wvti':
            _, spec, dom, calls, files, err = job
            case = dict(spec=spec)
            if err is not None:
                ctx.violation('impl-violates', 'WriteToVTI._response', 'writes without raising', 'structured', case, got=repr(err)[:300])
                continue
            overwrite = bool(spec.get('overwrite', False))
            n = len(calls)
            if (overwrite and len(files) != 1) or (not overwrite and len(files) != n):
                ctx.violation('impl-violates', 'WriteToVTI._response', 'one file per iteration (one file in overwrite mode)',
                              'structured', case, expected=1 if overwrite else n, got=sorted(files))
                continue
            if not overwrite and any(f'{k:04d}' not in name for k, name in enumerate(sorted(files))):
                ctx.violation('impl-violates', 'WriteToVTI._response', 'file names carry the iteration number', 'structured', case, got=sorted(files))
            if any(not name.lower().endswith('.vti') and '.vti' not in os.path.splitext(name)[1].lower() for name in files):
                ctx.violation('impl-violates', 'WriteToVTI._response', 'files are .vti files', 'structured', case, got=sorted(files))
            for k, name in enumerate(sorted(files)):
                arrs = calls[-1] if overwrite else calls[k]
                vectors = {}
                for t, a in zip(spec['tags'], arrs):
                    vectors[t] = a
                for pred, exp, got in oracle_vti_file(ctx, dom, vectors, files[name], spec.get('scale', 1.0), None, spec.get('unit', [1.0] * 3),
                                                      'WriteToVTI', case):
                    ctx.violation('impl-violates', 'WriteToVTI._response', pred, 'structured', dict(case, iteration=k, file=name), expected=exp, got=got)
        else:
            _, spec, calls, files, err, fmt, sep = job
            case = dict(spec=spec)
            cls = spec.get('class', 'structured')
            if err is not None:
                if not cls.startswith('malformed'):
                    ctx.violation('impl-violates', 'ScalarToFile._response', 'logs without raising', cls, case, got=repr(err)[:300])
                continue
            text = files[spec['saveto']].decode()
            effsep = ',' if '.csv' in spec['saveto'] else sep
            lines = text.split('\n')
            if lines[-1] != '' or len(lines) != len(calls) + 2:
                ctx.violation('impl-violates', 'ScalarToFile._response', 'one header line and one row per call', cls, case,
                              expected=len(calls) + 1, got=len(lines) - 1)
                continue
            for k, (row, objs) in enumerate(zip(lines[1:-1], calls)):
                vals = []
                for o in objs:
                    if isinstance(o, np.ndarray) and o.ndim >= 1:
                        forder = o.ndim == 2 and o.flags.f_contiguous and not o.flags.c_contiguous
                        vals += list(o.ravel(order='F' if forder else 'C'))
                    else:
                        vals.append(o)
                cols = row.split() if effsep.strip() == '' else row.split(effsep)
                try:
                    ok = int(cols[0]) == k and len(cols) == 1 + len(vals)
                    for c, v in zip(cols[1:], vals):
                        pv = float(c)
                        ref = float(v.__format__(fmt))
                        if not (pv == ref or (math.isnan(pv) and math.isnan(ref))):
                            ok = False
                        if math.isfinite(float(v)) and not _within_format(float(v), pv, fmt):
                            ok = False
                except Exception:  # noqa
                    ok = False
                if not ok:
                    ctx.violation('impl-violates', 'ScalarToFile._response', 'columns parse back to the iteration number and the logged values',
                                  cls, dict(case, row=k), expected=[k] + [float(v) for v in vals], got=row)
                    break


def _within_format(v, parsed, fmt):
    """parsed is v rounded to the precision of the format"""
    m = re.fullmatch(r'[+]?(\d*)(?:\.(\d+))?([efgEFG]?)', fmt)
    if not m:
        return True
    prec = int(m.group(2)) if m.group(2) is not None else (6 if m.group(3) else None)
    t = m.group(3).lower()
    if prec is None:
        return parsed == v
    slack = 4e-16 * abs(v)          # resolution of binary64 at v (the text is correctly rounded, parsing it rounds again)
    if t == 'f':
        return abs(parsed - v) <= 0.5000001 * 10.0 ** (-prec) + slack
    if v == 0:
        return parsed == 0
    mag = 10.0 ** math.floor(math.log10(abs(v)))
    digits = prec if t == 'e' else max(prec, 1) - 1
    return abs(parsed - v) <= 0.5000001 * 10.0 ** (-digits) * mag * 1.0000001 + slack


# ----------------------------------------------------------------------------- main
def load_corpus():
    d = os.path.join(vlib.ROOT, 'corpus', 'C20')
    out = []
    if os.path.isdir(d):
        for fn in sorted(os.listdir(d)):
            if fn.endswith('.json'):
                for c in json.load(open(os.path.join(d, fn)))['cases']:
                    c.setdefault('tag', fn)
                    out.append(c)
    return out


def run(ctx):
    import pymoto as pym
    quick = ctx.quick()
    ctx.rule = ('cases are (a) direct DomainDefinition.write_to_vti calls, (b) WriteToVTI histories of 1-5 iterations, (c) ScalarToFile '
                'histories of 1-5 calls, all run on the real implementation in a scratch directory; structured cases draw domains with '
                'nel, nnodes not multiples of each other (2-D and 3-D), 1-4 vectors (cell/point/block, both block orientations, 2..11 '
                'vectors per block, C/F/strided layouts, f8/f4/i8), scales, origins, element sizes, file names, overwrite modes, formats, '
                'separators; a malformed stream (sizes that fit neither, ambiguous sizes, 3-D arrays, empty inputs, special float values, '
                'empty logged arrays) compares the exception class / the as-written behaviour only.  A case is non-trivial when a file with at '
                'least one array (one row) was written; distinct by (kind, domain, shapes, options, file name, outcome).')
    ctx.assumptions += [
        'little-endian host (sys.byteorder == "little"); the model writes byte_order="LittleEndian" and "<Q"/"<f4"',
        'the value of the UInt64 block header is modelled as written (length of the base64 text); the property does not fix it',
        'array names are ASCII without XML special characters (names are not escaped by write_to_vti)',
        'ScalarToFile signals hold real scalars or C-/F-contiguous arrays; complex values and other memory layouts are not generated',
        'the classification theorem for plain vectors needs: the size c*nnodes of a point vector is not a multiple of nel (the literal '
        'quantifier "counts not multiples of each other" is not sufficient: C20_classification_literal_refuted); the oracle treats sizes '
        'that fit both kinds as undetermined; block vectors are classified by their axes (C20_classification_blocks)',
        'the three defects found while building this check (F21, F22, F23) are repaired in /repo; the model follows the repaired code and '
        'their witnesses run first on every check as structured cases (corpus/C20/fixed_defects.json)']
    ctx.trusted += [
        'oracles (Section variables / inputs of the executable model, validated per run): ndarray.astype(float32) per entry (contract: 4 bytes, '
        'value within half an ulp, checked in Coq by f32_close on every generated finite value), float.__format__ / int.__format__ of logged values, '
        'float repr in the Origin/Spacing attributes (numeric value checked in Coq against origin*scale, element_size*scale), python dict/str semantics '
        'of the harness itself',
        'xml.etree.ElementTree + base64.b64decode + np.frombuffer as the independent reader of the oracle',
        'Print Assumptions: all C20 theorems are closed under the global context (no axioms)']
    vlib.audit(ctx)
    if not vlib.ensure_static(ctx):
        return
    vlib.check_props(ctx)
    if sys.byteorder != 'little':
        ctx.obligation('host is little-endian', 'harness', False, sys.byteorder)
        return

    rng = ctx.rng
    checks, labels, jobs = [], [], []
    doms = good_domains(quick)
    runners = {'vti': run_vti, 'wvti': run_wvti, 'log': run_log}
    n_vti, n_mal, n_wvti, n_log, n_logmal = (90, 30, 30, 80, 8) if quick else (550, 120, 200, 500, 30)
    with Scratch() as sc:
        specs = load_corpus()
        ctx.count('corpus', len(specs))
        for _ in range(n_vti):
            specs.append(gen_vti_spec(rng, quick, doms))
        for _ in range(n_mal):
            specs.append(gen_vti_malformed(rng, doms))
        for _ in range(n_wvti):
            specs.append(gen_wvti_spec(rng, doms))
        for _ in range(n_log):
            specs.append(gen_log_spec(rng))
        for _ in range(n_logmal):
            specs.append(gen_log_malformed(rng))
        if getattr(ctx, 'replay', None):
            rpath = ctx.replay if os.path.isabs(ctx.replay) else os.path.join(vlib.ROOT, ctx.replay)
            rp = json.load(open(rpath))
            if isinstance(rp.get('case'), dict) and 'spec' in rp['case']:
                specs = [rp['case']['spec']]     # re-execute exactly that case on the current tree
        for spec in specs:
            runners[spec['kind']](ctx, pym, sc, spec, checks, labels, jobs)
        leftovers = sc.dir
    ctx.obligation('scratch directory removed', 'harness', not os.path.exists(leftovers), leftovers)

    # shard by size (case files stay below ~300 KB), compile the shards in parallel
    shards, start = [], 0
    while start < len(checks):
        size, end = 0, start
        while end < len(checks) and (end == start or size + len(checks[end]) < 260000) and end - start < 60:
            size += len(checks[end])
            end += 1
        shards.append((start, end))
        start = end
    failing, errs = [], []
    from concurrent.futures import ThreadPoolExecutor

    def one(i):
        st, en = shards[i]
        return st, vlib.run_cases(ctx, f'c20_{i}', HEADER, checks[st:en], chunk=en - st)
    with ThreadPoolExecutor(max_workers=int(os.environ.get('VERIF_COQ_JOBS', '6'))) as ex:
        for st, (fl, e1) in ex.map(one, range(len(shards))):
            failing += [st + i for i in fl]
            if e1:
                errs.append(e1)
    failing.sort()
    k = len(shards)
    err = '\n'.join(errs)
    ctx.extra['case_files'] = k
    ctx.obligation('correspondence:case files evaluated', 'correspondence', not err, err)
    if err:
        ctx.violation('correspondence', 'write_to_vti/WriteToVTI/ScalarToFile', 'case files compile', 'harness', dict(error=err[-3000:]),
                      theorem='cases_c20')
    for idx in failing[:12]:
        lab = labels[idx]
        vals, e2 = vlib.eval_coq(ctx, f'fail_{idx}', HEADER, lab['sub'])
        which = [p for p, v in zip(lab['parts'], vals or []) if v.strip() != 'true'] if vals else ['?']
        site = {'vti': 'DomainDefinition.write_to_vti', 'wvti': 'WriteToVTI._response', 'log': 'ScalarToFile._response'}[lab['kind']]
        ctx.violation('correspondence', site, 'model == implementation: ' + ','.join(which), lab['spec'].get('class', 'structured'),
                      dict(spec=lab['spec'], failing_parts=which), note='Coq model and implementation differ')
    oracle(ctx, pym, jobs)


if __name__ == '__main__':
    vlib.main(run, 'C20')
