"""C20 — result files decode back to the data that was written.

(H) correspondence: the real DomainDefinition.write_to_vti / WriteToVTI / ScalarToFile write into a scratch directory
(tempfile.mkdtemp(), removed in a finally); the bytes of the files, the XML structure parsed by Python and the RAW base64
strings are handed to Coq, where Model/Vti.v, Model/Log.v and the decoder of Model/B64.v are evaluated and compared.
Oracle: decode in Python (xml.etree + base64.b64decode + np.frombuffer) and compare with the inputs.

WriteToVTI and ScalarToFile run as HISTORIES OF EVENTS on a file system (Model/Fs.v: names -> bytes): files that exist
before (any content), module instances created and called in any interleaving, writes / removals by the environment in
between.  After EVERY event all files of the scratch directory (names and bytes) are compared in Coq with the file system
of the model (wvti_trace / log_trace); every ScalarToFile instance is additionally compared with the line-list model from
its first call on (C20_log_file_is_line_model holds for ANY previous content).
"""
import os, sys, json, math, shutil, tempfile, warnings, base64, re
from fractions import Fraction
import xml.etree.ElementTree as ET
import numpy as np
import vlib
from vlib import zl, ql, zlit, qlit, blit

HEADER = '''From Coq Require Import ZArith QArith List Bool.
From Pymoto Require Import Base.Num Base.Cmp Base.Bytes Model.Grid Model.B64 Model.Vti Model.Log.
Import ListNotations.
Open Scope Z_scope.
Definition G (a b c : Z) := {| nelx := a; nely := b; nelz := c |}.
Definition tol : Q := (1 # 1000000000)%Q.
Definition andl (l : list bool) : bool := forallb (fun b => b) l.
Fixpoint all2 {A B} (f : A -> B -> bool) (a : list A) (b : list B) : bool :=
  match a, b with [] , [] => true | x :: a', y :: b' => f x y && all2 f a' b' | _, _ => false end.
Definition ostr_eqb := option_eqb Zl_eqb.
(* large byte strings (arrays of > 4096 bytes, files that hold them) are handed over in a LOSSLESS run-length form:
   segments (pattern, number of repetitions); unrle gives the bytes back, every byte takes part in the comparisons *)
Fixpoint rep_app (pat : list Z) (k : nat) (tl : list Z) : list Z :=
  match k with O => tl | S k' => pat ++ rep_app pat k' tl end.
Fixpoint unrle (segs : list (list Z * Z)) : list Z :=
  match segs with [] => [] | (pat, k) :: t => rep_app pat (Z.to_nat k) (unrle t) end.
(* result of a write: exception code (0 = none), the file that exists afterwards *)
Definition file_ok (r : res (option str)) (code : Z) (obs : option str) : bool :=
  match r with Err e => exn_code e =? code | Ok o => (code =? 0) && ostr_eqb o obs end.
(* one <DataArray> as parsed from the XML: point?, name, NumberOfComponents, raw base64 text, expected float32 bytes *)
Definition arr_ok (d : darray) (o : bool * str * Z * str * list Z) : bool :=
  match o with (pt, name, nc, raw, expect) =>
    Bool.eqb (da_point d) pt && Zl_eqb (da_name d) name && (da_ncomp d =? nc)
    && ostr_eqb (vtk_block_data raw) (Some (concat (da_words d)))
    && option_eqb Z.eqb (vtk_block_header raw) (Some (Z.of_nat (length raw) - 12))
    && ostr_eqb (vtk_block_data raw) (Some expect)
  end.
Definition arrays_ok (r : res (list darray)) (code : Z) (obs : list (bool * str * Z * str * list Z)) : bool :=
  match r with Ok ds => (code =? 0) && all2 arr_ok ds obs | Err e => exn_code e =? code end.
(* decoding only (no model): the raw text decodes to the expected bytes *)
Definition decode_ok (raw : str) (expect : list Z) : bool := ostr_eqb (vtk_block_data raw) (Some expect).
Definition sid (s : str) : str := s.
(* histories of events on a file system: exception class of the history and the files (names and bytes) after EVERY event *)
Definition trace_ok (r : list fsys * Z) (code : Z) (obs : list fsys) : bool :=
  (snd r =? code) && all2 fs_eqb (fst r) obs.
Definition log_ok (r : res lstate) (code : Z) (niter : Z) (obs : str) : bool :=
  match r with Err e => exn_code e =? code | Ok st => (code =? 0) && (l_iter st =? niter) && Zl_eqb (log_file st) obs end.
(* reading the log back inside Coq (single-character separator): row k starts with k and has as many columns as row 0 *)
Definition rows_ok (sepc : Z) (obs : str) (nrows ncols : Z) (hdr_too : bool) : bool :=
  match split_on 10 obs with
  | [] => false
  | hdr :: rest =>
    let rows := removelast rest in
    (Z.of_nat (length rows) =? nrows) && Zl_eqb (last rest [1]) []
    && (negb hdr_too || (Z.of_nat (length (split_on sepc hdr)) =? ncols))
    && all2 (fun r k => let cs := split_on sepc r in
                        (Z.of_nat (length cs) =? ncols) && option_eqb Z.eqb (parse_dec (hd [] cs)) (Some k))
            rows (zrange nrows)
  end.
'''

EXN = {'TypeError': 1, 'ValueError': 2, 'IndexError': 3, 'AssertionError': 4, 'RuntimeError': 5}

def exn_code(e):
    if e is None:
        return 0
    return EXN.get(type(e).__name__, 6)


def sl(s):
    """text / bytes -> Coq list of codes"""
    if isinstance(s, str):
        s = s.encode()
    return '[' + ';'.join(str(b) for b in s) + ']'


BIG = 4096


def rle_segments(b, minrep=3, probe=16, window=8300):
    """lossless run-length form of a byte string: [(pattern, repetitions)].  Periods are found by looking for the next
    occurrence of the 16 bytes at the current position; what does not repeat at least three times stays literal."""
    b = bytes(b)
    segs, lit, i, n = [], bytearray(), 0, len(b)
    while i < n:
        j = b.find(b[i:i + probe], i + 1, i + window) if i + probe <= n else -1
        k = 0
        if j > 0:
            p_ = j - i
            pat, k = b[i:i + p_], 1
            while b[i + k * p_:i + (k + 1) * p_] == pat:
                k += 1
        if k >= minrep:
            if lit:
                segs.append((bytes(lit), 1))
                lit = bytearray()
            segs.append((pat, k))
            i += p_ * k
        else:
            lit.append(b[i])
            i += 1
    if lit:
        segs.append((bytes(lit), 1))
    assert b''.join(p_ * k for p_, k in segs) == b
    return segs


def bl(s):
    """text / bytes -> Coq list of codes; large ones in run-length form (decoded inside Coq by unrle)"""
    if isinstance(s, str):
        s = s.encode()
    if len(s) <= BIG:
        return sl(s)
    return '(unrle [' + '; '.join(f'({sl(p_)}, {k})' for p_, k in rle_segments(s)) + '])'


def osl(b):
    return 'None' if b is None else f'(Some {bl(b)})'


def words_of(a):
    """float32 image of the entries in logical C order, as 4-byte words (ndarray.astype is the oracle)"""
    b = np.ascontiguousarray(a).astype('<f4').tobytes()
    return [list(b[i:i + 4]) for i in range(0, len(b), 4)]


def wl(ws):
    return '[' + ';'.join('[' + ';'.join(map(str, w)) + ']' for w in ws) + ']'


def wl_of(a):
    """Coq list of the 4-byte float32 words of an array (large arrays: chunk4 of the run-length form of the bytes)"""
    if a.size * 4 <= BIG:
        return wl(words_of(a))
    with warnings.catch_warnings():
        warnings.simplefilter('ignore')
        return f'(chunk4 {bl(np.ascontiguousarray(a).astype("<f4").tobytes())})'


def expand_values(v):
    """values of a vector spec: a list, or the compact form of the LARGE arrays dict(pattern=[..], n=N, marks=[[i, x]..]):
    the pattern repeated up to N entries, then the marked entries replaced (keeps specs / replays small and lets the
    run-length form hand ALL bytes of the array and of the file to Coq)"""
    vals = v['values']
    if isinstance(vals, dict):
        a = np.resize(np.array(vals['pattern'], dtype=float), vals['n']).copy()
        for i, x in vals.get('marks', []):
            a[i] = x
        return a
    return vals


def num(x):
    """exact rational of a python/numpy number"""
    if isinstance(x, (int, np.integer)):
        return Fraction(int(x))
    return Fraction(float(x))


def small_dyadic(x):
    f = num(x)
    d = f.denominator
    return d & (d - 1) == 0 and d <= 1024 and abs(f.numerator) < 2 ** 20


# ----------------------------------------------------------------------------- building inputs from specs
def build_array(v):
    with warnings.catch_warnings():
        warnings.simplefilter('ignore')
        a = np.array(expand_values(v), dtype=float).astype(v.get('dtype', 'f8')).reshape(v['shape'])
    lay = v.get('layout', 'C')
    if lay == 'F' and a.ndim == 2:
        a = np.asfortranarray(a)
    elif lay == 'strided' and a.ndim >= 1 and a.shape[-1] > 0:
        big = np.zeros(a.shape[:-1] + (2 * a.shape[-1],), dtype=a.dtype)
        big[..., ::2] = a
        a = big[..., ::2]
    return a


def spec_entry(dom, a):
    """What the PROPERTY demands for one input array (independent of the implementation):
    ('cell'|'point', [(ncomp, float32 vector)]) , 'skip' (neither), or None (the size does not determine it)."""
    nel, nn = dom.nel, dom.nnodes
    if a.ndim == 1:
        ax, vecs = 0, None
    elif a.ndim == 2:
        ax = None
    else:
        return None
    kinds = []
    for axis in range(a.ndim):
        L = a.shape[axis]
        if L > 0 and L % nel == 0:
            kinds.append((axis, 'cell', L // nel))
        if L > 0 and L % nn == 0:
            kinds.append((axis, 'point', L // nn))
    if a.ndim == 1 and not kinds:
        return 'skip'
    if len(kinds) != 1:
        return None
    axis, kind, nc = kinds[0]
    with warnings.catch_warnings():
        warnings.simplefilter('ignore')
        f = np.ascontiguousarray(a).astype('<f4')
    if a.ndim == 1:
        vs = [f]
    else:
        vs = [f[:, i] if axis == 0 else f[i, :] for i in range(a.shape[1 - axis])]
    out = []
    for v in vs:
        if kind == 'point' and nc == 2 and dom.dim == 2:
            p = np.zeros(3 * nn, dtype='<f4')
            p[0::3], p[1::3] = v[0::2], v[1::2]
            out.append((3, p))
        else:
            out.append((nc, np.ascontiguousarray(v)))
    return kind, out


def parse_vti(data):
    """independent reader: XML structure + raw base64 text of every array"""
    root = ET.fromstring(data)
    img = root.find('ImageData')
    piece = img.find('Piece')
    arrays = []
    for sec in piece:
        for da in sec:
            arrays.append(dict(point=(sec.tag == 'PointData'), section=sec.tag, name=da.get('Name'), ncomp=int(da.get('NumberOfComponents')),
                               type=da.get('type'), format=da.get('format'), raw=da.text.strip('\n'), tag=da.tag))
    return dict(root=root.tag, rattr=dict(root.attrib), iattr=dict(img.attrib), pattr=dict(piece.attrib),
                sections=[s.tag for s in piece], arrays=arrays)


def py_decode(raw):
    hdr = base64.b64decode(raw[:12], validate=True)
    body = base64.b64decode(raw[12:], validate=True)
    return int.from_bytes(hdr, 'little'), body


def listdir_rec(d):
    out = {}
    for base, _, files in os.walk(d):
        for f in files:
            p = os.path.join(base, f)
            out[os.path.relpath(p, d)] = open(p, 'rb').read()
    return out


def vec_lit(name, a):
    return f'({sl(name)}, {zl(list(a.shape))}, {wl_of(a)})'


def geom_strings(dom_unit, scale, origin):
    """the six numbers as Python prints them (float/np.float64 formatting is an oracle, evaluated here outside pymoto)"""
    es = np.array(dom_unit)
    d = es[0:3] * scale
    org = (0.0, 0.0, 0.0) if origin is None else tuple(origin)
    return [f'{org[i] * scale}' for i in range(3)], [f'{d[i]}' for i in range(3)], [org[i] * scale for i in range(3)], list(d)


class Scratch:
    """scratch directory outside /repo and /verif; the process works inside it with relative paths"""
    def __enter__(self):
        self.old = os.getcwd()
        self.dir = tempfile.mkdtemp(prefix='c20_')
        real = os.path.realpath(self.dir)
        assert not real.startswith('/repo') and not real.startswith(vlib.ROOT), real
        os.chdir(self.dir)
        self.n = 0
        return self

    def fresh(self):
        self.n += 1
        d = os.path.join(self.dir, f'k{self.n}')
        os.makedirs(d)
        os.chdir(d)
        return d

    def __exit__(self, *a):
        os.chdir(self.old)
        shutil.rmtree(self.dir, ignore_errors=True)


# ----------------------------------------------------------------------------- one VTI case
def run_vti(ctx, pym, sc, spec, checks, labels, oracle_jobs):
    nx, ny, nz = spec['domain']
    unit = spec.get('unit', [1.0, 1.0, 1.0])
    scale = spec.get('scale', 1.0)
    origin = spec.get('origin')
    fn = spec.get('filename', 'out.vti')
    dom = pym.DomainDefinition(nx, ny, nz, *unit)
    arrays = [(v['name'], build_array(v)) for v in spec['vectors']]
    wd = sc.fresh()
    if os.path.dirname(fn):
        os.makedirs(os.path.dirname(fn), exist_ok=True)
    vectors = {}
    for n_, a in arrays:
        vectors[n_] = a
    kw = dict(filename=fn, scale=scale)
    if origin is not None:
        kw['origin'] = tuple(origin)
    err = None
    with warnings.catch_warnings():
        warnings.simplefilter('ignore')
        try:
            dom.write_to_vti(vectors, **kw)
        except Exception as e:  # noqa
            err = e
    files = listdir_rec(wd)
    code = exn_code(err)
    if spec.get('oracle_only'):
        # large arrays of unstructured values: no Coq literal; the file is read back by the oracle only
        data = next(iter(files.values())) if len(files) == 1 else None
        ctx.case(('vti-oracle-only', tuple(spec['domain']), tuple(tuple(a.shape) for _, a in arrays), code, spec.get('tag')), data is not None,
                 sample=dict(kind='vti (oracle only)', domain=spec['domain'], shapes=[list(a.shape) for _, a in arrays], exception=code))
        ctx.count('vti:oracle-only (large unstructured arrays)')
        oracle_jobs.append(('vti', spec, dom, vectors, data, err, scale, origin, unit))
        return
    g = f'(G {nx} {ny} {nz})'
    org_s, spc_s, org_v, spc_v = geom_strings(unit, scale, origin)
    # the dictionary the implementation saw (python dict semantics are part of the caller here)
    vs_lit = '[' + '; '.join(vec_lit(n_, a) for n_, a in vectors.items()) + ']'
    parts = {}
    obs_file = None
    if code == 0:
        if len(files) > 1:
            raise RuntimeError(f'unexpected files {list(files)}')
        if files:
            (name, data), = files.items()
            obs_file = data
            parts['filename'] = f'Zl_eqb (vti_filename {sl(fn)}) {sl(name)}'
    parts['file'] = f'file_ok (vti_file g {"[" + ";".join(map(sl, org_s)) + "]"} {"[" + ";".join(map(sl, spc_s)) + "]"} vs) {code} {osl(obs_file)}'
    parsed = None
    if obs_file is not None:
        parsed = parse_vti(obs_file)
        # expected float32 bytes per array: from the property-level spec where the sizes determine it, else python's decoder
        expect = expected_bytes(dom, vectors, parsed)
        obs = []
        for a_, ex in zip(parsed['arrays'], expect):
            obs.append(f'({blit(a_["point"])}, {sl(a_["name"])}, {a_["ncomp"]}, {bl(a_["raw"])}, {bl(ex)})')
        parts['arrays'] = f'arrays_ok (vti_arrays g vs) 0 [{"; ".join(obs)}]'
        # geometry: numbers parsed from the header against origin*scale, element_size*scale
        po = [Fraction(float(t)) for t in parsed['iattr']['Origin'].split()]
        ps = [Fraction(float(t)) for t in parsed['iattr']['Spacing'].split()]
        o3 = (0.0, 0.0, 0.0) if origin is None else origin
        exact = all(small_dyadic(x) for x in list(unit) + [scale] + list(o3))
        cmpf = 'Ql_eqb' if exact else 'Ql_close (Qmult tol ' + qlit(max([abs(num(x)) for x in list(o3) + list(unit)] + [1]) * abs(num(scale)) + 1) + '%Q)'
        parts['geometry'] = (f'({cmpf} (geom_origin {qlit(num(scale))}%Q {ql([num(x) for x in o3])}%Q) {ql(po)}%Q && '
                             f'{cmpf} (geom_spacing {qlit(num(scale))}%Q {ql([num(x) for x in unit])}%Q) {ql(ps)}%Q && '
                             f'Zl_eqb (extent g) {sl(parsed["iattr"]["WholeExtent"])} && Zl_eqb (extent g) {sl(parsed["pattr"]["Extent"])})')
        ctx.count('geometry_exact' if exact else 'geometry_tol')
    elif code != 0:
        parts['arrays'] = f'arrays_ok (vti_arrays g vs) {code} []'
    # float32 contract of astype, checked in Coq on the values of this case (finite, in range)
    fl = []
    for n_, a in vectors.items():
        if a.dtype.kind == 'f' and a.size and spec.get('f32check', True):
            flat = np.ascontiguousarray(a).ravel()[:6]
            for x, w in zip(flat, words_of(flat)):
                if np.isfinite(x) and abs(float(x)) < 3.0e38:
                    fl.append(f'f32_close {qlit(Fraction(float(x)))}%Q {zl(w)} && word_okb {zl(w)}')
    if fl:
        parts['f32-contract'] = '(' + ' && '.join(fl) + ')'
        ctx.oracle_validation['ndarray.astype(float32): value within half an ulp (checked in Coq)'] = \
            ctx.oracle_validation.get('ndarray.astype(float32): value within half an ulp (checked in Coq)', 0) + len(fl)
    keys = list(parts)
    expr = f'(let g := {g} in let vs := {vs_lit} in andl [{"; ".join(parts[k] for k in keys)}])'
    label = dict(kind='vti', spec=spec, parts=keys, sub=[f'(let g := {g} in let vs := {vs_lit} in {parts[k]})' for k in keys])
    label['cost'] = sum(a.size * 4 for a in vectors.values() if a.size * 4 > BIG)
    checks.append(expr)
    labels.append(label)
    shp = tuple(tuple(a.shape) for _, a in arrays)
    nontrivial = obs_file is not None and len(parsed['arrays']) >= 1
    ctx.case(('vti', tuple(spec['domain']), shp, spec.get('scale'), str(spec.get('origin')), fn, code, spec.get('tag')), nontrivial,
             sample=dict(kind='vti', domain=spec['domain'], shapes=[list(s) for s in shp], scale=scale, filename=fn,
                         exception=code, arrays=None if parsed is None else [(a_['section'], a_['name'], a_['ncomp']) for a_ in parsed['arrays']]))
    ctx.count(f'vti:dim{dom.dim}')
    ctx.count(f'vti:class:{spec.get("class", "structured")}')
    ctx.count(f'vti:exception:{type(err).__name__ if err else "none"}')
    for _, a in arrays:
        ctx.count(f'vti:ndim{a.ndim}')
        if a.size * 4 > BIG:
            ctx.count(f'vti:array of 2^{int(math.floor(math.log2(a.size)))}..2^{int(math.floor(math.log2(a.size))) + 1} entries')
    if parsed is not None:
        for a_ in parsed['arrays']:
            if len(a_['raw']) > 12 + 87384:
                ctx.count('vti:written array larger than 65536 bytes')
    oracle_jobs.append(('vti', spec, dom, vectors, obs_file, err, scale, origin, unit))


def expected_bytes(dom, vectors, parsed):
    """float32 bytes every array of the file has to decode to, in file order: derived from the INPUTS through the
    property-level spec when the sizes determine kind/components; otherwise (ambiguous sizes) python's decoder"""
    want = {'PointData': [], 'CellData': []}
    determined = True
    for n_, a in vectors.items():
        sp_ = spec_entry(dom, a)
        if sp_ is None:
            determined = False
            break
        if sp_ == 'skip':
            continue
        kind, vs = sp_
        for nc, v in vs:
            want['PointData' if kind == 'point' else 'CellData'].append(v.tobytes())
    out = []
    if determined and len(want['PointData']) + len(want['CellData']) == len(parsed['arrays']):
        it = {k: iter(v) for k, v in want.items()}
        ok = True
        for a_ in parsed['arrays']:
            try:
                out.append(next(it[a_['section']]))
            except StopIteration:
                ok = False
                break
        if ok:
            return out
    out = []
    for a_ in parsed['arrays']:
        try:
            out.append(py_decode(a_['raw'])[1])
        except Exception:  # noqa  (not valid base64: the Coq decoder has to reject it as well; the oracle reports it)
            out.append(b'')
    return out


# ----------------------------------------------------------------------------- histories on a file system
def content_bytes(c):
    """content of a pre-existing / externally written file in a spec: text, or {'rep': 'x', 'n': 20000}"""
    if isinstance(c, dict):
        return c['rep'].encode() * c['n']
    return c.encode()


class Contents:
    """every distinct byte string of a case becomes ONE Coq let-binding; snapshots refer to the names"""
    def __init__(self):
        self.vars, self.defs = {}, []

    def var(self, data):
        if data not in self.vars:
            name = f'c{len(self.vars)}'
            if len(data) > 64 and len(set(data)) == 1:
                lit = f'(repeat {data[0]} (Z.to_nat {len(data)}))'
            else:
                lit = bl(data)
            self.vars[data] = name
            self.defs.append(f'let {name} : str := {lit} in')
        return self.vars[data]

    def fs(self, files):
        return '[' + '; '.join(f'({sl(n_)}, {self.var(b)})' for n_, b in sorted(files.items())) + ']'

    def wrap(self, expr):
        return '(' + ' '.join(self.defs) + ' ' + expr + ')'


def world_of(spec, module_keys):
    """(pre, modules, events) of a history spec.  Old format (one module, fresh directory, `iterations`) is the history
    [new 0; call 0 ..]; the new format has spec['world'] = dict(modules=[..], events=[..]) and optionally spec['pre'] =
    dict(files=[[path, content]], dirs=[path]).  Events: ['new', module index] (instances are numbered in order of
    creation), ['call', instance, values], ['write', path, content], ['remove', path], ['reset', instance, how] and
    ['sens', instance, how] with how = 'module' (the instance's own reset() / sensitivity()) or 'network' (reset() /
    sensitivity() of the Network that contains the instance).  A module with via='network' is called through the
    response() of that Network."""
    pre = spec.get('pre', {})
    if 'world' in spec:
        return pre, spec['world']['modules'], spec['world']['events']
    mod = {k: spec[k] for k in module_keys if k in spec}
    return pre, [mod], [['new', 0]] + [['call', 0, it] for it in spec['iterations']]


def setup_pre(pre):
    for d in pre.get('dirs', []):
        os.makedirs(d, exist_ok=True)
    for path, c in pre.get('files', []):
        if os.path.dirname(path):
            os.makedirs(os.path.dirname(path), exist_ok=True)
        with open(path, 'wb') as f:
            f.write(content_bytes(c))


def env_event(ev):
    """changes made by the environment between the calls (not by pymoto)"""
    if ev[0] == 'write':
        if os.path.dirname(ev[1]):
            os.makedirs(os.path.dirname(ev[1]), exist_ok=True)
        with open(ev[1], 'wb') as f:
            f.write(content_bytes(ev[2]))
    else:
        os.remove(ev[1])


def network_of(pym, inst):
    """the Network around a module instance (made on first use; a Network only holds references to its modules)"""
    if 'net' not in inst:
        inst['net'] = pym.Network(inst['module'])
    return inst['net']


def respond(pym, inst, via):
    if via == 'network':
        network_of(pym, inst).response()
    else:
        inst['module'].response()


def quiet_event(pym, inst, ev):
    """reset() / sensitivity(): they concern the sensitivities of the signals only"""
    target = network_of(pym, inst) if ev[2] == 'network' else inst['module']
    if ev[0] == 'reset':
        target.reset()
    else:
        target.sensitivity()


QUIET = ('reset', 'sens')


def run_world(wd, pre, events, new_instance, call_instance, pym=None):
    """executes a history in the scratch directory `wd`.  Returns the files before, the files after every event (after
    the failing one too), the exception, and per event what happened."""
    setup_pre(pre)
    before = listdir_rec(wd)
    snaps, err, done = [], None, []
    insts = []
    with warnings.catch_warnings():
        warnings.simplefilter('ignore')
        for ev in events:
            try:
                if ev[0] == 'new':
                    insts.append(new_instance(ev[1]))
                elif ev[0] == 'call':
                    call_instance(insts[ev[1]], ev[2])
                elif ev[0] in QUIET:
                    quiet_event(pym, insts[ev[1]], ev)
                else:
                    env_event(ev)
            except Exception as e:  # noqa
                err = e
                snaps.append(listdir_rec(wd))
                break
            snaps.append(listdir_rec(wd))
            done.append(ev)
    return before, snaps, err, done, insts


def pre_class(pre, targets):
    """what the file system holds before the history, seen from the files the modules are going to write"""
    files = dict((p_, content_bytes(c)) for p_, c in pre.get('files', []))
    out = set()
    for t in targets:
        if t in files:
            b = files[t]
            out.add('target-exists:' + ('empty' if not b else 'no-final-newline' if not b.endswith(b'\n') else 'lines'))
            out.add('target-exists:' + ('long' if len(b) > 2000 else 'short'))
        elif os.path.dirname(t) and (os.path.dirname(t) in pre.get('dirs', []) or any(
                os.path.dirname(p_) == os.path.dirname(t) for p_ in files)):
            out.add('directory-exists')
        elif os.path.dirname(t):
            out.add('directory-missing')
    if files and not out & {'target-exists:long', 'target-exists:short'}:
        out.add('other-files')
    return sorted(out) or ['fresh']


# ----------------------------------------------------------------------------- WriteToVTI histories
WVTI_KEYS = ('domain', 'unit', 'scale', 'tags', 'saveto', 'overwrite')


def wvti_target(mod, it):
    """the file a response has to write (the statement of the property: one file per iteration, one in overwrite mode)"""
    base, ext = os.path.splitext(mod['saveto'])
    fn = mod['saveto'] if mod.get('overwrite', False) else f'{base}.{it:04d}{ext}'
    return fn if '.vti' in os.path.splitext(fn)[1].lower() else fn + '.vti'


def run_wvti(ctx, pym, sc, spec, checks, labels, oracle_jobs):
    pre, mods, events = world_of(spec, WVTI_KEYS)
    wd = sc.fresh()
    doms = [pym.DomainDefinition(*m['domain'], *m.get('unit', [1.0, 1.0, 1.0])) for m in mods]

    def new_instance(mi):
        m = mods[mi]
        sigs = [pym.Signal(t) for t in m['tags']]
        kw = dict(domain=doms[mi], saveto=m['saveto'])
        if 'overwrite' in m:
            kw['overwrite'] = m['overwrite']
        if 'scale' in m:
            kw['scale'] = m['scale']
        return dict(mi=mi, sigs=sigs, calls=[], module=pym.WriteToVTI(sigs, **kw))

    def call_instance(inst, values):
        arrs = [build_array(v) for v in values]
        for s_, a in zip(inst['sigs'], arrs):
            s_.state = a
        inst['calls'].append(arrs)
        respond(pym, inst, mods[inst['mi']].get('via'))

    before, snaps, err, done, insts = run_world(wd, pre, events, new_instance, call_instance, pym)
    code = exn_code(err)
    ct = Contents()
    insts_mi = [ev[1] for ev in events if ev[0] == 'new']
    evs = []
    for ev in events[:len(done) + (1 if err is not None else 0)]:
        if ev[0] == 'new':
            m = mods[ev[1]]
            org_s, spc_s, _, _ = geom_strings(m.get('unit', [1.0, 1.0, 1.0]), m.get('scale', 1.0), None)
            nx, ny, nz = m['domain']
            evs.append(f'VNew (G {nx} {ny} {nz}) {sl(m["saveto"])} {blit(bool(m.get("overwrite", False)))} '
                       f'{"[" + ";".join(map(sl, org_s)) + "]"} {"[" + ";".join(map(sl, spc_s)) + "]"}')
        elif ev[0] == 'call':
            m = mods[insts_mi[ev[1]]]
            arrs = [build_array(v) for v in ev[2]]
            evs.append(f'VCall {ev[1]} [' + '; '.join(vec_lit(t, a) for t, a in zip(m['tags'], arrs)) + ']')
        elif ev[0] == 'write':
            evs.append(f'VWrite {sl(ev[1])} {ct.var(content_bytes(ev[2]))}')
        elif ev[0] in QUIET:
            evs.append(f'{"VReset" if ev[0] == "reset" else "VSens"} {ev[1]}')
        else:
            evs.append(f'VRemove {sl(ev[1])}')
    # an exception inside write_to_vti leaves a partial file behind: the files after a failing event are not compared
    obs = snaps[:len(done)]
    expr = f'trace_ok (wvti_trace ({ct.fs(before)}, []) [{"; ".join(evs)}]) {code} [{"; ".join(ct.fs(f) for f in obs)}]'
    expr = ct.wrap(expr)
    checks.append(expr)
    labels.append(dict(kind='wvti', spec=spec, parts=['files after every event'], sub=[expr],
                       observed_files=sorted(snaps[-1]) if snaps else [],
                       cost=sum(int(np.prod(v['shape'])) * 4 for e in events if e[0] == 'call' for v in e[2] if int(np.prod(v['shape'])) * 4 > BIG)))
    targets = set()
    for m in mods:
        for it in range(8):
            targets.add(wvti_target(m, it))
    pcs = pre_class(pre, targets)
    ncall = sum(1 for e in done if e[0] == 'call')
    final = snaps[-1] if snaps else before
    ctx.case(('wvti', tuple((tuple(m['domain']), m['saveto'], bool(m.get('overwrite', False)), m.get('scale', 1.0), tuple(m['tags']))
                            for m in mods), tuple(e[0] if e[0] != 'call' else ('call', e[1]) for e in events), tuple(pcs), code,
              spec.get('tag')),
             len(final) >= 1 and ncall >= 1,
             sample=dict(kind='WriteToVTI', modules=[dict(domain=m['domain'], saveto=m['saveto'], overwrite=bool(m.get('overwrite', False)))
                                                     for m in mods], before=sorted(before),
                         events=[e[0] if e[0] != 'call' else f'call {e[1]}' for e in events], files=sorted(final), exception=code))
    ctx.count(f'wvti:calls{ncall}')
    for m in mods:
        ctx.count(f'wvti:overwrite{int(bool(m.get("overwrite", False)))}')
    ctx.count(f'wvti:instances{len(mods) if "world" not in spec else sum(1 for e in events if e[0] == "new")}')
    for pc in pcs:
        ctx.count(f'wvti:before:{pc}')
    for e in events:
        if e[0] in ('write', 'remove'):
            ctx.count(f'wvti:environment:{e[0]}')
        elif e[0] in QUIET:
            ctx.count(f'wvti:{e[0]}:{e[2]}')
    for m in mods:
        ctx.count(f'wvti:response-through:{m.get("via", "module")}')
    if any(int(np.prod(v['shape'])) * 4 > 65536 for e in events if e[0] == 'call' for v in e[2]):
        ctx.count('wvti:array larger than 65536 bytes')
    ctx.count(f'wvti:exception:{type(err).__name__ if err else "none"}')
    oracle_jobs.append(('wvti', spec, mods, doms, before, snaps, err, done, insts))


# ----------------------------------------------------------------------------- ScalarToFile histories
def build_logval(v):
    """spec -> python object handed to the signal"""
    t = v['type']
    if t == 'float':
        return float(v['value'])
    if t == 'np.float64':
        return np.float64(v['value'])
    if t == 'np.float32':
        return np.float32(v['value'])
    if t == 'int':
        return int(v['value'])
    if t == '0d':
        return np.array(float(v['value']))
    a = np.array(v['values'], dtype=float).reshape(v['shape'])
    if v.get('layout') == 'F' and a.ndim == 2:
        a = np.asfortranarray(a)
    return a


def logval_lit(obj, fmt):
    """Coq literal of a logged value; entries are already formatted (float.__format__ is the oracle)"""
    if isinstance(obj, np.ndarray) and obj.ndim >= 1:
        forder = obj.ndim == 2 and obj.flags.f_contiguous and not obj.flags.c_contiguous
        ents = [x.__format__(fmt) for x in np.ascontiguousarray(obj).ravel()]
        return f'(LArr {zl(list(obj.shape))} [{";".join(sl(e) for e in ents)}] {blit(forder)})'
    return f'(LNum {sl(obj.__format__(fmt))})'


LOG_KEYS = ('tags', 'saveto', 'fmt', 'separator')


def clean_runs(mods, insts_mi, events, nsucc, err):
    """per module instance: the calls from its first one up to the first interference with its file (a call of another
    instance with the same path, a write / removal by the environment), as (instance, [event index ..], failed?):
    for these the file has to be header + one row per call whatever it held before"""
    runs = {}
    dirty = set()
    for i, ev in enumerate(events[:nsucc + (1 if err is not None else 0)]):
        failed = err is not None and i == nsucc
        if ev[0] == 'call':
            k = ev[1]
            path = mods[insts_mi[k]]['saveto']
            for j in runs:
                if j != k and mods[insts_mi[j]]['saveto'] == path:
                    dirty.add(j)
            if k not in dirty:
                runs.setdefault(k, []).append((i, failed))
        elif ev[0] in ('write', 'remove') and not failed:
            for j in runs:
                if mods[insts_mi[j]]['saveto'] == ev[1]:
                    dirty.add(j)
    return runs


def run_log(ctx, pym, sc, spec, checks, labels, oracle_jobs):
    pre, mods, events = world_of(spec, LOG_KEYS)
    wd = sc.fresh()

    def new_instance(mi):
        m = mods[mi]
        sigs = [pym.Signal(t) for t in m['tags']]
        kw = dict(saveto=m['saveto'])
        if 'fmt' in m:
            kw['fmt'] = m['fmt']
        if 'separator' in m:
            kw['separator'] = m['separator']
        return dict(mi=mi, sigs=sigs, module=pym.ScalarToFile(sigs, **kw))

    def call_instance(inst, values):
        objs = [build_logval(v) for v in values]
        for s_, o in zip(inst['sigs'], objs):
            s_.state = o
        respond(pym, inst, mods[inst['mi']].get('via'))

    before, snaps, err, done, insts = run_world(wd, pre, events, new_instance, call_instance, pym)
    code = exn_code(err)
    nsucc = len(done)
    ct = Contents()
    # instance number -> module index, for every 'new' of the history (also the failing one)
    insts_mi = [ev[1] for ev in events if ev[0] == 'new']
    evs, objs_of = [], {}
    for i, ev in enumerate(events[:nsucc + (1 if err is not None else 0)]):
        if ev[0] == 'new':
            m = mods[ev[1]]
            evs.append(f'LNew {sl(m["saveto"])} {sl(m.get("separator", chr(9)))}')
        elif ev[0] == 'call':
            m = mods[insts_mi[ev[1]]]
            objs = [build_logval(v) for v in ev[2]]
            objs_of[i] = objs
            evs.append(f'LCall {ev[1]} [' + '; '.join(f'({sl(t)}, {logval_lit(o, m.get("fmt", ".10e"))})' for t, o in zip(m['tags'], objs)) + ']')
        elif ev[0] == 'write':
            evs.append(f'LWrite {sl(ev[1])} {ct.var(content_bytes(ev[2]))}')
        elif ev[0] in QUIET:
            evs.append(f'{"LReset" if ev[0] == "reset" else "LSens"} {ev[1]}')
        else:
            evs.append(f'LRemove {sl(ev[1])}')
    parts = {}
    parts['files after every event'] = (f'trace_ok (log_trace str sid ({ct.fs(before)}, []) [{"; ".join(evs)}]) {code} '
                                        f'[{"; ".join(ct.fs(f) for f in snaps)}]')
    # every instance on its own: from its first call on, as long as nobody else touches its file, the file is the text of
    # the line-list model (C20_log_file_is_line_model: for ANY content before)
    runs = clean_runs(mods, insts_mi, events, nsucc, err)
    jobs = []
    for k, idxs in sorted(runs.items()):
        m = mods[insts_mi[k]]
        fmt, sep = m.get('fmt', '.10e'), m.get('separator', '\t')
        calls = [objs_of[i] for i, _ in idxs]
        failed = idxs[-1][1]
        calls_lit = '[' + '; '.join('[' + '; '.join(f'({sl(t)}, {logval_lit(o, fmt)})' for t, o in zip(m['tags'], objs)) + ']'
                                    for objs in calls) + ']'
        run = f'log_run str sid (separator {sl(m["saveto"])} {sl(sep)}) l_init {calls_lit}'
        if failed:
            parts[f'file of instance {k}'] = f'log_ok ({run}) {code} 0 []'
            good = calls[:-1]
            data = snaps[idxs[-2][0]].get(m['saveto']) if len(idxs) >= 2 else None
        else:
            data = snaps[idxs[-1][0]].get(m['saveto'])
            if data is None:
                raise RuntimeError(f'no file {m["saveto"]} after a response; files {sorted(snaps[idxs[-1][0]])}')
            parts[f'file of instance {k}'] = f'log_ok ({run}) 0 {len(calls)} {ct.var(data)}'
            good = calls
        if data is not None and good:
            effsep = ',' if '.csv' in m['saveto'] else sep
            width = re.match(r'[+]?\d', fmt) is not None
            if len(effsep) == 1 and not (width and effsep == ' '):
                ncols = 1 + sum((o.size if isinstance(o, np.ndarray) and o.ndim >= 1 else 1) for o in good[0])
                hdr_free = not any(effsep in t for t in m['tags']) and not (
                    effsep in ', ' and any(isinstance(o, np.ndarray) and o.ndim >= 2 for o in good[0]))
                parts[f'rows of instance {k}'] = f'rows_ok {ord(effsep)} {ct.var(data)} {len(good)} {ncols} {blit(hdr_free)}'
            jobs.append((k, m, good, data, fmt, sep))
    keys = list(parts)
    checks.append(ct.wrap(f'andl [{"; ".join(parts[k] for k in keys)}]'))
    labels.append(dict(kind='log', spec=spec, parts=keys, sub=[ct.wrap(parts[k]) for k in keys]))
    pcs = pre_class(pre, set(m['saveto'] for m in mods))
    ncall = sum(1 for e in done if e[0] == 'call')
    first = next((objs_of[i] for i in sorted(objs_of)), [])
    shapes = tuple(tuple(o.shape) if isinstance(o, np.ndarray) else () for o in first)
    final = snaps[-1] if snaps else before
    m0 = mods[0]
    ctx.case(('log', tuple((m['saveto'], m.get('fmt', '.10e'), m.get('separator', '\t'), tuple(m['tags'])) for m in mods),
              tuple(e[0] if e[0] != 'call' else ('call', e[1]) for e in events), tuple(pcs), shapes, code, spec.get('tag')),
             ncall >= 1 and bool(jobs),
             sample=dict(kind='ScalarToFile', modules=[dict(saveto=m['saveto'], fmt=m.get('fmt', '.10e'), separator=m.get('separator', '\t'))
                                                       for m in mods], before=sorted(before),
                         events=[e[0] if e[0] != 'call' else f'call {e[1]}' for e in events],
                         text=None if m0['saveto'] not in final else final[m0['saveto']].decode(errors='replace')[:200], exception=code))
    for m in mods:
        ctx.count(f'log:fmt:{m.get("fmt", ".10e")}')
        ctx.count(f'log:sep:{m.get("separator", chr(9))!r}')
    ctx.count(f'log:calls{ncall}')
    ctx.count(f'log:instances{sum(1 for e in events if e[0] == "new")}')
    for pc in pcs:
        ctx.count(f'log:before:{pc}')
    for e in events:
        if e[0] in ('write', 'remove'):
            ctx.count(f'log:environment:{e[0]}')
        elif e[0] in QUIET:
            ctx.count(f'log:{e[0]}:{e[2]}')
    for m in mods:
        ctx.count(f'log:response-through:{m.get("via", "module")}')
    ctx.count(f'log:exception:{type(err).__name__ if err else "none"}')
    k_ = 'float.__format__ / np.floating.__format__ (entries formatted by the harness, outside pymoto)'
    ctx.oracle_validation[k_] = ctx.oracle_validation.get(k_, 0) + sum(
        (o.size if isinstance(o, np.ndarray) else 1) for objs in objs_of.values() for o in objs)
    # reset() / sensitivity() must leave every file as it is
    quiet = [(i, sorted(n_ for n_ in set(snaps[i]) | set(snaps[i - 1] if i else before)
                        if snaps[i].get(n_) != (snaps[i - 1] if i else before).get(n_)))
             for i, ev in enumerate(done) if ev[0] in QUIET]
    oracle_jobs.append(('log', spec, jobs, err, quiet))


# ----------------------------------------------------------------------------- generators
NAMES = ['x', 'u', 'rho', 'T', 'disp', 'f', 'sens_x', 'a b', 'v-1', 'K.e', 'q2']


def rand_values(rng, n, style):
    if style == 'int':
        return [float(rng.randint(-20, 20)) for _ in range(n)]
    if style == 'dyadic':
        return [rng.randint(-64, 64) / 16.0 for _ in range(n)]
    if style == 'wide':
        return [rng.choice((-1, 1)) * rng.random() * 10.0 ** rng.randint(-30, 30) for _ in range(n)]
    return [rng.gauss(0.0, 1.0) for _ in range(n)]


def good_domains(quick):
    mx, my, mz = (5, 4, 2) if quick else (6, 5, 3)
    out = []
    for a in range(1, mx + 1):
        for b in range(1, my + 1):
            for c in range(0, mz + 1):
                nel, nn = a * b * max(c, 1), (a + 1) * (b + 1) * (c + 1)
                if nn % nel != 0 and nn <= (60 if quick else 120):
                    out.append((a, b, c))
    return out


def gen_vector(rng, dom3, name, want=None):
    """one structured vector spec for the domain; returns spec (sizes chosen per the property's quantifier)"""
    a, b, c = dom3
    nel, nn = a * b * max(c, 1), (a + 1) * (b + 1) * (c + 1)
    dim = 2 if c == 0 else 3
    kind = want or rng.choice(['cell', 'cell', 'point', 'point', 'point', 'block', 'block'])
    style = rng.choice(['float', 'float', 'int', 'dyadic', 'wide'])
    lay = rng.choice(['C', 'C', 'C', 'F', 'strided'])
    dtype = rng.choice(['f8', 'f8', 'f8', 'f4', 'i8'])
    if dtype == 'i8':
        style = 'int'
    if kind == 'cell':
        shape = [rng.choice([1, 1, 1, 2, 3, 6]) * nel]
    elif kind == 'point':
        shape = [rng.choice([1, dim, dim, 2, 3]) * nn]
    else:
        n = rng.choice([nel, nn, nn])
        comp = rng.choice([1, dim, dim, 2, 3] if n == nn else [1, 1, 3])
        k = rng.choice([1, 2, 2, 3, 4, 5, 10, 11])
        shape = [k, comp * n] if rng.random() < 0.6 else [comp * n, k]
    size = int(np.prod(shape))
    return dict(name=name, shape=shape, values=rand_values(rng, size, style), dtype=dtype, layout=lay)


def is_unambiguous(dom3, shape):
    """the property's quantifier read on the sizes in play: exactly one (axis, kind) pair fits, i.e. the sizes determine
    kind, vector axis and component count (plain vectors: the size fits one of nel / nnodes only)"""
    a, b, c = dom3
    nel, nn = a * b * max(c, 1), (a + 1) * (b + 1) * (c + 1)
    cands = [(ax, k) for ax in range(len(shape)) for k, n in (('cell', nel), ('point', nn)) if shape[ax] > 0 and shape[ax] % n == 0]
    return len(cands) == 1


def gen_vti_spec(rng, quick, doms):
    dom3 = rng.choice(doms)
    nvec = rng.choice([1, 1, 2, 2, 3, 4])
    names = rng.sample(NAMES, nvec)
    vectors = []
    for n_ in names:
        for _ in range(20):
            v = gen_vector(rng, dom3, n_)
            if is_unambiguous(dom3, v['shape']):
                break
        else:
            v = gen_vector(rng, dom3, n_, want='cell')
        vectors.append(v)
    while sum(len(v['values']) for v in vectors) > 2500 and len(vectors) > 1:
        vectors.pop()        # keep one case below the size a Coq literal can have
    if sum(len(v['values']) for v in vectors) > 2500:
        vectors = [gen_vector(rng, dom3, names[0], want='cell')]
    spec = dict(kind='vti', domain=list(dom3), vectors=vectors)
    r = rng.random()
    if r < 0.5:
        spec['unit'] = [rng.choice([0.5, 1.0, 2.0, 0.25, 1.5]) for _ in range(3)]
        spec['scale'] = rng.choice([1.0, 2.0, 0.5, 4.0, 3, 0.125])
        if rng.random() < 0.6:
            spec['origin'] = [rng.choice([0.0, 1.0, -2.5, 0.75, 3, 10.0]) for _ in range(3)]
    elif r < 0.8:
        spec['unit'] = [round(rng.uniform(0.05, 3.0), rng.randint(1, 6)) for _ in range(3)]
        spec['scale'] = rng.choice([0.1, 1e-3, 2.54, rng.uniform(0.01, 50.0)])
        if rng.random() < 0.6:
            spec['origin'] = [rng.uniform(-5, 5) for _ in range(3)]
    spec['filename'] = rng.choice(['out.vti', 'res', 'a.VTI', 'sub/dat.vti', 'x.y', 'data.vtiX', 'r.0003.vti', '.hidden', 'p.q/file'])
    return spec


def gen_vti_malformed(rng, doms):
    small = [d for d in doms if (d[0] + 1) * (d[1] + 1) * (d[2] + 1) <= 30]     # keeps nel*nn, nn*nn arrays small
    dom3 = rng.choice(small + [(1, 1, 0), (2, 1, 0), (4, 3, 1), (3, 4, 0), (2, 2, 1)])
    a, b, c = dom3
    nel, nn = a * b * max(c, 1), (a + 1) * (b + 1) * (c + 1)
    what = rng.choice(['neither', 'neither+ok', 'ndim3', 'ambiguous-block', 'ambiguous-total', 'one-vector-block', 'empty-dict', 'zero-size',
                       'scalar0d', 'square', 'special-values'])
    vs = []
    f32check = True

    def mk(name, shape, style='int'):
        return dict(name=name, shape=list(shape), values=rand_values(rng, int(np.prod(shape)), style))
    if what == 'neither':
        vs = [mk('x', [nel * nn + 1])]
    elif what == 'neither+ok':
        vs = [mk('x', [nn + nel + 1 if (nn + nel + 1) % nel and (nn + nel + 1) % nn else 1]), mk('y', [nel])]
    elif what == 'ndim3':
        vs = [mk('x', [2, rng.choice([nel, nn]), 2])]
    elif what == 'ambiguous-block':
        vs = [mk('u', [rng.choice([2, nel, 2 * nel]), rng.choice([1, 2]) * nn])]
    elif what == 'ambiguous-total':
        vs = [mk('u', [nel * nn]), mk('w', [3 * nn])]
    elif what == 'one-vector-block':
        sh = [1, rng.choice([1, 2, 3]) * rng.choice([nn, nel])]
        vs = [mk('u', sh if rng.random() < 0.5 else sh[::-1])]
    elif what == 'empty-dict':
        vs = []
    elif what == 'zero-size':
        vs = [mk('z', rng.choice([[0], [0, nel], [3, 0], [nn, 0]]))]
    elif what == 'scalar0d':
        vs = [mk('s', []), mk('x', [nel])]
    elif what == 'square':
        vs = [mk('q', [nel, nel]), mk('r', [nn, nn])]
    else:
        vals = [0.0, -0.0, 1e-45, 1e-39, 3.5e38, 1e39, -1e300, float('inf'), float('-inf'), float('nan'), 1.0000000596046448, 16777217.0]
        n = nel
        vs = [dict(name='sp', shape=[n], values=[vals[(i + rng.randrange(len(vals))) % len(vals)] for i in range(n)])]
        f32check = False
    return dict(kind='vti', domain=list(dom3), vectors=vs, filename='m.vti', **{'class': 'malformed:' + what, 'f32check': f32check})


def gen_wvti_spec(rng, doms):
    dom3 = rng.choice(doms)
    nsig = rng.choice([1, 2, 3])
    tags = rng.sample(NAMES, nsig)
    if rng.random() < 0.1 and nsig >= 2:
        tags[1] = tags[0]   # repeated tag: dictionary semantics
    protos = []
    for t in tags:
        for _ in range(20):
            v = gen_vector(rng, dom3, t)
            if is_unambiguous(dom3, v['shape']):
                break
        else:
            v = gen_vector(rng, dom3, t, want='cell')
        protos.append(v)
    niter = rng.choice([1, 2, 3, 4, 5])
    while niter * sum(int(np.prod(p['shape'])) for p in protos) > 5000 and len(protos) > 1:
        protos.pop()
        tags.pop()
    if niter * sum(int(np.prod(p['shape'])) for p in protos) > 5000:
        protos = [gen_vector(rng, dom3, tags[0], want='cell')]
    its = []
    for _ in range(niter):
        its.append([dict(p, values=rand_values(rng, int(np.prod(p['shape'])), 'dyadic' if p.get('dtype') != 'i8' else 'int')) for p in protos])
    spec = dict(kind='wvti', domain=list(dom3), tags=tags, iterations=its,
                saveto=rng.choice(['out/dat.vti', 'dat.vti', 'res', 'a/b/c.VTI', 'run.1/out', 'x.dat', 'out.v2/f.vti', 'iter.vtiz']))
    if rng.random() < 0.7:
        spec['overwrite'] = rng.random() < 0.5
    if rng.random() < 0.6:
        spec['scale'] = rng.choice([1.0, 2.0, 0.5, 3, 0.1, 2.54])
    if rng.random() < 0.3:
        spec['unit'] = [rng.choice([0.5, 1.0, 2.0, 0.1]) for _ in range(3)]
    return spec


FMTS = ['e', 'f', 'g', '.3e', '.10e', '.5g', '.3f', '.0f', '+.4e', '12.4e', 'E', '.17g', '']
SEPS = ['\t', ',', ' ', ';', ' ; ', '|', '  ']


def gen_logval(rng, proto=None):
    style = rng.choice(['float', 'wide', 'int', 'dyadic'])
    if proto is None:
        t = rng.choice(['float', 'float', 'np.float64', 'np.float64', 'int', '0d', 'np.float32', 'arr1', 'arr1', 'arr2', 'arr2F'])
        if t == 'arr1':
            proto = dict(type='array', shape=[rng.choice([1, 2, 3, 4, 6])])
        elif t == 'arr2':
            proto = dict(type='array', shape=[rng.choice([1, 2, 3]), rng.choice([1, 2, 3])])
        elif t == 'arr2F':
            proto = dict(type='array', shape=[rng.choice([2, 3]), rng.choice([2, 3])], layout='F')
        else:
            proto = dict(type=t)
    v = dict(proto)
    if v['type'] == 'array':
        v['values'] = rand_values(rng, int(np.prod(v['shape'])), style)
    elif v['type'] == 'int':
        v['value'] = rng.randint(-1000, 1000)
    elif v['type'] == 'np.float32':
        v['value'] = rng.randint(-64, 64) / 8.0
    else:
        v['value'] = rand_values(rng, 1, style)[0]
    return v


def gen_log_spec(rng):
    nsig = rng.choice([0, 1, 1, 2, 3, 4])
    tags = rng.sample(NAMES, nsig)
    protos = [gen_logval(rng) for _ in tags]
    niter = rng.choice([1, 2, 3, 4, 5])
    its = [[gen_logval(rng, {k: v for k, v in p.items() if k in ('type', 'shape', 'layout')}) for p in protos] for _ in range(niter)]
    spec = dict(kind='log', tags=tags, iterations=its,
                saveto=rng.choice(['log.txt', 'log.csv', 'out/log.csv', 'out/hist.txt', 'a.csv.d/log.dat', 'LOG', 'x/y/z.log', 'data.CSV']))
    if rng.random() < 0.8:
        spec['fmt'] = rng.choice(FMTS)
    if rng.random() < 0.7:
        spec['separator'] = rng.choice(SEPS)
    return spec


# ---- the state of the file system before and between the calls -------------------------------------------------------
def old_log_text(rng, tags, fmt, sep, rows, final_newline=True):
    """what an earlier ScalarToFile instance would have left (written here by the harness, not by pymoto)"""
    lines = [sep.join(['Iteration'] + tags)]
    for k in range(rows):
        lines.append(sep.join([str(k)] + [rng.uniform(-5, 5).__format__(fmt) for _ in tags]))
    return '\n'.join(lines) + ('\n' if final_newline else '')


def log_pre_contents(rng, tags, fmt, sep):
    """contents a file can have before the first response (name -> text)"""
    return {
        'same-longer': old_log_text(rng, tags, fmt, sep, 9),
        'same-shorter': old_log_text(rng, tags, fmt, sep, 1),
        'header-only': old_log_text(rng, tags, fmt, sep, 0),
        'other-format': old_log_text(rng, ['a', 'b[0]', 'b[1]', 'c'], '.2f', ';' if sep != ';' else '|', 6),
        'empty': '',
        'no-final-newline': old_log_text(rng, tags, fmt, sep, 3, final_newline=False),
        'one-char': 'x',
        'only-newlines': '\n\n\n',
        'long': dict(rep='z', n=6000),
        'xml': '<?xml version="1.0"?>\n<VTKFile type="ImageData">\n</VTKFile>',
    }


def log_iter(rng, protos):
    return [gen_logval(rng, {k: v for k, v in p.items() if k in ('type', 'shape', 'layout')}) for p in protos]


def log_stress(rng):
    """deliberately chosen histories, run on every seed: target files that already exist (every kind of content), several
    instances on one path (in sequence, re-created, interleaved), directories that do / do not exist, changes made by
    the environment between the calls.  Values are drawn, the structure is fixed."""
    out = []
    protos = [dict(type='float'), dict(type='array', shape=[2])]
    tags = ['f', 'g']
    mod = dict(tags=tags, saveto='log.txt', fmt='.3e', separator='\t')

    def calls(k, n, pr=protos):
        return [['call', k, log_iter(rng, pr)] for _ in range(n)]
    cont = log_pre_contents(rng, ['f', 'g[0]', 'g[1]'], '.3e', '\t')
    for name, text in cont.items():
        n = {'same-longer': 2, 'same-shorter': 4}.get(name, rng.choice([1, 2, 3]))
        out.append(dict(kind='log', tag='stress:pre:' + name, pre=dict(files=[['log.txt', text]]),
                        world=dict(modules=[mod], events=[['new', 0]] + calls(0, n))))
    # neighbours whose names are close to the target; they have to survive byte for byte
    m2 = dict(mod, saveto='out/log.txt', fmt='g', separator=';')
    out.append(dict(kind='log', tag='stress:pre:neighbours',
                    pre=dict(files=[['out/log.txt', cont['same-longer']], ['out/log.txt.bak', 'keep 1\n'], ['out/log.tx', 'keep 2'],
                                    ['out/other.txt', ''], ['log.txt', 'keep 3\n'], ['x', 'keep 4']]),
                    world=dict(modules=[m2], events=[['new', 0]] + calls(0, 3))))
    # directories
    out.append(dict(kind='log', tag='stress:dir:missing', world=dict(modules=[dict(mod, saveto='new/deep/er/log.txt')], events=[['new', 0]] + calls(0, 2))))
    out.append(dict(kind='log', tag='stress:dir:partly', pre=dict(dirs=['new'], files=[['new/log.txt', 'keep\n']]),
                    world=dict(modules=[dict(mod, saveto='new/deep/log.txt')], events=[['new', 0]] + calls(0, 2))))
    out.append(dict(kind='log', tag='stress:dir:exists-empty', pre=dict(dirs=['out/logs']),
                    world=dict(modules=[dict(mod, saveto='out/logs/log.csv')], events=[['new', 0]] + calls(0, 2))))
    out.append(dict(kind='log', tag='stress:dir:csv-in-directory-name', pre=dict(files=[['a.csv.d/log.dat', cont['other-format']]]),
                    world=dict(modules=[dict(mod, saveto='a.csv.d/log.dat', separator='|')], events=[['new', 0]] + calls(0, 2))))
    for sv in ('out/log.txt', 'out/sub/log.txt'):
        out.append(dict(kind='log', tag='stress:dir:parent-is-a-file', pre=dict(files=[['out', 'a regular file\n']]),
                        world=dict(modules=[dict(mod, saveto=sv)], events=[['new', 0]] + calls(0, 1)), **{'class': 'malformed:parent-is-a-file'}))
    # several instances on one path
    protos_b = [dict(type='array', shape=[2, 2]), dict(type='np.float64'), dict(type='int')]
    modb = dict(tags=['K', 'vol', 'n'], saveto='log.txt', fmt='.5g', separator=' ; ')
    out.append(dict(kind='log', tag='stress:two-instances:longer-then-shorter',
                    world=dict(modules=[mod, modb], events=[['new', 0]] + calls(0, 4) + [['new', 1]] + calls(1, 2, protos_b))))
    out.append(dict(kind='log', tag='stress:two-instances:shorter-then-longer',
                    world=dict(modules=[mod, modb], events=[['new', 1]] + calls(0, 1, protos_b) + [['new', 0]] + calls(1, 4))))
    out.append(dict(kind='log', tag='stress:re-created:same-module',
                    world=dict(modules=[mod], events=[['new', 0]] + calls(0, 3) + [['new', 0]] + calls(1, 2) + [['new', 0]] + calls(2, 3))))
    out.append(dict(kind='log', tag='stress:two-instances:created-first-called-later',
                    world=dict(modules=[mod, modb], events=[['new', 0], ['new', 1]] + calls(1, 2, protos_b) + calls(0, 2))))
    out.append(dict(kind='log', tag='stress:two-instances:interleaved',
                    world=dict(modules=[mod, modb], events=[['new', 0], ['new', 1]] + calls(0, 2) + calls(1, 1, protos_b) + calls(0, 1)
                               + calls(1, 2, protos_b) + calls(0, 1))))
    out.append(dict(kind='log', tag='stress:two-instances:different-paths',
                    pre=dict(files=[['a/log.txt', cont['same-longer']], ['b/log.csv', cont['other-format']]]),
                    world=dict(modules=[dict(mod, saveto='a/log.txt'), dict(modb, saveto='b/log.csv')],
                               events=[['new', 0], ['new', 1]] + calls(0, 1) + calls(1, 1, protos_b) + calls(0, 1) + calls(1, 1, protos_b))))
    # the environment between the calls
    out.append(dict(kind='log', tag='stress:environment:file-appears-before-first-call',
                    world=dict(modules=[mod], events=[['new', 0], ['write', 'log.txt', cont['same-longer']]] + calls(0, 2))))
    out.append(dict(kind='log', tag='stress:environment:removed-between-calls',
                    world=dict(modules=[mod], events=[['new', 0]] + calls(0, 2) + [['remove', 'log.txt']] + calls(0, 2))))
    out.append(dict(kind='log', tag='stress:environment:replaced-between-calls',
                    world=dict(modules=[mod], events=[['new', 0]] + calls(0, 1) + [['write', 'log.txt', 'no newline']] + calls(0, 1)
                               + [['write', 'other.txt', 'x\n']] + calls(0, 1))))
    out.append(dict(kind='log', tag='stress:environment:removed-then-new-instance',
                    pre=dict(files=[['log.txt', cont['long']]]),
                    world=dict(modules=[mod], events=[['new', 0]] + calls(0, 1) + [['remove', 'log.txt'], ['new', 0]] + calls(1, 2))))
    # reset() / sensitivity() between the responses (the loop of every optimiser / finite-difference check): they clear or
    # propagate sensitivities; the file keeps its header, its rows and the running iteration number
    def loop(k, n, how, pr=protos, sens=True):
        ev = []
        for _ in range(n):
            ev += calls(k, 1, pr) + ([['sens', k, how]] if sens else []) + [['reset', k, how]]
        return ev
    for how in ('module', 'network'):
        for via in ('module', 'network'):
            out.append(dict(kind='log', tag=f'stress:reset:loop:{how}:response-through-{via}', pre=dict(files=[['log.txt', cont['same-longer']]]),
                            world=dict(modules=[dict(mod, via=via)], events=[['new', 0]] + loop(0, 4, how))))
    out.append(dict(kind='log', tag='stress:reset:before-first-and-repeated',
                    world=dict(modules=[mod], events=[['new', 0], ['reset', 0, 'module'], ['sens', 0, 'network'], ['reset', 0, 'network']]
                               + calls(0, 2) + [['reset', 0, 'module'], ['reset', 0, 'module'], ['reset', 0, 'network']] + calls(0, 1)
                               + [['sens', 0, 'module']] + calls(0, 2) + [['reset', 0, 'network']])))
    out.append(dict(kind='log', tag='stress:reset:two-instances:other-one-reset',
                    world=dict(modules=[dict(mod, saveto='a/log.txt'), dict(modb, saveto='b/log.csv')],
                               events=[['new', 0], ['new', 1]] + calls(0, 2) + calls(1, 1, protos_b) + [['reset', 1, 'network']] + calls(0, 1)
                               + [['reset', 0, 'module']] + calls(1, 2, protos_b) + [['sens', 0, 'network'], ['reset', 0, 'network']]
                               + calls(0, 1) + calls(1, 1, protos_b))))
    out.append(dict(kind='log', tag='stress:reset:same-path-two-instances',
                    world=dict(modules=[mod, modb], events=[['new', 0]] + loop(0, 2, 'network') + [['new', 1]] + loop(1, 2, 'module', protos_b)
                               + [['reset', 0, 'network']] + calls(0, 1))))
    out.append(dict(kind='log', tag='stress:reset:environment-removes-file-then-reset',
                    world=dict(modules=[mod], events=[['new', 0]] + calls(0, 2) + [['remove', 'log.txt'], ['reset', 0, 'network']] + calls(0, 2))))
    out.append(dict(kind='log', tag='stress:reset:csv-no-signals',
                    world=dict(modules=[dict(tags=[], saveto='out/it.csv', via='network')], events=[['new', 0]] + loop(0, 3, 'network', []))))
    # an exception in the middle leaves the files as they were
    bad = dict(type='array', shape=[0], values=[])
    out.append(dict(kind='log', tag='stress:exception-mid-history', pre=dict(files=[['log.txt', cont['same-longer']]]),
                    world=dict(modules=[mod], events=[['new', 0]] + calls(0, 2) + [['call', 0, [dict(type='float', value=1.0), bad]]]),
                    **{'class': 'malformed:empty'}))
    out.append(dict(kind='log', tag='stress:exception-first-call', pre=dict(files=[['log.txt', cont['same-shorter']]]),
                    world=dict(modules=[mod], events=[['new', 0], ['call', 0, [dict(type='float', value=1.0), bad]]]),
                    **{'class': 'malformed:empty'}))
    return out


def quiet_events(rng, k):
    """what an optimiser does between two responses, for instance k or an earlier one (drawn)"""
    r = rng.random()
    if r < 0.45:
        return []
    who = k if rng.random() < 0.7 else rng.randrange(0, k + 1)
    how = rng.choice(['module', 'network'])
    if r < 0.75:
        return [['sens', who, how], ['reset', who, how]]
    if r < 0.9:
        return [['reset', who, how]]
    return [['reset', who, how], ['sens', who, rng.choice(['module', 'network'])], ['reset', who, how]]


def widen_log(rng, spec):
    """random widening of a one-module history over the file system: previous content, a second instance, the environment"""
    mod = {k: spec[k] for k in LOG_KEYS if k in spec}
    if rng.random() < 0.4:
        mod['via'] = 'network'
    its = spec['iterations']
    fmt, sep = mod.get('fmt', '.10e'), mod.get('separator', '\t')
    cont = log_pre_contents(rng, mod['tags'], fmt if fmt else 'g', sep)
    pre = dict(files=[], dirs=[])
    r = rng.random()
    if r < 0.6:
        pre['files'].append([mod['saveto'], cont[rng.choice(sorted(cont))]])
    elif r < 0.75 and os.path.dirname(mod['saveto']):
        pre['dirs'].append(os.path.dirname(mod['saveto']))
    if rng.random() < 0.4:
        pre['files'].append([mod['saveto'] + rng.choice(['.bak', '~', '.1']), 'keep\n'])
    events = [['new', 0]]
    mods = [mod]
    k = 0
    for i, it in enumerate(its):
        if i > 0 and rng.random() < 0.3:
            what = rng.choice(['new-same', 'new-other', 'remove', 'write'])
            if what == 'new-same':
                events.append(['new', 0])
                k += 1
            elif what == 'new-other':
                mods.append(dict(tags=['p', 'q'], saveto=mod['saveto'], fmt=rng.choice(FMTS), separator=rng.choice(SEPS)))
                events.append(['new', len(mods) - 1])
                k += 1
                events.append(['call', k, [gen_logval(rng, dict(type='float')), gen_logval(rng, dict(type='array', shape=[3]))]])
                events.append(['new', 0])
                k += 1
            elif what == 'remove':
                events.append(['remove', mod['saveto']])
            else:
                events.append(['write', mod['saveto'], cont[rng.choice(sorted(cont))]])
        events.append(['call', k, it])
        events += quiet_events(rng, k)
    return dict(kind='log', pre=pre, world=dict(modules=mods, events=events), tag='widened')


def old_vti_text(kind):
    return {'garbage': 'not a vti file', 'empty': '', 'long': dict(rep='y', n=30000),
            'xml-tail': '<?xml version="1.0"?>\n<VTKFile type="ImageData" version="0.1">\n</VTKFile>\n\n\n',
            'one-char': '<'}[kind]


def vti_iter(rng, dom3, tags, kinds):
    a, b, c = dom3
    nel, nn = a * b * max(c, 1), (a + 1) * (b + 1) * (c + 1)
    out = []
    for t, kd in zip(tags, kinds):
        shape = {'cell': [nel], 'point': [nn], 'point2': [2 * nn], 'block': [3, nel], 'skip': [nel * nn + 1]}[kd]
        out.append(dict(name=t, shape=shape, values=rand_values(rng, int(np.prod(shape)), 'dyadic')))
    return out


def wvti_stress(rng):
    """deliberately chosen WriteToVTI histories, run on every seed: files of the same and of other iterations that exist
    before (short, empty, much longer than the new file), both modes, two instances on one location (in sequence,
    re-created, interleaved, numbered after overwrite and the reverse), directories, the environment between calls."""
    out = []
    dom = [3, 1, 0]
    big = dict(domain=[2, 2, 1], tags=['u', 'rho'], saveto='dat.vti', scale=2.0)
    small = dict(domain=dom, tags=['x'], saveto='dat.vti')

    def calls(k, n, m, kinds):
        return [['call', k, vti_iter(rng, m['domain'], m['tags'], kinds)] for _ in range(n)]
    kb, ks = ['block', 'cell'], ['cell']
    pre_all = [['dat.0000.vti', old_vti_text('garbage')], ['dat.0001.vti', old_vti_text('long')], ['dat.0002.vti', old_vti_text('empty')],
               ['dat.0007.vti', 'iteration seven of an earlier run'], ['dat.vti', old_vti_text('xml-tail')], ['dat.0000', 'no extension'],
               ['dat.0001.vti.bak', 'keep']]
    for ow in (False, True):
        out.append(dict(kind='wvti', tag=f'stress:pre:all-kinds:overwrite{int(ow)}', pre=dict(files=pre_all),
                        world=dict(modules=[dict(small, overwrite=ow)], events=[['new', 0]] + calls(0, 3, small, ks))))
    for kind in ('long', 'empty', 'one-char'):
        out.append(dict(kind='wvti', tag='stress:pre:overwrite:' + kind, pre=dict(files=[['res.vti', old_vti_text(kind)], ['res', 'keep']]),
                        world=dict(modules=[dict(small, saveto='res', overwrite=True, scale=0.5)], events=[['new', 0]] + calls(0, 2, small, ks))))
    out.append(dict(kind='wvti', tag='stress:pre:no-extension', pre=dict(files=[['res.0000.vti', old_vti_text('long')], ['res.0000', 'keep'], ['res.0001', '']]),
                    world=dict(modules=[dict(small, saveto='res')], events=[['new', 0]] + calls(0, 2, small, ks))))
    # a call with nothing to write counts as an iteration and touches no file
    out.append(dict(kind='wvti', tag='stress:pre:nothing-to-write', pre=dict(files=[['dat.0001.vti', 'stays'], ['dat.0002.vti', 'goes']]),
                    world=dict(modules=[small], events=[['new', 0]] + calls(0, 1, small, ks) + calls(0, 1, small, ['skip']) + calls(0, 1, small, ks))))
    # two instances, one location
    out.append(dict(kind='wvti', tag='stress:two-instances:bigger-then-smaller',
                    world=dict(modules=[big, small], events=[['new', 0]] + calls(0, 3, big, kb) + [['new', 1]] + calls(1, 2, small, ks))))
    out.append(dict(kind='wvti', tag='stress:two-instances:smaller-then-bigger',
                    world=dict(modules=[small, big], events=[['new', 0]] + calls(0, 2, small, ks) + [['new', 1]] + calls(1, 3, big, kb))))
    out.append(dict(kind='wvti', tag='stress:two-instances:numbered-then-overwrite',
                    world=dict(modules=[big, dict(small, overwrite=True)],
                               events=[['new', 0]] + calls(0, 2, big, kb) + [['new', 1]] + calls(1, 2, small, ks) + calls(0, 1, big, kb))))
    out.append(dict(kind='wvti', tag='stress:two-instances:overwrite-then-numbered',
                    world=dict(modules=[dict(big, overwrite=True), small],
                               events=[['new', 0]] + calls(0, 2, big, kb) + [['new', 1]] + calls(1, 2, small, ks))))
    out.append(dict(kind='wvti', tag='stress:two-instances:overwrite-twice',
                    world=dict(modules=[dict(big, overwrite=True), dict(small, overwrite=True)],
                               events=[['new', 0], ['new', 1]] + calls(0, 1, big, kb) + calls(1, 1, small, ks) + calls(0, 1, big, kb)
                               + calls(1, 1, small, ks))))
    out.append(dict(kind='wvti', tag='stress:re-created:same-module',
                    world=dict(modules=[dict(small, scale=2.0, saveto='out/dat.vti')],
                               events=[['new', 0]] + calls(0, 3, small, ks) + [['new', 0]] + calls(1, 2, small, ks))))
    out.append(dict(kind='wvti', tag='stress:two-instances:interleaved',
                    world=dict(modules=[big, small], events=[['new', 0], ['new', 1]] + calls(0, 1, big, kb) + calls(1, 2, small, ks)
                               + calls(0, 2, big, kb) + calls(1, 1, small, ks))))
    # directories
    out.append(dict(kind='wvti', tag='stress:dir:missing',
                    world=dict(modules=[dict(small, saveto='a/b/c/d.vti')], events=[['new', 0]] + calls(0, 2, small, ks))))
    out.append(dict(kind='wvti', tag='stress:dir:exists', pre=dict(dirs=['a/b/empty'], files=[['a/b/d.0001.vti', old_vti_text('long')], ['a/d.0000.vti', 'keep']]),
                    world=dict(modules=[dict(small, saveto='a/b/d.vti')], events=[['new', 0]] + calls(0, 2, small, ks))))
    for sv in ('out/dat.vti', 'out/sub/dat.vti'):
        out.append(dict(kind='wvti', tag='stress:dir:parent-is-a-file', pre=dict(files=[['out', 'a regular file\n']]),
                        world=dict(modules=[dict(small, saveto=sv)], events=[['new', 0]] + calls(0, 1, small, ks)),
                        **{'class': 'malformed:parent-is-a-file'}))
    # the environment between the calls
    out.append(dict(kind='wvti', tag='stress:environment:numbered',
                    world=dict(modules=[small], events=[['new', 0], ['write', 'dat.0000.vti', old_vti_text('long')]] + calls(0, 2, small, ks)
                               + [['remove', 'dat.0000.vti'], ['write', 'dat.0002.vti', old_vti_text('garbage')]] + calls(0, 1, small, ks))))
    out.append(dict(kind='wvti', tag='stress:environment:overwrite',
                    world=dict(modules=[dict(small, overwrite=True)], events=[['new', 0]] + calls(0, 1, small, ks)
                               + [['write', 'dat.vti', old_vti_text('long')]] + calls(0, 1, small, ks) + [['remove', 'dat.vti']]
                               + calls(0, 1, small, ks))))
    # reset() / sensitivity() between the responses: the numbering goes on, earlier files stay
    def loop(k, n, m, kinds, how):
        ev = []
        for _ in range(n):
            ev += calls(k, 1, m, kinds) + [['sens', k, how], ['reset', k, how]]
        return ev
    for ow in (False, True):
        for how, via in (('module', 'module'), ('network', 'network'), ('network', 'module'), ('module', 'network')):
            out.append(dict(kind='wvti', tag=f'stress:reset:loop:{how}:response-through-{via}:overwrite{int(ow)}',
                            pre=dict(files=[['dat.0000.vti', old_vti_text('long')], ['dat.vti', old_vti_text('garbage')]]),
                            world=dict(modules=[dict(small, overwrite=ow, via=via)], events=[['new', 0]] + loop(0, 3, small, ks, how))))
    out.append(dict(kind='wvti', tag='stress:reset:before-first-and-repeated',
                    world=dict(modules=[big], events=[['new', 0], ['reset', 0, 'network'], ['sens', 0, 'module']] + calls(0, 1, big, kb)
                               + [['reset', 0, 'module'], ['reset', 0, 'module'], ['reset', 0, 'network']] + calls(0, 2, big, kb)
                               + [['reset', 0, 'network']] + calls(0, 1, big, kb))))
    out.append(dict(kind='wvti', tag='stress:reset:two-instances:other-one-reset',
                    world=dict(modules=[big, small], events=[['new', 0], ['new', 1]] + calls(0, 1, big, kb) + calls(1, 2, small, ks)
                               + [['reset', 1, 'network']] + calls(0, 1, big, kb) + [['reset', 0, 'module'], ['sens', 1, 'network']]
                               + calls(1, 1, small, ks) + calls(0, 1, big, kb))))
    out.append(dict(kind='wvti', tag='stress:reset:nothing-to-write-then-reset',
                    world=dict(modules=[small], events=[['new', 0]] + calls(0, 1, small, ['skip']) + [['reset', 0, 'network']]
                               + calls(0, 1, small, ks) + [['reset', 0, 'module']] + calls(0, 1, small, ks))))
    return out


def big_values(rng, n, period=13):
    """compact form of a LARGE array (expand_values): `period` drawn values repeated, and single entries replaced by
    other values at the first / last index and around every multiple of 2^12 .. 2^16 entries and of 65536 / 49152 BYTES,
    so that neither the input nor the base64 text is simply periodic across those positions"""
    pat = rand_values(rng, period, rng.choice(['float', 'float', 'dyadic', 'wide']))
    marks = {0: 1.5, n - 1: -7.0}
    for k in range(12, 17):
        for m in range(1, n // (1 << k) + 1):
            for d in (-1, 0, 1):
                i = m * (1 << k) + d
                if 0 <= i < n:
                    marks[i] = float(rng.randint(-1000, 1000)) + 0.5 * d
    for i in (12288, 12287, 5461, 5462, 16383 * 3, n // 2):
        if 0 <= i < n:
            marks[i] = rng.gauss(0.0, 1.0)
    return dict(pattern=pat, n=n, marks=[[i, marks[i]] for i in sorted(marks)])


def big_stress(rng, quick):
    """LARGE arrays, on every seed: more than 65536 bytes per written array (element fields of > 16384 entries, padded
    nodal vector fields on > 5461 nodes, 3-D nodal vector fields, blocks of such vectors), and arrays of 2^k - 1, 2^k,
    2^k + 1 float32 values for k = 12 .. 16 (all three base64 paddings at every boundary).  Values are periodic with
    single entries replaced, which lets the harness hand ALL bytes of the inputs and of the files to Coq in run-length form:
    model file == written file byte for byte, every block decoded by the Coq decoder.  Unstructured values of the same
    sizes go to the oracle only (oracle_only: python's decoder)."""
    out = []

    def vec(name, shape, **kw):
        return dict(name=name, shape=list(shape), values=big_values(rng, int(np.prod(shape))), **kw)
    # (domain, vectors): nel, nnodes not multiples of each other, sizes determine kind and components
    out.append(dict(kind='vti', tag='stress:large:element-field-130x130', domain=[130, 130, 0], vectors=[vec('x', [16900])]))
    out.append(dict(kind='vti', tag='stress:large:element-field-129x128', domain=[129, 128, 0], vectors=[vec('rho', [16512], dtype='f4')],
                    scale=0.5, filename='sub/large.vti'))
    out.append(dict(kind='vti', tag='stress:large:exactly-65536-bytes-128x128', domain=[128, 128, 0], vectors=[vec('x', [16384])]))
    out.append(dict(kind='vti', tag='stress:large:padded-nodal-vectors-74x74', domain=[74, 74, 0],
                    vectors=[vec('u', [11250]), vec('x', [5476])], origin=[1.0, -2.5, 0.0]))
    out.append(dict(kind='vti', tag='stress:large:padded-nodal-block-120x60', domain=[120, 60, 0],
                    vectors=[vec('modes', [2, 14762], layout='F')]))
    out.append(dict(kind='vti', tag='stress:large:nodal-vectors-3d-18x17x17', domain=[18, 17, 17], vectors=[vec('u', [18468]), vec('T', [6156])]))
    out.append(dict(kind='vti', tag='stress:large:element-tensor-field-3d-20x17x17', domain=[20, 17, 17], vectors=[vec('s', [6 * 5780], layout='strided')]))
    ks = range(12, 17) if quick else range(10, 18)
    for k in ks:
        for d in (-1, 0, 1):
            n = (1 << k) + d
            out.append(dict(kind='vti', tag=f'stress:large:2^{k}{d:+d}-floats', domain=[n, 1, 0], vectors=[vec('x', [n])], filename='b.vti'))
    # point data with 2^k +- 1 floats: n nodes on an (n/2 - 1) x 1 grid exist for even n only; three components, 3 * nnodes floats
    for k in (13, 15):
        nn = (1 << k)
        out.append(dict(kind='vti', tag=f'stress:large:3x2^{k}-point-floats', domain=[nn // 2 - 1, 1, 0], vectors=[vec('u', [3 * nn])], filename='b.vti'))
    # unstructured values, oracle only
    for dom3, shp in (([160, 120, 0], [19200]), ([160, 120, 0], [2 * 161 * 121]), ([131, 129, 0], [16899]), ([30, 20, 15], [3 * 31 * 21 * 16])):
        n = int(np.prod(shp))
        out.append(dict(kind='vti', tag='stress:large:unstructured-values', domain=dom3, oracle_only=True,
                        vectors=[dict(name='w', shape=shp, values=dict(pattern=rand_values(rng, n, 'float'), n=n))]))
    # WriteToVTI histories with large arrays, reset() in between
    big = dict(domain=[130, 130, 0], tags=['x'], saveto='out/big.vti', via='network')
    it = lambda: [vec('x', [16900])]   # noqa
    out.append(dict(kind='wvti', tag='stress:large:history-numbered', pre=dict(files=[['out/big.0001.vti', old_vti_text('long')]]),
                    world=dict(modules=[big], events=[['new', 0], ['call', 0, it()], ['sens', 0, 'network'], ['reset', 0, 'network'],
                                                      ['call', 0, it()], ['reset', 0, 'module']])))
    pb = dict(domain=[74, 74, 0], tags=['u'], saveto='big2.vti', overwrite=True)
    out.append(dict(kind='wvti', tag='stress:large:history-overwrite-padded',
                    world=dict(modules=[pb], events=[['new', 0], ['call', 0, [vec('u', [11250])]], ['reset', 0, 'module'],
                                                      ['call', 0, [vec('u', [11250])]]])))
    return out


def widen_wvti(rng, spec):
    """random widening of a one-module WriteToVTI history over the file system"""
    mod = {k: spec[k] for k in WVTI_KEYS if k in spec}
    if rng.random() < 0.4:
        mod['via'] = 'network'
    its = spec['iterations']
    pre = dict(files=[], dirs=[])
    kinds = ['garbage', 'empty', 'long', 'xml-tail', 'one-char']
    for it in rng.sample(range(0, 7), rng.choice([1, 2, 3])):
        pre['files'].append([wvti_target(mod, it), old_vti_text(rng.choice(kinds))])
    if rng.random() < 0.5:
        pre['files'].append([wvti_target(dict(mod, overwrite=not mod.get('overwrite', False)), 0), old_vti_text(rng.choice(kinds))])
    pre['files'] = [list(x) for x in dict((p_, c) for p_, c in pre['files']).items()]
    events = [['new', 0]]
    mods = [mod]
    k = 0
    for i, it in enumerate(its):
        if i > 0 and rng.random() < 0.3:
            what = rng.choice(['new-same', 'new-other-mode', 'remove', 'write'])
            if what == 'new-same':
                events.append(['new', 0])
                k += 1
            elif what == 'new-other-mode':
                mods.append(dict(mod, overwrite=not mod.get('overwrite', False)))
                events.append(['new', len(mods) - 1])
                k += 1
            elif what == 'remove':
                t = wvti_target(mod, rng.randrange(0, i))
                events.append(['write', t, old_vti_text(rng.choice(kinds))])
                events.append(['remove', t])
            else:
                events.append(['write', wvti_target(mod, rng.randrange(0, 6)), old_vti_text(rng.choice(kinds))])
        events.append(['call', k, it])
        events += quiet_events(rng, k)
    return dict(kind='wvti', pre=pre, world=dict(modules=mods, events=events), tag='widened')


def gen_log_malformed(rng):
    """arrays without entries: np.nditer refuses them (ValueError); only the exception class is compared"""
    what = rng.choice(['empty', 'empty-2d'])
    shape = {'empty': [0], 'empty-2d': [2, 0]}[what]
    good = dict(type='float', value=1.5)
    bad = dict(type='array', shape=shape, values=[])
    its = [[good, bad]] if rng.random() < 0.5 else [[bad, good], [bad, good]]
    return dict(kind='log', tags=['a', 'b'], iterations=its, saveto='log.txt', fmt=rng.choice(['.3e', 'g']), **{'class': 'malformed:' + what})


# ----------------------------------------------------------------------------- oracle (implementation-side property)
def oracle_vti_file(ctx, dom, vectors, data, scale, origin, unit, site, case):
    """the property, stated on the implementation's file with python's own decoders. returns list of (predicate, expected, got)"""
    bad = []
    try:
        p = parse_vti(data)
    except Exception as e:  # noqa
        return [('file is well-formed XML', 'parses', repr(e))]
    if p['root'] != 'VTKFile' or p['rattr'].get('type') != 'ImageData' or p['rattr'].get('header_type') != 'UInt64' \
            or p['rattr'].get('byte_order') != ('LittleEndian' if sys.byteorder == 'little' else 'BigEndian'):
        bad.append(('VTKFile element describes image data', 'ImageData/UInt64', p['rattr']))
    ext = f'0 {dom.nelx} 0 {dom.nely} 0 {dom.nelz}'
    if p['iattr'].get('WholeExtent') != ext or p['pattr'].get('Extent') != ext:
        bad.append(('extent describes the domain', ext, (p['iattr'].get('WholeExtent'), p['pattr'].get('Extent'))))
    org = (0.0, 0.0, 0.0) if origin is None else origin
    es = [float(u) for u in unit]
    try:
        sp = [float(t) for t in p['iattr']['Spacing'].split()]
        og = [float(t) for t in p['iattr']['Origin'].split()]
        if len(sp) != 3 or any(abs(s - e * scale) > 1e-12 * abs(e * scale) for s, e in zip(sp, es)):
            bad.append(('spacing = element size * scale', [e * scale for e in es], sp))
        if len(og) != 3 or any(abs(o - e * scale) > 1e-12 * max(abs(e * scale), 1e-300) for o, e in zip(og, org)):
            bad.append(('origin = origin * scale', [e * scale for e in org], og))
    except Exception as e:  # noqa
        bad.append(('spacing/origin are numbers', 'floats', repr(e)))
    if any(a_['type'] != 'Float32' or a_['format'] != 'binary' or a_['tag'] != 'DataArray' for a_ in p['arrays']):
        bad.append(('arrays are binary Float32 DataArrays', None, None))
    pos = {'PointData': 0, 'CellData': 0}
    secs = {k: [a_ for a_ in p['arrays'] if a_['section'] == k] for k in pos}
    names = [a_['name'] for a_ in p['arrays']]
    if len(set(names)) != len(names):
        bad.append(('array names are distinct', None, names))
    for key, a in vectors.items():
        sp_ = spec_entry(dom, a)
        if sp_ is None or sp_ == 'skip':
            continue
        kind, vs = sp_
        sec = 'PointData' if kind == 'point' else 'CellData'
        for i, (nc, v) in enumerate(vs):
            cand = [a_ for a_ in secs[sec] if a_['name'] == key or a_['name'].startswith(key + '(')]
            if i >= len(cand):
                bad.append((f'{kind}-sized vector is written as {sec}', f'{key}: array {i} with {nc} components in {sec}',
                            [(a_['section'], a_['name'], a_['ncomp']) for a_ in p['arrays']]))
                break
            a_ = cand[i]
            try:
                _, body = py_decode(a_['raw'])
            except Exception as e:  # noqa
                bad.append(('payload is valid base64', None, repr(e)))
                break
            got = np.frombuffer(body, dtype='<f4')
            if a_['ncomp'] != nc:
                bad.append(('number of components', nc, a_['ncomp']))
            if got.tobytes() != v.tobytes():
                bad.append(('decoded array equals the input in single precision', v.tolist()[:8], got.tolist()[:8]))
    return bad


def oracle(ctx, pym, jobs):
    for job in jobs:
        ctx.search_evaluations += 1
        kind = job[0]
        if kind == 'vti':
            _, spec, dom, vectors, data, err, scale, origin, unit = job
            cls = spec.get('class', 'structured')
            case = dict(spec=spec)
            if err is not None:
                if cls == 'structured':
                    ctx.violation('impl-violates', 'DomainDefinition.write_to_vti', 'writes without raising', cls, case, got=repr(err)[:300])
                continue
            if data is None:
                if cls == 'structured' and any(spec_entry(dom, a) not in (None, 'skip') for a in vectors.values()):
                    ctx.violation('impl-violates', 'DomainDefinition.write_to_vti', 'a file is written', cls, case)
                continue
            bad = oracle_vti_file(ctx, dom, vectors, data, scale, origin, unit, 'DomainDefinition.write_to_vti', case)
            for pred, exp, got in bad:
                ctx.violation('impl-violates', 'DomainDefinition.write_to_vti', pred, cls.split(':')[0], case, expected=exp, got=got)
        elif kind == 'wvti':
            _, spec, mods, doms, before, snaps, err, done, insts = job
            case = dict(spec=spec)
            cls = spec.get('class', 'structured')
            if err is not None and not cls.startswith('malformed'):
                ctx.violation('impl-violates', 'WriteToVTI._response', 'writes without raising', 'structured', case, got=repr(err)[:300])
            prev, count = before, {}
            for ei, (ev, snap) in enumerate(zip(done, snaps)):
                if ev[0] == 'call':
                    inst = insts[ev[1]]
                    mod, dom = mods[inst['mi']], doms[inst['mi']]
                    it = count.get(ev[1], 0)
                    count[ev[1]] = it + 1
                    vectors = {}
                    for t, a in zip(mod['tags'], inst['calls'][it]):
                        vectors[t] = a
                    entries = [spec_entry(dom, a) for a in vectors.values()]
                    changed = sorted(n_ for n_ in snap if snap[n_] != prev.get(n_))
                    gone = sorted(set(prev) - set(snap))
                    target = wvti_target(mod, it)
                    c2 = dict(case, event=ei, iteration=it, file=target)
                    if gone or [n_ for n_ in changed if n_ != target]:
                        ctx.violation('impl-violates', 'WriteToVTI._response', 'a response writes its own file and leaves every other file alone',
                                      cls, c2, expected=[target], got=dict(changed=changed, removed=gone))
                    elif all(e_ == 'skip' for e_ in entries):
                        if changed:
                            ctx.violation('impl-violates', 'WriteToVTI._response', 'nothing to write: no file is touched', cls, c2, got=changed)
                    elif None not in entries:
                        if target not in snap:
                            ctx.violation('impl-violates', 'WriteToVTI._response', 'one file per iteration (one file in overwrite mode)',
                                          cls, c2, expected=target, got=sorted(snap))
                        else:
                            # whatever a file of that name held before: it is now a well-formed file of exactly these vectors
                            for pred, exp, got in oracle_vti_file(ctx, dom, vectors, snap[target], mod.get('scale', 1.0), None,
                                                                  mod.get('unit', [1.0] * 3), 'WriteToVTI', case):
                                ctx.violation('impl-violates', 'WriteToVTI._response', pred, cls, c2, expected=exp, got=got)
                elif ev[0] in QUIET and snap != prev:
                    ctx.violation('impl-violates', 'WriteToVTI', 'reset() and sensitivity() leave every file alone', cls,
                                  dict(case, event=ei), expected=[], got=sorted(n_ for n_ in set(snap) | set(prev) if snap.get(n_) != prev.get(n_)))
                prev = snap
        else:
            _, spec, jobs, err, quiet = job
            case = dict(spec=spec)
            cls = spec.get('class', 'structured')
            if err is not None and not cls.startswith('malformed'):
                ctx.violation('impl-violates', 'ScalarToFile._response', 'logs without raising', cls, case, got=repr(err)[:300])
            for ei, changed in quiet:
                if changed:
                    ctx.violation('impl-violates', 'ScalarToFile', 'reset() and sensitivity() leave every file alone', cls,
                                  dict(case, event=ei), expected=[], got=changed)
            for k, m, calls, data, fmt, sep in jobs:
                # instance k from its first call on, nobody else touched its file: header + one row per call, whatever
                # the file held before
                case = dict(spec=spec, instance=k)
                text = data.decode(errors='replace')
                effsep = ',' if '.csv' in m['saveto'] else sep
                lines = text.split('\n')
                if lines[-1] != '' or len(lines) != len(calls) + 2:
                    ctx.violation('impl-violates', 'ScalarToFile._response', 'one header line and one row per call', cls, case,
                                  expected=len(calls) + 1, got=len(lines) - 1)
                    continue
                for k_, (row, objs) in enumerate(zip(lines[1:-1], calls)):
                    vals = []
                    for o in objs:
                        if isinstance(o, np.ndarray) and o.ndim >= 1:
                            forder = o.ndim == 2 and o.flags.f_contiguous and not o.flags.c_contiguous
                            vals += list(o.ravel(order='F' if forder else 'C'))
                        else:
                            vals.append(o)
                    cols = row.split() if effsep.strip() == '' else row.split(effsep)
                    try:
                        ok = int(cols[0]) == k_ and len(cols) == 1 + len(vals)
                        for c, v in zip(cols[1:], vals):
                            pv = float(c)
                            ref = float(v.__format__(fmt))
                            if not (pv == ref or (math.isnan(pv) and math.isnan(ref))):
                                ok = False
                            if math.isfinite(float(v)) and not _within_format(float(v), pv, fmt):
                                ok = False
                    except Exception:  # noqa
                        ok = False
                    if not ok:
                        ctx.violation('impl-violates', 'ScalarToFile._response', 'columns parse back to the iteration number and the logged values',
                                      cls, dict(case, row=k_), expected=[k_] + [float(v) for v in vals], got=row)
                        break


def _within_format(v, parsed, fmt):
    """parsed is v rounded to the precision of the format"""
    m = re.fullmatch(r'[+]?(\d*)(?:\.(\d+))?([efgEFG]?)', fmt)
    if not m:
        return True
    prec = int(m.group(2)) if m.group(2) is not None else (6 if m.group(3) else None)
    t = m.group(3).lower()
    if prec is None:
        return parsed == v
    slack = 4e-16 * abs(v)          # resolution of binary64 at v (the text is correctly rounded, parsing it rounds again)
    if t == 'f':
        return abs(parsed - v) <= 0.5000001 * 10.0 ** (-prec) + slack
    if v == 0:
        return parsed == 0
    mag = 10.0 ** math.floor(math.log10(abs(v)))
    digits = prec if t == 'e' else max(prec, 1) - 1
    return abs(parsed - v) <= 0.5000001 * 10.0 ** (-digits) * mag * 1.0000001 + slack


# ----------------------------------------------------------------------------- main
def load_corpus():
    d = os.path.join(vlib.ROOT, 'corpus', 'C20')
    out = []
    if os.path.isdir(d):
        for fn in sorted(os.listdir(d)):
            if fn.endswith('.json'):
                for c in json.load(open(os.path.join(d, fn)))['cases']:
                    c.setdefault('tag', fn)
                    out.append(c)
    return out


def run(ctx):
    import pymoto as pym
    quick = ctx.quick()
    ctx.rule = ('cases are (a) direct DomainDefinition.write_to_vti calls, (b) WriteToVTI histories, (c) ScalarToFile histories, all run on '
                'the real implementation in a scratch directory.  (b) and (c) are histories of EVENTS on a file system: files that exist '
                'before the first response (log / VTI of an earlier instance with the same or other tags, format, separator; longer, shorter, '
                'empty, without final newline, 6-30 kB of filler; at the name of the same and of other iterations; neighbours with similar '
                'names), directories that exist / are missing / are regular files (exception class), 1-4 module instances on one location '
                '(in sequence, re-created, created first and called later, interleaved, numbered after overwrite and the reverse), files '
                'written / removed by the environment between calls, a call with nothing to write, an exception in the middle; a fixed set '
                'of such histories (wvti_stress, log_stress) runs on every seed, every second random history is widened the same way; after '
                'EVERY event the names and bytes of ALL files are compared with the model.  Events also include reset() and sensitivity() '
                'of a module or of the Network around it (the response -> sensitivity -> reset loop of every optimiser, reset before the '
                'first / after the last call, repeated, of the OTHER instance), responses through Network.response(); in the model they are '
                'events that change nothing (C20_log_reset_changes_nothing, C20_wvti_reset_changes_nothing), so header, rows, iteration '
                'numbers and file names must be those of the calls alone.  LARGE arrays on every seed (big_stress): element fields of '
                '16384 / 16512 / 16900 entries (128x128, 129x128, 130x130), padded nodal vector fields on 5625 / 7381 nodes (also as block), '
                '3-D nodal vectors and a 6-component element field with > 65536 bytes per array, arrays of 2^k - 1, 2^k, 2^k + 1 float32 '
                'values for k = 12..16 (10..17 thorough: all three base64 paddings at every boundary), WriteToVTI histories with such arrays '
                'and reset(); their values are periodic with single entries replaced around every 2^k-th entry, which lets the harness hand '
                'ALL bytes of inputs, files and base64 blocks to Coq in a lossless run-length form (unrle): the model file is compared '
                'with the written file byte for byte and every block is decoded by the Coq decoder; unstructured values of the same sizes '
                '(160x120, 131x129, 30x20x15) are read back by the oracle only.  Structured cases draw domains with '
                'nel, nnodes not multiples of each other (2-D and 3-D), 1-4 vectors (cell/point/block, both block orientations, 2..11 '
                'vectors per block, C/F/strided layouts, f8/f4/i8), scales, origins, element sizes, file names, overwrite modes, formats, '
                'separators; a malformed stream (sizes that fit neither, ambiguous sizes, 3-D arrays, empty inputs, special float values, '
                'empty logged arrays) compares the exception class / the as-written behaviour only.  A case is non-trivial when a file with at '
                'least one array (one row) was written; distinct by (kind, domain, shapes, options, file name, outcome).')
    ctx.assumptions += [
        'little-endian host (sys.byteorder == "little"); the model writes byte_order="LittleEndian" and "<Q"/"<f4"',
        'the value of the UInt64 block header is modelled as written (length of the base64 text); the property does not fix it',
        'array names are ASCII without XML special characters (names are not escaped by write_to_vti)',
        'ScalarToFile signals hold real scalars or C-/F-contiguous arrays; complex values and other memory layouts are not generated',
        'arrays of more than 4096 bytes reach Coq in run-length form (pattern, repetitions), decoded inside Coq; the harness asserts that the '
        'form is lossless; large arrays with unstructured values are checked by the oracle (python decoder) only',
        'reset() / sensitivity() of ScalarToFile and WriteToVTI are modelled as events without effect (neither class defines _reset or '
        '_sensitivity; Module.reset clears the sensitivities of the signals only)',
        'file system model (Model/Fs.v): regular files under normalised relative paths; the target of a module is never an existing '
        'directory; directories are not removed between construction and response; no concurrent writers (events are sequential); the '
        'files left by an exception INSIDE write_to_vti (opened, partly written) are not modelled and not compared',
        'the classification theorem for plain vectors needs: the size c*nnodes of a point vector is not a multiple of nel (the literal '
        'quantifier "counts not multiples of each other" is not sufficient: C20_classification_literal_refuted); the oracle treats sizes '
        'that fit both kinds as undetermined; block vectors are classified by their axes (C20_classification_blocks)',
        'the three defects found while building this check (F21, F22, F23) are repaired in /repo; the model follows the repaired code and '
        'their witnesses run first on every check as structured cases (corpus/C20/fixed_defects.json)']
    ctx.trusted += [
        'oracles (Section variables / inputs of the executable model, validated per run): ndarray.astype(float32) per entry (contract: 4 bytes, '
        'value within half an ulp, checked in Coq by f32_close on every generated finite value), float.__format__ / int.__format__ of logged values, '
        'float repr in the Origin/Spacing attributes (numeric value checked in Coq against origin*scale, element_size*scale), python dict/str semantics '
        'of the harness itself',
        'xml.etree.ElementTree + base64.b64decode + np.frombuffer as the independent reader of the oracle',
        'Print Assumptions: all C20 theorems are closed under the global context (no axioms)']
    vlib.audit(ctx)
    if not vlib.ensure_static(ctx):
        return
    vlib.check_props(ctx)
    if sys.byteorder != 'little':
        ctx.obligation('host is little-endian', 'harness', False, sys.byteorder)
        return

    rng = ctx.rng
    checks, labels, jobs = [], [], []
    doms = good_domains(quick)
    runners = {'vti': run_vti, 'wvti': run_wvti, 'log': run_log}
    n_vti, n_mal, n_wvti, n_log, n_logmal = (90, 30, 30, 80, 8) if quick else (550, 120, 200, 500, 30)
    with Scratch() as sc:
        specs = load_corpus()
        ctx.count('corpus', len(specs))
        for _ in range(n_vti):
            specs.append(gen_vti_spec(rng, quick, doms))
        for _ in range(n_mal):
            specs.append(gen_vti_malformed(rng, doms))
        stress = big_stress(rng, quick) + wvti_stress(rng) + log_stress(rng)
        ctx.count('stress histories (every seed)', len(stress))
        specs += stress
        for i in range(n_wvti):
            sp_ = gen_wvti_spec(rng, doms)
            specs.append(widen_wvti(rng, sp_) if i % 2 else sp_)
        for i in range(n_log):
            sp_ = gen_log_spec(rng)
            specs.append(widen_log(rng, sp_) if i % 2 else sp_)
        for _ in range(n_logmal):
            specs.append(gen_log_malformed(rng))
        if getattr(ctx, 'replay', None):
            rpath = ctx.replay if os.path.isabs(ctx.replay) else os.path.join(vlib.ROOT, ctx.replay)
            rp = json.load(open(rpath))
            if isinstance(rp.get('case'), dict) and 'spec' in rp['case']:
                specs = [rp['case']['spec']]     # re-execute exactly that case on the current tree
        for spec in specs:
            runners[spec['kind']](ctx, pym, sc, spec, checks, labels, jobs)
        leftovers = sc.dir
    ctx.obligation('scratch directory removed', 'harness', not os.path.exists(leftovers), leftovers)

    # shard by size (case files stay below ~300 KB), compile the shards in parallel
    shards, start = [], 0
    while start < len(checks):
        size, end = 0, start
        while end < len(checks) and (end == start or size + len(checks[end]) + labels[end].get('cost', 0) < 260000) and end - start < 60:
            size += len(checks[end]) + labels[end].get('cost', 0)     # cost: bytes that are expanded from run-length form inside Coq
            end += 1
        shards.append((start, end))
        start = end
    failing, errs = [], []
    from concurrent.futures import ThreadPoolExecutor

    def one(i):
        st, en = shards[i]
        return st, vlib.run_cases(ctx, f'c20_{i}', HEADER, checks[st:en], chunk=en - st)
    with ThreadPoolExecutor(max_workers=int(os.environ.get('VERIF_COQ_JOBS', '6'))) as ex:
        for st, (fl, e1) in ex.map(one, range(len(shards))):
            failing += [st + i for i in fl]
            if e1:
                errs.append(e1)
    failing.sort()
    k = len(shards)
    err = '\n'.join(errs)
    ctx.extra['case_files'] = k
    ctx.obligation('correspondence:case files evaluated', 'correspondence', not err, err)
    if err:
        ctx.violation('correspondence', 'write_to_vti/WriteToVTI/ScalarToFile', 'case files compile', 'harness', dict(error=err[-3000:]),
                      theorem='cases_c20')
    for idx in failing[:12]:
        lab = labels[idx]
        vals, e2 = vlib.eval_coq(ctx, f'fail_{idx}', HEADER, lab['sub'])
        which = [p for p, v in zip(lab['parts'], vals or []) if v.strip() != 'true'] if vals else ['?']
        site = {'vti': 'DomainDefinition.write_to_vti', 'wvti': 'WriteToVTI._response', 'log': 'ScalarToFile._response'}[lab['kind']]
        ctx.violation('correspondence', site, 'model == implementation: ' + ','.join(which), lab['spec'].get('class', 'structured'),
                      dict(spec=lab['spec'], failing_parts=which), note='Coq model and implementation differ')
    oracle(ctx, pym, jobs)


if __name__ == '__main__':
    vlib.main(run, 'C20')
