"""C13, histories: the DomainDefinition object as a state machine.

Every public method (get_elemnumber, get_nodenumber, get_node_indices, get_node_position, get_elemconnectivity,
get_dofconnectivity, eval_shape_fun, eval_shape_fun_der, write_to_vti with scale/origin, plot, update_plot) is called in
deterministic and random sequences on ONE domain object; every returned array is overwritten by the harness afterwards
(at once or some operations later); several objects are driven interleaved in one process.

 * correspondence: the history (operations incl. the harness' writes) and what the implementation returned / what its
   attributes held are handed to Coq, which evaluates `run_obs` of Model/GridHist.v on the same history;
 * oracle (testing, counted as search evaluations): after every operation every attribute of the object is compared
   bit-for-bit with what the constructor left, every result with the same call on a fresh domain, every result must
   share no memory with an attribute or an earlier result, arrays returned earlier must keep their contents, caller-owned
   argument arrays must be unchanged.
"""
import os, re, copy, shutil, tempfile, warnings, random as _random
from fractions import Fraction
import numpy as np
from vlib import zl, ql, zlit, qlit

KINDS = {'float': float, 'int': int, 'np.float64': np.float64, 'np.int64': np.int64, 'np.int32': np.int32}
INT_KINDS = ('int', 'np.int64', 'np.int32')
SITE = dict(elemnumber='get_elemnumber', nodenumber='get_nodenumber', node_indices='get_node_indices', node_position='get_node_position',
            elemconn='get_elemconnectivity', dofconn='get_dofconnectivity', shape='eval_shape_fun', shape_der='eval_shape_fun_der',
            vti='write_to_vti', plot='plot', update_plot='update_plot')
QUERIES = ('elemnumber', 'nodenumber', 'node_indices', 'node_position', 'elemconn', 'dofconn', 'shape', 'shape_der')
P_UNCHANGED = 'public method leaves every attribute of the domain unchanged'
P_FILL = 'overwriting a returned array leaves the domain unchanged (queries return fresh arrays)'
P_ALIAS_ATTR = 'queries return fresh arrays (result shares no memory with an attribute of the domain)'
P_ALIAS_RES = 'queries return fresh arrays (result shares no memory with an array returned earlier)'
P_HELD = 'arrays returned earlier keep their contents'
P_FRESH = 'query on a used domain == the same query on a fresh domain'
P_ARGS = 'caller-owned argument arrays are unchanged'
P_RAISE = 'well-formed call is accepted'


def mk_sizes(hs, kinds):
    return [KINDS[k](int(h)) if k in INT_KINDS else KINDS[k](h) for h, k in zip(hs, kinds)]


def snapshot(d):
    out = {}
    for k, v in vars(d).items():
        if isinstance(v, np.ndarray):
            out[k] = ('ndarray', str(v.dtype), tuple(v.shape), v.tobytes())
        else:
            out[k] = (type(v).__name__, repr(v))
    return out


def snap_diff(s0, s1):
    """attributes that changed or disappeared; new attributes (e.g. a memo) are adopted into s0 and watched from then on"""
    diff = [k for k in s0 if s1.get(k) != s0[k]]
    for k in s1:
        if k not in s0:
            s0[k] = s1[k]
    return diff


def describe(entry):
    if entry is None:
        return None
    if entry[0] == 'ndarray':
        return dict(dtype=entry[1], shape=list(entry[2]), values=np.frombuffer(entry[3], dtype=entry[1]).reshape(entry[2]).tolist())
    return dict(type=entry[0], value=entry[1])


def same_array(a, b):
    if isinstance(a, np.ndarray) != isinstance(b, np.ndarray):
        return False
    if isinstance(a, np.ndarray):
        return a.dtype == b.dtype and a.shape == b.shape and a.tobytes() == b.tobytes()
    return type(a) is type(b) and a == b


class History:
    """one domain object and the history driven on it"""

    def __init__(self, ctx, pym, name, grid, hs, kinds, ops, tmpdir):
        self.ctx, self.pym, self.name = ctx, pym, name
        self.grid, self.hs, self.kinds, self.ops = tuple(grid), list(hs), list(kinds), ops
        self.tmpdir = tmpdir
        self.d = self.fresh()
        self.dim = self.d.dim
        self.s0 = snapshot(self.d)
        self.held = {}         # ref -> (array object, expected contents, op name)
        self.next_ref = 5      # the constructor allocated element_size, origin, conn, elements, nodes
        self.coq_ops, self.coq_obs = [], []
        self.k = 0
        self.dead = False      # the object raised on a well-formed call / emitted something unrepresentable
        self.nviol = 0
        self.patches = None

    def fresh(self):
        return self.pym.DomainDefinition(*self.grid, *mk_sizes(self.hs, self.kinds))

    def done(self):
        return self.dead or self.k >= len(self.ops)

    # -- reporting
    def case(self):
        return dict(history=self.name, grid=list(self.grid), sizes=[float(h) for h in self.hs], size_kinds=self.kinds,
                    ops=self.ops[:self.k + 1], failing_op=self.k,
                    note='ops are applied in order to ONE DomainDefinition(*grid, *sizes); fill = overwrite every entry of the array returned by the op with that ref '
                         '(refs count the returned arrays from 5 on)')

    def bad(self, meth, pred, expected=None, got=None):
        self.nviol += 1
        if self.nviol <= 3:
            self.ctx.violation('impl-violates', f'DomainDefinition.{meth}', pred, f'dim{self.dim}', self.case(), expected=expected, got=got)

    # -- arguments
    def args_of(self, op):
        k = op['op']
        if k in ('elemnumber', 'nodenumber', 'elemconn'):
            ijk = op['ijk']
            if op.get('scalar'):
                return tuple(int(v) for v in ijk[0])
            return tuple(np.array([t[c] for t in ijk], dtype=int) for c in range(3))
        if k in ('node_indices', 'node_position'):
            if op['idx'] is None:
                return ()
            if op.get('strided'):          # a non-contiguous view handed over as index array
                big = np.zeros(2 * len(op['idx']), dtype=int)
                big[::2] = op['idx']
                return (big[::2],)
            return (np.array(op['idx'], dtype=int),)
        if k == 'dofconn':
            return (op['ndof'],)
        if k in ('shape', 'shape_der'):
            p = op['pos'][:self.dim]
            return (np.array([int(v) for v in p]) if op.get('int_pos') else np.array([float(v) for v in p]),)
        return ()

    def call(self, d, op, args):
        return getattr(d, SITE[op['op']])(*args)

    # -- one step
    def step(self):
        op = self.ops[self.k]
        try:
            self._step(op)
        except Exception as e:  # noqa -- harness-level surprise (unrepresentable value, unexpected shape): a failing input, not a crash
            self.bad(SITE.get(op['op'], op['op']), 'observation is representable (finite numbers, expected rank)', got=f'{type(e).__name__}: {str(e)[:300]}')
            self.dead = True
        self.k += 1

    def check_state(self, meth, pred):
        diff = snap_diff(self.s0, snapshot(self.d))
        if diff:
            now = snapshot(self.d)
            self.bad(meth, pred, expected={k: describe(self.s0[k]) for k in diff[:3]}, got={k: describe(now.get(k)) for k in diff[:3]})
            for k in diff:           # blame the operation that made the change, not every later one
                if k in now:
                    self.s0[k] = now[k]
                else:
                    del self.s0[k]
            return False
        return True

    def check_held(self, meth):
        for r, (arr, exp, src) in self.held.items():
            if not same_array(arr, exp):
                self.bad(meth, P_HELD, expected=dict(ref=r, returned_by=src, values=exp.tolist()), got=arr.tolist())
                self.held[r] = (arr, arr.copy(), src)

    def _step(self, op):
        ctx, d, k = self.ctx, self.d, op['op']
        ctx.search_evaluations += 1
        ctx.count(f'history op {k}')
        if k == 'fill':
            r, v = op['ref'], op['v']
            self.coq_ops.append(f'OFill {r} {zlit(v)}')
            self.coq_obs.append('ObNone')
            arr, exp, src = self.held[r]
            arr[...] = v
            self.held[r] = (arr, arr.copy(), src)
            self.check_state(SITE[src], P_FILL)
            self.check_held(SITE[src])
            return
        if k == 'snap':
            self.coq_ops.append('OSnap')
            self.coq_obs.append(self.coq_snapshot())
            self.check_state('attributes', P_UNCHANGED)
            return
        meth = SITE[k]
        if k in ('plot', 'update_plot'):
            self.coq_ops.append('OPlot')
            self.coq_obs.append('ObNone')
            from matplotlib.figure import Figure
            defo, sca = np.zeros(2 * d.nnodes), np.full(d.nel, 0.5)
            defo0, sca0 = defo.copy(), sca.copy()
            try:
                if k == 'plot' or self.patches is None:
                    self.patches = d.plot(Figure().add_subplot(), deformation=defo, scaling=sca)
                if k == 'update_plot':
                    d.update_plot(self.patches, deformation=defo, scaling=sca)
            except Exception as e:  # noqa -- plotting is outside the property text; only its effect on the domain matters here
                ctx.count(f'history {k} raised {type(e).__name__}')
            if not (same_array(defo, defo0) and same_array(sca, sca0)):
                self.bad(meth, P_ARGS)
            self.check_state(meth, P_UNCHANGED)
            self.check_held(meth)
            return
        if k == 'vti':
            scale, origin = op['scale'], tuple(op['origin'])
            vecs = {'x': np.arange(d.nel, dtype=float), 'u': np.arange(d.nnodes * self.dim, dtype=float) / 4}
            vecs0 = {n: a.copy() for n, a in vecs.items()}
            path = os.path.join(self.tmpdir, f'{self.name}_{self.k}.vti')
            kw = {}
            if scale is not None:
                kw['scale'] = scale
            if origin:
                kw['origin'] = origin
            try:
                with warnings.catch_warnings():
                    warnings.simplefilter('ignore')
                    d.write_to_vti(vecs, path, **kw)
            except Exception as e:  # noqa
                self.bad(meth, P_RAISE, expected='no exception', got=f'{type(e).__name__}: {str(e)[:300]}')
                self.check_state(meth, P_UNCHANGED)
                self.dead = True
                return
            with open(path, 'rb') as f:
                head = f.read(600).decode('latin-1')
            os.remove(path)
            sp = [Fraction(float(t)) for t in re.search(r'Spacing="([^"]*)"', head).group(1).split()]
            og = [Fraction(float(t)) for t in re.search(r'Origin="([^"]*)"', head).group(1).split()]
            sc = Fraction(1) if scale is None else Fraction(scale)
            ogq = [Fraction(v) for v in (origin or (0.0, 0.0, 0.0))]
            self.coq_ops.append(f'OWriteVti {qlit(sc)}%Q {ql(ogq)}%Q')
            self.coq_obs.append(f'ObVti {ql(sp)}%Q {ql(og)}%Q')
            if any(not same_array(vecs[n], vecs0[n]) for n in vecs):
                self.bad(meth, P_ARGS)
            self.check_state(meth, P_UNCHANGED)
            self.check_held(meth)
            return
        # ---- queries
        args = self.args_of(op)
        args0 = tuple(a.copy() if isinstance(a, np.ndarray) else a for a in args)
        try:
            res = self.call(d, op, args)
        except Exception as e:  # noqa
            self.bad(meth, P_RAISE, expected='no exception', got=f'{type(e).__name__}: {str(e)[:300]}')
            self.check_state(meth, P_UNCHANGED)
            self.dead = True
            return
        self.coq_ops.append(self.coq_op(op))
        self.coq_obs.append(self.coq_result(op, res))
        self.check_state(meth, P_UNCHANGED)
        if any(not same_array(a, b) for a, b in zip(args, args0)):
            self.bad(meth, P_ARGS, expected=[np.asarray(a).tolist() for a in args0], got=[np.asarray(a).tolist() for a in args])
        ref = self.call(self.fresh(), op, args0)
        if not same_array(res, ref):
            self.bad(meth, P_FRESH, expected=np.asarray(ref).tolist(), got=np.asarray(res).tolist())
        if isinstance(res, np.ndarray) and res.ndim > 0:
            for name, v in vars(d).items():
                if isinstance(v, np.ndarray) and np.shares_memory(res, v):
                    self.bad(meth, P_ALIAS_ATTR, expected='a new array', got=f'shares memory with domain.{name}')
            for r, (arr, exp, src) in self.held.items():
                if np.shares_memory(res, arr):
                    self.bad(meth, P_ALIAS_RES, expected='a new array', got=f'shares memory with the array returned by operation ref {r} ({src})')
            self.check_held(meth)
            if not res.flags.writeable:
                res = res.copy()       # nothing a caller could write into
            self.held[self.next_ref] = (res, res.copy(), k)
        else:
            self.check_held(meth)
        self.next_ref += 1

    # -- Coq text
    def coq_op(self, op):
        k = op['op']
        trip = lambda ijk: '[' + '; '.join(f'({zlit(a)}, {zlit(b)}, {zlit(c)})' for a, b, c in ijk) + ']'   # noqa
        if k == 'elemnumber':
            return f'OElemNumber {trip(op["ijk"])}'
        if k == 'nodenumber':
            return f'ONodeNumber {trip(op["ijk"])}'
        if k == 'elemconn':
            return f'OElemConn {trip(op["ijk"])}'
        if k in ('node_indices', 'node_position'):
            c = 'ONodeIndices' if k == 'node_indices' else 'ONodePosition'
            return f'{c} None' if op['idx'] is None else f'{c} (Some {zl(op["idx"])})'
        if k == 'dofconn':
            return f'ODofConn {zlit(op["ndof"])}'
        c = 'OShape' if k == 'shape' else 'OShapeDer'
        return f'{c} {ql([Fraction(v) for v in op["pos"]])}%Q'

    def coq_result(self, op, res):
        k = op['op']
        a = np.asarray(res)
        if k in ('elemnumber', 'nodenumber'):
            a = a.reshape(1, -1)
        elif k in ('node_indices', 'node_position'):
            a = a.T if a.ndim == 2 else a.reshape(1, -1)
        elif k == 'elemconn':
            a = a.reshape(-1, a.shape[-1])
        elif k == 'shape':
            a = a.reshape(1, -1)
        if a.ndim != 2:
            raise ValueError(f'result of {k} has rank {a.ndim}')
        if k in ('node_position', 'shape', 'shape_der'):
            return 'ObArr (AQ ' + ql([[Fraction(float(v)) for v in r] for r in a]) + '%Q)'
        if a.dtype.kind not in 'iu':
            raise ValueError(f'result of {k} has dtype {a.dtype}')
        return 'ObArr (AZ ' + zl(a.tolist()) + ')'

    def coq_snapshot(self):
        d = self.d
        sc = [int(getattr(d, n)) for n in ('nelx', 'nely', 'nelz', 'dim', 'nel', 'nnodes', 'elemnodes')]
        if any(int(getattr(d, n)) != getattr(d, n) for n in ('nelx', 'nely', 'nelz', 'dim', 'nel', 'nnodes', 'elemnodes')):
            raise ValueError('non-integer scalar attribute')
        unit = [Fraction(float(v)) for v in (d.unitx, d.unity, d.unitz)]
        nn = '[' + '; '.join(f'({zlit(int(n[0]))}, {zlit(int(n[1]))}, {zlit(int(n[2]))})' for n in d.node_numbering) + ']'
        q1 = lambda a: 'AQ ' + ql([[Fraction(float(v)) for v in np.asarray(a).ravel()]]) + '%Q'    # noqa
        z2 = lambda a: 'AZ ' + zl(np.asarray(a).reshape(-1, np.asarray(a).shape[-1]).tolist())      # noqa
        for a in (d.conn, d.elements, d.nodes):
            if np.asarray(a).dtype.kind not in 'iu':
                raise ValueError('index table is not an integer array')
        own = '[' + '; '.join([q1(d.element_size), q1(d.origin), z2(d.conn), z2(d.elements), z2(d.nodes)]) + ']'
        return f'ObSnap {zl(sc)} {ql(unit)}%Q {nn} {own}'

    def coq_check(self):
        a, b, c = self.grid
        hq = ql([Fraction(float(h)) for h in self.hs]) + '%Q'
        ops = '[' + ';\n    '.join(self.coq_ops) + ']'
        obs = '[' + ';\n    '.join(self.coq_obs) + ']'
        return f'obsl_eqb (run_obs (new_st [] (G {a} {b} {c}) {hq}) {ops})\n   {obs}'

    def coq_failing(self):
        return self.coq_check().replace('obsl_eqb', 'obs_failing', 1)


# ---------------------------------------------------------------------------------------------------- generators
def box_points(r, grid, n, node):
    a, b, c = grid
    hi = (a, b, c) if node else (a - 1, b - 1, max(c, 1) - 1)
    return [[r.randint(0, hi[0]), r.randint(0, hi[1]), r.randint(0, hi[2])] for _ in range(n)]


def all_elems(grid):
    a, b, c = grid
    return [[i, j, k] for k in range(max(c, 1)) for j in range(b) for i in range(a)]


def rand_pos(r, hs, int_pos=False):
    if int_pos:
        return [int(r.randint(-(int(h) // 2), int(h) // 2)) for h in hs]
    return [float(Fraction(r.choice((-8, 8, r.randint(-8, 8), r.randint(-8, 8))), 16) * Fraction(h)) for h in hs]


def rand_query(r, grid, hs, nnodes):
    k = r.choice(QUERIES)
    if k in ('elemnumber', 'elemconn'):
        return dict(op=k, ijk=box_points(r, grid, r.randint(1, 4), node=False))
    if k == 'nodenumber':
        return dict(op=k, ijk=box_points(r, grid, r.randint(1, 4), node=True))
    if k in ('node_indices', 'node_position'):
        if r.random() < 0.5:
            return dict(op=k, idx=None)
        return dict(op=k, idx=[r.randrange(nnodes) for _ in range(r.randint(1, 5))], strided=r.random() < 0.4)
    if k == 'dofconn':
        return dict(op=k, ndof=r.choice((1, 1, 2, 3)))
    return dict(op=k, pos=rand_pos(r, hs))


def sweep_history(r, grid, hs):
    """every query, its result overwritten at once, then every attribute read, then every query again"""
    a, b, c = grid
    nn = (a + 1) * (b + 1) * (c + 1)
    qs = [dict(op='dofconn', ndof=1), dict(op='dofconn', ndof=2), dict(op='dofconn', ndof=3), dict(op='elemconn', ijk=all_elems(grid)),
          dict(op='node_indices', idx=None), dict(op='node_indices', idx=[nn - 1, 0, nn // 2]),
          dict(op='node_position', idx=None), dict(op='node_position', idx=[nn - 1, 1], strided=True),
          dict(op='elemnumber', ijk=all_elems(grid)), dict(op='nodenumber', ijk=box_points(r, grid, 4, node=True)),
          dict(op='shape', pos=rand_pos(r, hs)), dict(op='shape_der', pos=rand_pos(r, hs)),
          dict(op='elemnumber', ijk=[[a - 1, b - 1, max(c, 1) - 1]], scalar=True)]
    ops, ref = [], 5
    for i, q in enumerate(qs):
        ops.append(q)
        if not q.get('scalar'):
            ops.append(dict(op='fill', ref=ref, v=-7 - i))
        ref += 1
        if i in (0, 3, 7):
            ops.append(dict(op='snap'))
    ops.append(dict(op='snap'))
    ops += [dict(q) for q in qs]
    ops.append(dict(op='snap'))
    return ops


def vti_history(r, grid, hs, dim):
    """geometric queries around write_to_vti calls with scale / origin options (and the plot methods in 2-D)"""
    a, b, c = grid
    nn = (a + 1) * (b + 1) * (c + 1)
    p1, p2 = rand_pos(r, hs), [float(Fraction(s, 2) * Fraction(h)) for s, h in zip((1, -1, 1), hs)]     # p2: a corner node
    geo = [dict(op='node_position', idx=None), dict(op='shape', pos=p1), dict(op='shape_der', pos=p1), dict(op='shape', pos=p2)]
    ops = [dict(q) for q in geo]
    ops += [dict(op='vti', scale=2.0, origin=[])] + [dict(q) for q in geo] + [dict(op='snap')]
    ops += [dict(op='vti', scale=0.5, origin=[1.0, 2.0, 0.5]), dict(op='vti', scale=None, origin=[]), dict(op='node_position', idx=[nn - 1, nn // 2]),
            dict(op='shape_der', pos=p2), dict(op='snap')]
    if dim == 2:
        ops += [dict(op='plot'), dict(op='update_plot'), dict(op='snap')]
    ops += [dict(op='fill', ref=5, v=99), dict(op='vti', scale=4.0, origin=[0.25, 0.0, -1.0]), dict(op='dofconn', ndof=2)] + [dict(q) for q in geo] + [dict(op='snap')]
    return ops


def random_history(r, grid, hs, dim, n):
    a, b, c = grid
    nn = (a + 1) * (b + 1) * (c + 1)
    ops, ref, refs = [], 5, []
    for _ in range(n):
        t = r.random()
        if t < 0.3 and refs:
            ops.append(dict(op='fill', ref=r.choice(refs), v=r.randint(-99, 99)))
        elif t < 0.42:
            ops.append(dict(op='vti', scale=r.choice((None, 1.0, 2.0, 0.5, 4.0, 0.25, 2)), origin=r.choice(([], [1.0, 0.5, -2.0], [0.0, 0.0, 0.0]))))
        elif t < 0.5:
            ops.append(dict(op='snap'))
        elif t < 0.54 and dim == 2:
            ops.append(dict(op=r.choice(('plot', 'update_plot'))))
        else:
            q = rand_query(r, grid, hs, nn)
            ops.append(q)
            refs.append(ref)
            ref += 1
    ops.append(dict(op='snap'))
    return ops


# the same on every seed: float, Python-int, numpy-int and mixed element sizes, 2-D and 3-D
DET_DOMAINS = (((2, 2, 0), (0.5, 2.0, 0.25), ('float',) * 3),
               ((3, 2, 0), (2, 1, 4), ('int',) * 3),
               ((2, 1, 2), (1.0, 0.5, 2.0), ('float',) * 3),
               ((1, 2, 1), (1, 2, 2), ('np.int64',) * 3),
               ((2, 3, 0), (2.0, 1, 4), ('np.float64', 'int', 'np.int32')))
SIZES = (0.25, 0.5, 1.0, 2.0, 4.0)
KIND_SETS = (('float',) * 3, ('float',) * 3, ('int',) * 3, ('np.int64',) * 3, ('int', 'np.int32', 'np.int64'), ('int', 'float', 'int'), ('np.float64', 'int', 'np.int64'))


def run_histories(ctx, pym, add):
    """build, drive (interleaved, three objects at a time) and report the histories; add(label, coq_expr, nontrivial, case)"""
    rs = _random.Random(1313)
    tmpdir = tempfile.mkdtemp(prefix='c13_')
    hists = []
    try:
        for n, (grid, hs, kinds) in enumerate(DET_DOMAINS):
            dim = 2 if grid[2] == 0 else 3
            hists.append(History(ctx, pym, f'sweep{n}', grid, hs, kinds, sweep_history(rs, grid, hs), tmpdir))
            hists.append(History(ctx, pym, f'vti{n}', grid, hs, kinds, vti_history(rs, grid, hs, dim), tmpdir))
        r = ctx.rng
        for n in range(10 if ctx.quick() else 80):
            dim = r.choice((2, 2, 3))
            grid = (r.randint(1, 3), r.randint(1, 3), 0) if dim == 2 else (r.randint(1, 2), r.randint(1, 2), r.randint(1, 2))
            kinds = r.choice(KIND_SETS)
            hs = [r.choice((1, 2, 4)) if k in INT_KINDS else r.choice(SIZES) for k in kinds]
            hists.append(History(ctx, pym, f'random{n}', grid, hs, kinds, random_history(r, grid, hs, dim, r.randint(8, 18)), tmpdir))
        for h in hists:
            ctx.count(f'history on dim{h.dim} domain, element_size dtype {h.d.element_size.dtype}')
        # three objects at a time, their operations interleaved in one process
        for g0 in range(0, len(hists), 3):
            group = hists[g0:g0 + 3]
            while any(not h.done() for h in group):
                for h in group:
                    if not h.done():
                        h.step()
    finally:
        shutil.rmtree(tmpdir, ignore_errors=True)
    for h in hists:
        add(('history', h.name, h.grid, tuple(float(v) for v in h.hs), tuple(h.kinds), len(h.coq_ops), str(h.ops)[:400]), h.coq_check(), True,
            dict(history=h.name, grid=list(h.grid), sizes=[float(v) for v in h.hs], size_kinds=h.kinds, ops=h.ops[:h.k]))
    return hists
