"""C13 — structured-grid numbering, connectivity and shape functions are consistent."""
import os, itertools
from fractions import Fraction
import numpy as np
import vlib
from vlib import zl, ql, zlit, qlit
import py2coq
import c13_hist
import gen_C13

HEADER = '''From Coq Require Import ZArith QArith List Bool.
From Pymoto Require Import Base.Num Base.Cmp Model.Grid Model.Shape Model.GridHist.
Import ListNotations.
Open Scope Z_scope.
Definition G (a b c : Z) := {| nelx := a; nely := b; nelz := c |}.
Definition tol : Q := (1 # 1000000000)%Q.
'''


# how an (integer-valued) element size is handed to DomainDefinition
KINDS = {'float': float, 'int': int, 'np.float64': np.float64, 'np.int64': np.int64, 'np.int32': np.int32}
INT_KINDS = ('int', 'np.int64', 'np.int32')
KIND_SETS = (['int'] * 3, ['np.int64'] * 3, ['int', 'np.int32', 'np.int64'], ['np.int32'] * 3, ['int', 'float', 'int'], ['np.float64', 'int', 'np.int64'])


def mk_sizes(hs, kinds):
    return [KINDS[k](int(h)) if k in INT_KINDS else KINDS[k](h) for h, k in zip(hs, kinds)]


def grids(ctx):
    mx, my, mz = (5, 5, 3) if ctx.quick() else (8, 8, 5)
    return [(a, b, c) for a in range(1, mx + 1) for b in range(1, my + 1) for c in range(0, mz + 1)]


def run(ctx):
    import pymoto as pym
    ctx.rule = ('exhaustive enumeration of grids nelx,nely<=5 (8), nelz<=3 (5), ndof<=3; one case per (grid, aspect); '
                'shape functions at dyadic (exact) and random rational (1e-9) points; element sizes handed over as floats and, '
                'integer-valued, as Python ints / numpy ints / mixed kinds (node positions, shape functions and derivatives; '
                'evaluation points as float and as integer arrays); a case is non-trivial when the grid has '
                '>= 2 elements or the aspect is a shape-function evaluation; distinct by (grid, aspect, parameters); '
                'histories on ONE domain object (c13_hist.py): deterministic sweep (every query, its result overwritten by the harness at once, every '
                'attribute read, every query again) and write_to_vti / plot histories (scale 2, 0.5, default, 4, origins; geometric queries around them) on '
                'float / Python-int / numpy-int / mixed element sizes in 2-D and 3-D on every seed + random histories (queries, delayed overwrites of any '
                'returned array, writes, snapshots), three objects driven interleaved; one correspondence case per history (run_obs of Model/GridHist.v)')
    ctx.assumptions += ['1-D domains (nely = 0) are outside the property and not generated',
                        'shape-function theorems are over the reals; floats are tied by exact (dyadic) / 1e-9 comparison',
                        'histories: write_to_vti is observed through the Spacing/Origin attributes of the file header only (its output is C20); plot / update_plot '
                        'only through their effect on the domain (an exception of a plot method is tolerated and counted: outside the property text)']
    ctx.trusted += ['Print Assumptions: real-number theorems rely on the standard axioms ClassicalDedekindReals.sig_forall_dec, '
                    'sig_not_dec and FunctionalExtensionality.functional_extensionality_dep (Coq stdlib Reals); '
                    'the Z/list theorems are closed under the global context',
                    'modelled rather than verified: numpy integer array arithmetic/broadcasting in DomainDefinition (validated by exhaustive correspondence)',
                    'tools/gen_C13.py: conservative, fail-closed effect analysis of the methods of DomainDefinition (frame condition of Model/GridHist.v); '
                    'its soundness is not proved, the history oracle cross-checks it on every run']
    vlib.audit(ctx)
    if not vlib.ensure_static(ctx, ['theories/Props/C13.vo', 'theories/Props/C13h.vo']):
        return
    # ---- (T) regenerate the formulas from the source and re-check the bridge lemmas
    gen_ok = True
    try:
        text = py2coq.gen_domain(vlib.REPO)
        p = ctx.write_gen('GridGen.v', text)
        ok, _, err = vlib.compile_file(ctx, p, 'gen:GridGen.v compiles', 'translator')
        gen_ok = ok
    except py2coq.Unsupported as e:
        ctx.obligation('gen:GridGen.v translation', 'translator', False, str(e))
        gen_ok = False
        err = str(e)
    if gen_ok:
        bp = os.path.join(ctx.bridge_dir, 'GridBridge.v')
        ok, _, err = vlib.compile_file(ctx, bp, 'bridge:GridBridge (generated = model, all arguments)', 'bridge')
        gen_ok = ok
    if not gen_ok:
        ctx.violation('proof', 'pymoto/common/domain.py', 'generated formulas equal Model/Grid.v', 'translator/bridge',
                      dict(error=err[-3000:]), theorem='BridgeC13.GridBridge')
    # ---- (T) frame condition: effect analysis of every method (writes to self / to argument arrays, results aliasing an attribute)
    eff_ok, eff_err = True, ''
    try:
        p = ctx.write_gen('EffectsGen.v', gen_C13.gen_effects(vlib.REPO))
        eff_ok, _, eff_err = vlib.compile_file(ctx, p, 'gen:EffectsGen.v compiles', 'translator')
    except py2coq.Unsupported as e:
        ctx.obligation('gen:EffectsGen.v effect analysis', 'translator', False, str(e))
        eff_ok, eff_err = False, str(e)
    if eff_ok:
        eff_ok, _, eff_err = vlib.compile_file(ctx, os.path.join(ctx.bridge_dir, 'EffectsBridge.v'),
                                               'bridge:EffectsBridge (no method writes to the object or hands out one of its arrays)', 'bridge')
    if not eff_ok:
        try:
            eff = [dict(method=n, may_write=w, result_may_alias=r) for n, w, r in gen_C13.domain_effects(vlib.REPO) if w or r]
        except py2coq.Unsupported as e:
            eff = str(e)
        ctx.violation('proof', 'pymoto/common/domain.py', 'methods of DomainDefinition are pure and return fresh arrays (static effect analysis)',
                      'translator/bridge', dict(effects=eff, error=eff_err[-2000:]), theorem='BridgeC13.EffectsBridge')
        gen_ok = False
    vlib.check_props(ctx)
    vlib.check_props(ctx, 'theories/Props/C13h.v')     # the object as a state machine: queries are pure and return fresh arrays

    # ---- (H) exhaustive correspondence through the public API
    checks, labels = [], []

    def add(label, expr, nontrivial=True):
        checks.append(expr)
        labels.append(label)
        ctx.case(label, nontrivial, sample=dict(case=label, coq=expr[:300]))

    rng = ctx.rng
    for (a, b, c) in grids(ctx):
        d = pym.DomainDefinition(a, b, c)
        g = f'(G {a} {b} {c})'
        nt = d.nel >= 2
        ctx.count(f'dim{d.dim}')
        add(('scalars', a, b, c), f'Zl_eqb [dim {g}; nel {g}; nnodes {g}; elemnodes {g}] {zl([d.dim, d.nel, d.nnodes, d.elemnodes])}', nt)
        add(('conn', a, b, c), f'Zll_eqb (conn_table {g}) {zl(d.conn.tolist())}', nt)
        add(('conn_closed', a, b, c), f'Zll_eqb (map (conn {g}) (zrange (nel {g}))) {zl(d.conn.tolist())}', nt)
        add(('elements', a, b, c), f'Zlll_eqb (elements_tab {g}) {zl(d.elements.tolist())}', nt)
        add(('nodes', a, b, c), f'Zlll_eqb (nodes_tab {g}) {zl(d.nodes.tolist())}', nt)
        add(('node_indices', a, b, c), f'Zll_eqb (map (node_indices {g}) (zrange (nnodes {g}))) {zl(d.get_node_indices().T.tolist())}', nt)
        for ndof in (1, 2, 3):
            add(('dofconn', a, b, c, ndof),
                f'Zll_eqb (map (dofconn {g} {ndof}) (zrange (nel {g}))) {zl(d.get_dofconnectivity(ndof).tolist())}', nt)
        # scalar API calls with random (also out-of-box) arguments
        args = [(rng.randint(-3, 9), rng.randint(-3, 9), rng.randint(-3, 9)) for _ in range(4)]
        add(('numbers', a, b, c, tuple(args)),
            f'Zl_eqb {"[" + "; ".join(f"elemnumber {g} {zlit(i)} {zlit(j)} {zlit(k)}; nodenumber {g} {zlit(i)} {zlit(j)} {zlit(k)}" for i, j, k in args) + "]"} '
            f'{zl([v for i, j, k in args for v in (int(d.get_elemnumber(i, j, k)), int(d.get_nodenumber(i, j, k)))])}', nt)
        i, j, k = rng.randrange(a), rng.randrange(b), rng.randrange(max(c, 1))
        add(('elemconn1', a, b, c, i, j, k), f'Zl_eqb (elemconn {g} {i} {j} {k}) {zl(d.get_elemconnectivity(i, j, k).tolist())}', nt)
        # node positions with dyadic element sizes (exact)
        hs = [Fraction(rng.randint(1, 12), 4) for _ in range(3)]
        d2 = pym.DomainDefinition(a, b, c, *[float(h) for h in hs])
        pos = d2.get_node_position().T
        add(('position', a, b, c, tuple(hs)),
            f'Qll_eqb (map (node_position {g} {ql(hs[:d2.dim])}%Q) (zrange (nnodes {g}))) {ql([[Fraction(float(v)) for v in r] for r in pos])}%Q', nt)
        # node positions with integer-valued element sizes handed over as Python ints / numpy ints / mixed with floats
        hi = [rng.randint(1, 5) for _ in range(3)]
        kinds = KIND_SETS[(a + 2 * b + 3 * c) % len(KIND_SETS)]
        d3 = pym.DomainDefinition(a, b, c, *mk_sizes(hi, kinds))
        ctx.count(f'position element_size dtype {d3.element_size.dtype}')
        pos = d3.get_node_position().T
        add(('position_int', a, b, c, tuple(hi), tuple(kinds)),
            f'Qll_eqb (map (node_position {g} {ql([Fraction(h) for h in hi[:d3.dim]])}%Q) (zrange (nnodes {g}))) {ql([[Fraction(float(v)) for v in r] for r in pos])}%Q', nt)
    # shape functions
    nshape = 180 if ctx.quick() else 1800
    for t in range(nshape):
        dim = rng.choice((2, 3)) if t >= 36 else (2, 3)[(t // 3) % 2]
        cls = t % 3          # 0: dyadic sizes (exact), 1: rational sizes (1e-9), 2: integer-valued sizes in every way of handing them over (exact)
        exact = cls != 1
        kinds, pos_int = None, False
        if cls == 0:
            hs = [Fraction(rng.choice((1, 2, 4, 8)), rng.choice((1, 2, 4))) for _ in range(3)]
            pos = [Fraction(rng.choice((-8, 8, rng.randint(-8, 8), rng.randint(-8, 8))), 16) * h for h in hs]  # incl. faces/corners
        elif cls == 1:
            hs = [Fraction(rng.randint(1, 40), rng.randint(1, 13)) for _ in range(3)]
            pos = [Fraction(rng.randint(-50, 50), 100) * h for h in hs]
        else:
            # the first 36 draws run through every kind set in 2-D and 3-D on every seed (all-integer sets make element_size an integer array)
            kinds = KIND_SETS[(t // 6) % len(KIND_SETS)] if t < 36 else (KIND_SETS[rng.randrange(len(KIND_SETS))] if rng.random() < 0.6 else [rng.choice(tuple(KINDS)) for _ in range(3)])
            hs = [Fraction(rng.choice((1, 2, 3, 4, 6, 8))) for _ in range(3)]
            exact = all(h in (1, 2, 4, 8) for h in hs)       # 1/3 is not a float: 1e-9 comparison then
            pos_int = rng.random() < 0.3
            if pos_int:      # evaluation point handed over as an integer array (e.g. the centroid np.array([0, 0, 0]))
                pos = [Fraction(rng.randint(-(int(h) // 2), int(h) // 2)) for h in hs]
            else:
                pos = [Fraction(rng.choice((-8, 8, rng.randint(-8, 8), rng.randint(-8, 8))), 16) * h for h in hs]
        ctx.count('shape_exact' if cls == 0 else 'shape_tol' if cls == 1 else 'shape_int_sizes')
        if kinds is None:
            d = pym.DomainDefinition(2, 2, 0 if dim == 2 else 2, *[float(h) for h in hs])
        else:
            d = pym.DomainDefinition(2, 2, 0 if dim == 2 else 2, *mk_sizes(hs, kinds))
            ctx.count(f'shape element_size dtype {d.element_size.dtype}' + (', integer evaluation point' if pos_int else ''))
        hq = [Fraction(float(h)) for h in hs]
        pq = [Fraction(float(p)) for p in pos]
        parr = np.array([int(p) for p in pos[:dim]]) if pos_int else np.array([float(p) for p in pos[:dim]])
        N = d.eval_shape_fun(parr)
        dN = d.eval_shape_fun_der(parr)
        if not (np.all(np.isfinite(N)) and np.all(np.isfinite(dN))):
            ctx.violation('impl-violates', 'DomainDefinition', 'shape functions and derivatives are finite inside the closed element',
                          f'dim{dim}', dict(sizes=[str(h) for h in hs], pos=[str(p) for p in pos[:dim]], size_kinds=kinds), expected='finite values',
                          got=dict(N=str(N.tolist()), dN=str(dN.tolist())))
            continue
        cmpf = 'Ql_eqb' if exact else 'Ql_close tol'
        cmpf2 = 'Qll_eqb' if exact else 'Qll_close tol'
        add(('shape', dim, cls, tuple(hq), tuple(pq), tuple(kinds) if kinds else None, pos_int),
            f'({cmpf} (shape_fun {dim}%nat {ql(hq)}%Q {ql(pq)}%Q) {ql([Fraction(float(v)) for v in N])}%Q && '
            f'{cmpf2} (shape_der {dim}%nat {ql(hq)}%Q {ql(pq)}%Q) {ql([[Fraction(float(v)) for v in r] for r in dN])}%Q)')
    # ---- (H) histories on ONE domain object (and several objects interleaved): Model/GridHist.v evaluated on the same history
    hist_of = {}
    for h in c13_hist.run_histories(ctx, pym, lambda label, expr, nt, case: add(label, expr, nt)):
        hist_of[len(hist_of)] = h
    nhist = len(hist_of)
    hist_idx = {len(checks) - nhist + i: hist_of[i] for i in range(nhist)}
    ctx.exhaustive = True
    failing, err = vlib.run_cases(ctx, 'grid', HEADER, checks, chunk=120)
    ctx.obligation('correspondence:case files evaluated', 'correspondence', not err, err)
    ctx.obligation('correspondence:model == implementation on all cases', 'correspondence', not failing and not err, str(failing[:10]))
    if err:
        ctx.violation('correspondence', 'DomainDefinition', 'case files compile', 'harness', dict(error=err[-3000:]),
                      theorem='cases_grid')
    broken = bool(failing) or not gen_ok
    located = 0
    for idx in failing[:20]:
        note = 'Coq model and implementation differ'
        case = dict(label=labels[idx], coq_check=checks[idx][:4000])
        if idx in hist_idx:
            h = hist_idx[idx]
            case.update(history=h.name, grid=list(h.grid), sizes=[float(v) for v in h.hs], size_kinds=h.kinds, ops=h.ops[:h.k])
            if located < 3:      # which operations of the history were observed differently
                located += 1
                vals, _ = vlib.eval_coq(ctx, f'hist_{located}', HEADER, [h.coq_failing()])
                if vals:
                    case['operations_observed_differently'] = vals[0]
            note = ('history on one DomainDefinition object: the observations of the implementation differ from run_obs of Model/GridHist.v '
                    '(queries pure, results fresh arrays)')
        ctx.violation('correspondence', 'DomainDefinition', 'model == implementation', str(labels[idx][0]), case, note=note)

    # ---- implementation-side property oracle (search for a concrete failing input)
    oracle(ctx, pym, thorough=not ctx.quick() or broken)


def oracle(ctx, pym, thorough=False):
    rng = np.random.default_rng(ctx.seed)
    for (a, b, c) in grids(ctx):
        # float sizes on every grid; integer-valued sizes handed over as Python ints / numpy ints on the grids of the first layers
        int_sizes = ((2, 1, 3), (np.int64(1), np.int64(2), np.int64(2)), (3, np.int32(2), 1.0)) if (a <= 2 and b <= 2) else ((2, 1, 3),) if a == b else ()
        for sizes in ((1.0, 1.0, 1.0), (0.5, 2.0, 0.25)) + int_sizes:
            d = pym.DomainDefinition(a, b, c, *sizes)
            kinds = [type(v).__name__ for v in sizes]
            sizes = tuple(float(v) if isinstance(v, (float, np.floating)) else int(v) for v in sizes)   # plain numbers for the replay
            ctx.search_evaluations += 1
            dim = 2 if c == 0 else 3
            nz = max(c, 1)
            I, J, K = np.meshgrid(np.arange(a), np.arange(b), np.arange(nz), indexing='ij')
            el = d.get_elemnumber(I, J, K).ravel()

            def bad(pred, expected, got, **case):
                ctx.violation('impl-violates', 'DomainDefinition', pred, f'dim{dim}',
                              dict(nelx=a, nely=b, nelz=c, sizes=sizes, size_kinds=kinds, **case), expected=expected, got=got)
            if sorted(el.tolist()) != list(range(d.nel)) or d.nel != a * b * nz:
                bad('element numbers are a bijection onto [0, nel)', list(range(d.nel)), sorted(el.tolist()))
            NI, NJ, NK = np.meshgrid(np.arange(a + 1), np.arange(b + 1), np.arange(c + 1), indexing='ij')
            nd = d.get_nodenumber(NI, NJ, NK).ravel()
            if sorted(nd.tolist()) != list(range(d.nnodes)) or d.nnodes != (a + 1) * (b + 1) * (c + 1):
                bad('node numbers are a bijection onto [0, nnodes)', list(range(d.nnodes)), sorted(nd.tolist()))
            ijk = d.get_node_indices(nd)
            exp = np.stack([NI.ravel(), NJ.ravel()] + ([NK.ravel()] if dim == 3 else []), axis=0)
            if ijk.shape != exp.shape or not np.array_equal(ijk, exp):
                bad('get_node_indices inverts get_nodenumber', exp.tolist(), ijk.tolist())
            # corners in documented local order
            offs = [(0, 0, 0), (1, 0, 0), (0, 1, 0), (1, 1, 0)] + ([(0, 0, 1), (1, 0, 1), (0, 1, 1), (1, 1, 1)] if dim == 3 else [])
            expc = np.zeros((d.nel, 2 ** dim), dtype=int)
            for i in range(a):
                for j in range(b):
                    for k in range(nz):
                        e = (k * b + j) * a + i
                        expc[e] = [((k + o[2]) * (b + 1) + (j + o[1])) * (a + 1) + (i + o[0]) for o in offs]
            if d.conn.shape != expc.shape or not np.array_equal(d.conn, expc):
                bad('connectivity lists the 2^dim corner nodes in documented order', expc.tolist(), d.conn.tolist())
            if not np.array_equal(d.elements, d.get_elemnumber(I, J, K)) or not np.array_equal(d.nodes, d.get_nodenumber(NI, NJ, NK)):
                bad('elements/nodes helper arrays', None, None)
            for ndof in (1, 2, 3):
                dc = d.get_dofconnectivity(ndof)
                expd = (expc[:, :, None] * ndof + np.arange(ndof)[None, None, :]).reshape(d.nel, -1)
                if dc.shape != expd.shape or not np.array_equal(dc, expd):
                    bad('dof connectivity expands per dof', expd.tolist(), dc.tolist(), ndof=ndof)
            for name, got, ref in (('get_node_indices() default = all nodes in node order', d.get_node_indices(), d.get_node_indices(np.arange(d.nnodes))),
                                   ('get_node_position() default = all nodes in node order', d.get_node_position(), d.get_node_position(np.arange(d.nnodes)))):
                if got.shape != ref.shape or not np.array_equal(got, ref):
                    bad(name, ref.tolist(), got.tolist())
            pos = d.get_node_position(nd)
            if not np.array_equal(pos, (np.array(sizes[:dim])[:, None] * exp)):
                bad('node position = index * element size', None, pos.tolist())
            # shape functions
            for it in range(4 if not thorough else 12):
                h = np.array(sizes[:dim])
                p = (rng.random(dim) - 0.5) * h
                if it % 2 == 1:  # a point on the boundary of the element (face / edge / corner)
                    k = rng.integers(1, dim + 1)
                    ax = rng.choice(dim, size=k, replace=False)
                    p[ax] = rng.choice([-0.5, 0.5], size=k) * h[ax]
                N = d.eval_shape_fun(p)
                if N.shape != (2 ** dim,) or abs(N.sum() - 1) > 1e-12 or N.min() < -1e-12:
                    bad('shape functions non-negative and sum to one', 1.0, N.tolist(), pos=p.tolist())
                dN = d.eval_shape_fun_der(p)
                for dd in range(dim):
                    t = 0.125 * (-1.0 if p[dd] > 0 else 1.0)  # step towards the inside (N_a is affine in each coordinate)
                    q = p.copy()
                    q[dd] += t
                    fd = (d.eval_shape_fun(q) - N) / t
                    if not np.all(np.isfinite(dN)) or np.abs(fd - dN[dd]).max() > 1e-9:
                        bad('reported derivatives are the gradients', fd.tolist(), dN[dd].tolist(), pos=p.tolist(), direction=dd)
            for bnode, n in enumerate(d.node_numbering):
                N = d.eval_shape_fun(np.array(n[:dim]) * np.array(sizes[:dim]) / 2)
                e = np.zeros(2 ** dim)
                e[bnode] = 1
                if np.abs(N - e).max() > 1e-12:
                    bad('shape function equals one at own node and zero at others', e.tolist(), N.tolist(), node=bnode)


if __name__ == '__main__':
    vlib.main(run, 'C13')
