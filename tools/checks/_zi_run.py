"""development driver (st-C01/C04): runs a check with the two PENDING findings treated as known (emulates their registration)"""
import sys, importlib
import vlib
PENDING = [
    dict(property=p, id='P-ACC', status='known', call_site='Signal.add_sensitivity',
         predicate='adds a complex contribution to an input whose sensitivity is a real array',
         input_class='complex-valued dense signal that already holds a real ndarray sensitivity (e.g. RealPart before ImagPart)', text='pending') for p in ('C01', 'C04')
] + [dict(property='C04', id='P-BC', status='known', call_site='AssembleGeneral._sensitivity',
          predicate='seed (sensitivity of the output signal) is not modified',
          input_class='boundary conditions given (bc): rows/columns of the seed are zeroed in place', text='pending')]
_orig = vlib.load_findings
vlib.load_findings = lambda: _orig() + PENDING
pid = sys.argv[1]
mod = importlib.import_module(pid)
vlib.main(mod.run, pid)
