"""C08 — finite-element assembly equals the scaled element sum and keeps its physics."""
import os, json, glob, zlib
from fractions import Fraction
import numpy as np
import vlib
from vlib import zl, ql, zlit, qlit
import c08_hist

HEADER = '''From Coq Require Import ZArith QArith List Bool.
From Bignums Require Import BigQ.
From Pymoto Require Import Base.Num Base.Cmp Base.Qsqrt3 Base.SparseLin Base.FEMat Base.SpCanon.
From Pymoto Require Import Model.Grid Model.Shape Model.ElemMat Model.Assembly.
Import ListNotations.
Open Scope Z_scope.
Definition G (a b c : Z) := {| nelx := a; nely := b; nelz := c |}.
Definition rel (s : Q) : Q := ((1 # 1000000000) * s)%Q.
Definition inj (q : Q) : Bs3 := s3_of (bq q).
Definition injl (h : list Q) : list Bs3 := s3_injl (bql h).
Definition Kst (d : nat) (h : list Q) (E nu : Q) (mode : Z) := stiffness_element s3_root d (injl h) (inj E) (inj nu) mode.
Definition Kms (d : nat) (h : list Q) (mp : Q) (ndof : nat) := mass_element s3_root d (injl h) (inj mp) ndof.
Definition Kpo (d : nat) (h : list Q) (mp : Q) := poisson_element s3_root d (injl h) (inj mp).
(* element matrix: sqrt(3)-part is zero and the rational part is close to the implementation's array *)
Definition elem_ok (t : Q) (Ke : list (list Bs3)) (obs : list (list Q)) : bool :=
  s3_rational_m Ke && bqm_close t (s3_ratm Ke) obs.
Definition zt (T : list (Z * Z * Q)) : list (Z * Z * bigQ) := map (fun t => match t with (r, c, v) => (r, c, bq v) end) T.
Definition probe (n : Z) (T : list (Z * Z * bigQ)) (v : list Q) : list bigQ := apply (to_triples T) (Z.to_nat n) (bql v).
Definition bcd (o : option Q) (M : list (list bigQ)) : bigQ := bcdiag_default (option_map bq o) M.
Definition tr (T : list (Z * Z * bigQ)) := map (fun t => match t with (r, c, w) => (c, r, w) end) T.
(* canonical comparison with TWO tolerances: keys in dk (the diagonal positions of constrained dofs) are compared with tolD
   (relative to the chosen diagonal value; 0 = exactly), every other key with tolF (relative to the scale of the free part) *)
Fixpoint sp_cmp2 (tolF tolD : bigQ) (dk : list Z) (strict : bool) (model : list (Z * bigQ)) (obs : list (Z * Q)) {struct model} : bool :=
  match model with
  | [] => match obs with [] => true | _ => false end
  | (k, v) :: m' =>
      let tol := if existsb (Z.eqb k) dk then tolD else tolF in
      match obs with
      | [] => negb strict && bq_close tol v 0%bigQ && sp_cmp2 tolF tolD dk strict m' []
      | (k', v') :: o' =>
          if Z.eqb k k' then bq_close tol v (bq v') && sp_cmp2 tolF tolD dk strict m' o'
          else if Z.ltb k k' then negb strict && bq_close tol v 0%bigQ && sp_cmp2 tolF tolD dk strict m' obs
          else false
      end
  end.
Definition sp_check2 (tolF tolD : Q) (dk : list Z) (strict : bool) (n : Z) (T : list (Z * Z * bigQ)) (obs : list (Z * Q)) : bool :=
  sp_cmp2 (bq tolF) (bq tolD) dk strict (sp_canon n T) obs.
''' + c08_hist.HEADER_HIST

ERR = {None: 0, 'TypeError': 1, 'ValueError': 2, 'IndexError': 3, 'AssertionError': 4, 'RuntimeError': 5}
MODES = {'strain': 0, 'stress': 1, 'Plane-Strain': 0, 'plane stress': 1, 'STRESS': 1}


def fr(x):
    return Fraction(float(x))


def qmat(a):
    return ql([[fr(v) for v in r] for r in np.asarray(a)])


def canon_obs(A, n):
    """implementation matrix -> (sorted [(key, value)] with duplicates summed, is_sparse)"""
    import scipy.sparse as sp
    if sp.issparse(A):
        c = A.tocoo(copy=True)
        c.sum_duplicates()
        items = sorted((int(r) * n + int(cc), fr(v)) for r, cc, v in zip(c.row, c.col, c.data))
        return items, True
    D = np.asarray(A)
    items = [(i * n + j, fr(D[i, j])) for i in range(n) for j in range(n) if D[i, j] != 0]
    return items, False


def kv(items):
    return '[' + '; '.join(f'({zlit(k)}, {qlit(v)}%Q)' for k, v in items) + ']'


def trip(tr):
    return '[' + '; '.join(f'({zlit(r)}, {zlit(c)}, {qlit(v)}%Q)' for r, c, v in tr) + ']'


def opt(v, f):
    return 'None' if v is None else f'(Some {f(v)})'


# ------------------------------------------------------------------------------------------------ case generation
def rand_sizes(rng, exact):
    if exact:
        return [Fraction(rng.choice((1, 2, 3, 4, 6, 8)), rng.choice((1, 2, 4, 8))) for _ in range(3)]
    return [Fraction(rng.randint(2, 40), rng.randint(3, 13)) for _ in range(3)]


def rand_grid(rng, big=False, dim=None):
    dim = dim or rng.choice((2, 2, 3))
    if dim == 2:
        return rng.randint(1, 4), rng.randint(1, 4), 0
    if big:
        return rng.randint(1, 4), rng.randint(1, 4), rng.randint(1, 3)
    return rng.randint(1, 2), rng.randint(1, 2), rng.randint(1, 2)


def rand_bc(rng, n):
    r = rng.random()
    if r < 0.3:
        return None
    if r < 0.35:
        return []
    k = rng.randint(1, max(1, min(n, 6)))
    return sorted(rng.sample(range(n), k)) if rng.random() < 0.5 else rng.sample(range(n), k)


def rand_const(rng, n, np_rng):
    """integer sparse constant (csc/csr), sometimes symmetric, sometimes touching bc rows"""
    import scipy.sparse as sp
    r = rng.random()
    if r < 0.45:
        return None, []
    k = rng.randint(1, 2 * n)
    rows = [rng.randrange(n) for _ in range(k)]
    cols = [rng.randrange(n) for _ in range(k)]
    vals = [rng.randint(-4, 4) for _ in range(k)]
    C = sp.coo_matrix((np.array(vals, dtype=float), (rows, cols)), shape=(n, n))
    C = C.tocsc() if rng.random() < 0.5 else C.tocsr()
    cc = C.tocoo()
    return C, [(int(a), int(b), fr(v)) for a, b, v in zip(cc.row, cc.col, cc.data)]


def err_name(e):
    n = type(e).__name__
    return n if n in ERR else 'Other'



# ------------------------------------------------------------------------------------------------ boundary values / magnitudes
BCD_VALUES = [0, 0.0, -0.0, -2.5, 5e-324, 1e-300, 1e-12, 1e12, 1e300, None]
MAGNITUDES = [1e-12, 8.8541878128e-12, 1e-9, 1e-8, 1e-6, 1e-3, 1e3, 1e6, 1e12]


def boundary_cases(quick):
    """Deterministic stream (the same on every seed): boundary VALUES of every numeric option of the four Assemble* modules.
    bcdiagval 0 / 0.0 / -0.0 / negative / denormal / tiny / huge / None; material data at magnitudes 1e-12 .. 1e12 (and element
    sizes 1e-6 .. 1e4), always compared relative to the scale of the data; x exactly 0 / 1 / tiny; add_constant = zero
    matrix; arguments handed over positionally."""
    out = []

    def elmat(m, k=0):
        # deterministic integer matrix (non-symmetric), scaled by the power of two 2^k: all float operations stay exact
        return [[float(((3 * i + 5 * j + i * j) % 9 - 4) * 2.0 ** k) for j in range(m)] for i in range(m)]

    def add(tag, **c):
        base = dict(sizes=[1.0, 1.0, 1.0], bc=None, bcdiagval=None, const=[], const_fmt=None, matrix_type='csc', exact=False, tag=tag)
        base.update(c)
        out.append(base)

    def four(tag, i, bc=True, x=None, pow2=0, gen_exact=True, kw=None, **over):
        """one case for each of the four modules; `over` holds bcdiagval / const_zero / positional"""
        kws = dict(stiffness=dict(E=1.5, nu=0.3, plane=('strain', 'stress')[i % 2]), mass=dict(mp=2.0, ndof=1 + i % 3), poisson=dict(mp=0.75))
        for k_, upd in (kw or {}).items():
            kws[k_].update(upd)
        mt = ('csc', 'csr')[i % 2]
        add(tag, kind='general', grid=[2, 2, 0], elmat=elmat(8, pow2), x=(x or [2, 3, 0, 1]), bc=([0, 5, 17] if bc else None),
            matrix_type=mt, exact=gen_exact, **over)
        add(tag, kind='stiffness', grid=[2, 2, 0], sizes=[0.5, 0.4, 0.3], x=(x or [0.7, 1.0, 0.0, 0.25]), bc=([0, 1, 7, 16] if bc else None),
            kw=kws['stiffness'], matrix_type=mt, **over)
        add(tag, kind='mass', grid=[2, 2, 0], sizes=[0.3, 0.7, 1.1], x=(x or [1.0, 2.0, 0.5, 0.0]), bc=([2, 3] if bc else None),
            kw=kws['mass'], matrix_type=mt, **over)
        add(tag, kind='poisson', grid=[2, 2, 0], sizes=[1.0, 0.5, 0.5], x=(x or [0.2, 1.0, 0.9, 0.0]), bc=([0, 4, 8] if bc else None),
            kw=kws['poisson'], matrix_type=mt, **over)

    # (g1) the chosen diagonal value of constrained dofs, every boundary value, all four modules
    for i, v in enumerate(BCD_VALUES):
        four(f'bcdiagval:{v!r}', i, bcdiagval=v)
    # (g2) magnitudes of the material data (relative comparison), with bc (default and scaled bcdiagval) and without
    for i, mag in enumerate(MAGNITUDES):
        k2 = int(round(np.log2(mag)))
        four(f'magnitude:{mag:g}', i, bc=(i % 3 != 2), bcdiagval=(None if i % 2 == 0 else 3.0 * mag), pow2=k2,
             kw=dict(stiffness=dict(E=mag), mass=dict(mp=mag), poisson=dict(mp=mag)))
    #      ... of the element sizes (thin layers, micrometre and kilometre cells) combined with small / large material data
    for i, (hs, mag) in enumerate((([1.0, 1.0, 1e-6], 1e-3), ([1e-6, 2e-6, 1e-6], 1.0), ([1e-6, 2e-6, 5e-7], 8.8541878128e-12),
                                   ([1e4, 2e4, 1e3], 1.0), ([1e4, 5e3, 1e2], 1e9), ([1e-3, 1e3, 1.0], 1e-6))):
        add(f'sizes:{hs}', kind='stiffness', grid=[2, 1, 0], sizes=hs, x=[1.0, 0.5], bc=[0, 1, 3], kw=dict(E=mag, nu=0.25, plane=('stress', 'strain')[i % 2]))
        add(f'sizes:{hs}', kind='mass', grid=[2, 1, 0], sizes=hs, x=[1.0, 0.5], bc=([4] if i % 2 else None), kw=dict(mp=mag, ndof=1 + i % 2))
        add(f'sizes:{hs}', kind='poisson', grid=[2, 1, 0], sizes=hs, x=[1.0, 0.5], bc=(None if i % 2 else [0, 5]), kw=dict(mp=mag))
    #      ... Poisson ratio at the ends of its range, rho / k negative zero-crossing excluded (documented positive data)
    for i, nu in enumerate((0.0, 0.499, 0.49999, -0.99, -0.5, 1e-12)):
        add(f'nu:{nu}', kind='stiffness', grid=[2, 1, 0], sizes=[1.0, 0.5, 2.0], x=[1.0, 0.5], bc=[0, 1, 3], kw=dict(E=1.0, nu=nu, plane=('stress', 'strain')[i % 2]))
    #      ... constant of the same (small / large) magnitude
    for mag in (8.8541878128e-12, 1e9):
        add(f'magnitude+constant:{mag:g}', kind='poisson', grid=[2, 2, 0], sizes=[1.0, 0.5, 0.5], x=[0.2, 1.0, 0.9, 0.0], bc=[0, 4], kw=dict(mp=mag),
            const=[[0, 0, 2.0 * mag], [1, 3, -1.0 * mag], [4, 4, 0.5 * mag], [8, 2, 3.0 * mag]], const_fmt='csr')
        add(f'magnitude+constant:{mag:g}', kind='stiffness', grid=[2, 1, 0], sizes=[0.5, 0.4, 0.3], x=[1.0, 0.5], bc=[0, 1], kw=dict(E=mag, nu=0.3, plane='stress'),
            const=[[0, 0, 2.0 * mag], [1, 3, -1.0 * mag], [4, 4, 0.5 * mag], [8, 2, 3.0 * mag]], const_fmt='csc')
    #      ... 3-D
    add('magnitude3d:8.85e-12', kind='poisson', grid=[2, 1, 1], sizes=[0.2, 0.1, 0.3], x=[1.0, 0.3], bc=[0, 7], kw=dict(mp=8.8541878128e-12))
    add('magnitude3d:1e12', kind='poisson', grid=[1, 1, 2], sizes=[2.0, 2.0, 2.0], x=[1.0, 0.3], kw=dict(mp=1e12))
    add('magnitude3d:1e-12', kind='mass', grid=[1, 2, 1], sizes=[0.2, 0.1, 0.3], x=[1.0, 0.3], bc=[1], bcdiagval=0.0, kw=dict(mp=1e-12, ndof=1))
    add('magnitude3d:1e12', kind='mass', grid=[1, 1, 1], sizes=[1e-3, 1e-3, 1e-3], x=[1.0], kw=dict(mp=1e12, ndof=3))
    add('magnitude3d:1e-12', kind='stiffness', grid=[1, 1, 1], sizes=[0.5, 1.0, 0.25], x=[1.0], bc=[0, 1, 2], bcdiagval=0.0, kw=dict(E=1e-12, nu=0.3, plane='strain'))
    if not quick:
        add('magnitude3d:1e12', kind='stiffness', grid=[2, 1, 1], sizes=[1e-3, 2e-3, 1e-3], x=[1.0, 0.1], bc=[0, 1, 2], kw=dict(E=1e12, nu=0.2, plane='strain'))
        add('magnitude3d:1e-6', kind='stiffness', grid=[1, 1, 2], sizes=[1.0, 1.0, 1e-6], x=[1.0, 0.1], kw=dict(E=1e-6, nu=0.0, plane='strain'))
    # (g3) boundary values of x: exactly 0, exactly 1, negative zero, tiny (uniform: exact scaling), tiny next to 1
    for i, xs in enumerate(([0.0] * 4, [1.0] * 4, [-0.0, 0.0, -0.0, 1.0], [2.0 ** -30] * 4, [2.0 ** -100] * 4, [1e-9] * 4)):
        four(f'x:{xs[0]!r} uniform', i, x=xs, gen_exact=(xs[0] != 1e-9))
    for i, xs in enumerate(([1.0, 1e-300, 0.0, 5e-324], [1e-9, 1.0, 1e-30, 1e-12], [1e12, 1.0, 1e-12, 0.0])):
        four(f'x:mixed {xs}', i, x=xs, gen_exact=False)
    # (g4) add_constant = the zero matrix (no stored entries / explicitly stored zeros; csc and csr)
    for i, fmt in enumerate(('csc', 'csr', 'csc explicit', 'csr explicit')):
        four(f'add_constant zero:{fmt}', i, const_zero=fmt, bc=(i % 2 == 0), bcdiagval=(None, 0.0, 4.0, None)[i])
    # (g5) bc / bcdiagval handed over positionally ("other arguments are passed to AssembleGeneral")
    for i, v in enumerate((2.0, 0.0, None)):
        four(f'positional:{v!r}', i, positional=True, bcdiagval=v)
    return out


def run(ctx):
    import pymoto as pym
    import scipy.sparse as sp
    from pymoto.modules import assembly as asm_mod
    rng = ctx.rng
    ctx.rule = ('cases: (a) get_B on integer derivative tables (exact), get_D (1e-9); (b) element matrices stiffness_element/el_mat/'
                'poisson_element for dyadic and non-dyadic element sizes, E, nu, plane modes, material property, ndof (1e-9 relative, '
                'model evaluated in Q(sqrt 3), sqrt(3)-part must vanish); (c) AssembleGeneral with random integer element matrices '
                '(also non-symmetric), integer x (incl. 0 and negative), ndof 1..3, random bc lists, bcdiagval None/value, sparse integer '
                'add_constant, csc/csr: exact comparison of the canonical triples (sorted, duplicates summed; identical index structure '
                'when no constant is added); (d) full pipeline AssembleStiffness/Mass/Poisson (1e-9) incl. probes A@v, A.T@v on grids '
                'up to 4x4x3; (e) malformed stream: exception class only. non-trivial = grid with >= 2 elements or an element-matrix '
                'case; distinct by all parameters; (f) histories (c08_hist.py, Model/AsmHist.v): 8 deterministic scenarios on every seed + random ones: '
                'several Assemble* modules (general/stiffness/mass/Poisson, ndof 1..3, different and equal bc sets, bcdiagval default/int/'
                'float/complex, add_constant none/int/float/complex in csc/csr/coo/bsr/dense form, every accepted matrix_type: csc/csr/coo/bsr '
                '_matrix and _array and a user callable) on ONE shared DomainDefinition object (and a second equal one) and one shared '
                'input signal, built and evaluated in interleaved order, earlier modules re-evaluated after later ones exist and after x '
                'was re-assigned (also with another dtype kind int/float/complex, strided views), shared element-matrix objects, Fortran '
                'order; every response is compared with `arun` over complex rationals (values exact / 1e-9, index structure, dtype kind); '
                'returned matrices are held and must stay unchanged, the caller overwrites returned matrices, caller-owned arguments '
                'must stay unchanged; (g) boundary values (deterministic, every seed; boundary_cases): for each of the four modules '
                'bcdiagval in {0, 0.0, -0.0, -2.5, 5e-324, 1e-300, 1e-12, 1e12, 1e300, None}; material data (E, rho, k; scaled element matrix '
                'for AssembleGeneral) at 1e-12, 8.85e-12, 1e-9, 1e-8, 1e-6, 1e-3, 1e3, 1e6, 1e12 with default and scaled bcdiagval; element sizes '
                '1e-6 .. 1e4 (thin layers); Poisson ratio 0, 0.499, 0.49999, -0.99, -0.5, 1e-12; constants of the same magnitude; 3-D cases; '
                'x uniformly 0 / 1 / -0.0 / 2^-30 / 2^-100 / 1e-9 and mixed with 1e-300, 5e-324, 1e12; add_constant = zero matrix (no entries / '
                'stored zeros, csc / csr); bc and bcdiagval handed over positionally. All comparisons (correspondence and oracle) are RELATIVE '
                'to the scale of the data: constrained diagonal positions relative to the chosen value (exact for integer data), every other '
                'entry relative to the largest free entry; the Coq models get the exact rational value of every float')
    ctx.assumptions += ['bc lists have no duplicates (the property quantifies over boundary-condition SETS; the code adds bcdiagval once per occurrence)',
                        'theorems are about exact (real) arithmetic; float rounding is tied by the exact (integer data) / 1e-9 relative comparison only',
                        'matrix_type: csc/csr in the single-module stream; csc/csr/coo/bsr (matrix and array classes) and a user callable '
                        'obeying the documented constructor protocol in the history stream (lil/dok/dia raise in the scipy constructor)',
                        'add_constant: scipy sparse matrices (single-module stream), sparse or dense ndarray of kind int/float/complex (histories); '
                        'a scalar constant raises NotImplementedError in scipy and is outside the stream',
                        'dtype kinds int64 / float64 / complex128 (single precision, bool and object arrays are outside the stream)',
                        '1-D domains are outside the property']
    ctx.trusted += ['Print Assumptions: real-number theorems rely on the Coq stdlib Reals axioms (ClassicalDedekindReals.sig_forall_dec, '
                    'sig_not_dec, FunctionalExtensionality.functional_extensionality_dep); list/Z theorems are closed',
                    'scipy.sparse constructor semantics "duplicate (row, col) entries are summed" is the meaning given to a triple list '
                    '(zentry / SparseLin.dense); validated on every assembled case by comparing with the canonical form of the implementation matrix',
                    'plane-mode strings are mapped to the enum {strain, stress} by the harness table (substring rule of get_D not modelled)']
    vlib.audit(ctx)
    if not vlib.ensure_static(ctx, ['theories/Props/C08.vo', 'theories/Base/SpCanon.vo', 'theories/Base/Cmp.vo', 'theories/Model/Assembly.vo', 'theories/Model/ElemMat.vo',
                                      'theories/Model/AsmHist.vo', 'theories/Base/CplxNum.vo']):
        return
    vlib.check_props(ctx)

    checks, labels, replay = [], [], []

    def add(label, expr, nontrivial=True, case=None):
        checks.append(expr)
        labels.append(label)
        replay.append(case)
        ctx.case(label, nontrivial, sample=dict(case=str(label)[:200], coq=expr[:300]))

    cases = []   # dicts describing assembled cases, reused by the oracle

    # ---------------- corpus first
    for path in sorted(glob.glob(os.path.join(vlib.ROOT, 'corpus', 'C08', '*.json'))):
        with open(path) as f:
            for c in json.load(f)['cases']:
                c['corpus'] = os.path.basename(path)
                cases.append(c)
                ctx.count('corpus')

    quick = ctx.quick()
    # ---------------- (a) get_B / get_D
    for t in range(30 if quick else 200):
        dim = rng.choice((2, 3))
        nsh = rng.choice((2 ** dim, 2 ** dim, rng.randint(1, 9)))
        dN = np.array([[rng.randint(-5, 5) for _ in range(nsh)] for _ in range(dim)], dtype=float)
        voigt = rng.random() < 0.5
        B = asm_mod.get_B(dN, voigt=voigt)
        ctx.count(f'get_B dim{dim}')
        add(('get_B', dim, voigt, dN.tolist()),
            f'bqm_close 0 (getB {vlib.blit(voigt)} (bqm {qmat(dN)}%Q)) {qmat(B)}%Q')
    for t in range(30 if quick else 200):
        E = fr(rng.choice((1.0, 2.5, 210.0, rng.uniform(0.1, 10))))
        nu = fr(rng.choice((0.0, 0.25, 0.3, -0.5, rng.uniform(-0.9, 0.45))))
        mode = rng.choice(('strain', 'stress', '3d'))
        D = asm_mod.get_D(float(E), float(nu), mode)
        sc = max(1, float(np.abs(D).max()))
        ctx.count(f'get_D {mode}')
        add(('get_D', mode, float(E), float(nu)),
            f'bqm_close (rel {qlit(fr(sc))}) (getD (bq {qlit(E)}%Q) (bq {qlit(nu)}%Q) {dict(strain=0, stress=1)[mode] if mode != "3d" else 2}) {qmat(D)}%Q')

    # ---------------- (b) element matrices
    elem_obs = []

    def elem_case(kind, dim, hs, **kw):
        hf = [float(h) for h in hs]
        d = pym.DomainDefinition(2, 1, 0 if dim == 2 else 1, *hf)
        s = pym.Signal('x', np.ones(d.nel))
        hq = ql([fr(h) for h in hf]) + '%Q'
        if kind == 'stiffness':
            m = pym.AssembleStiffness(s, domain=d, e_modulus=kw['E'], poisson_ratio=kw['nu'], plane=kw['plane'])
            Ke = m.stiffness_element
            model = f'Kst {dim}%nat {hq} {qlit(fr(kw["E"]))}%Q {qlit(fr(kw["nu"]))}%Q {MODES[kw["plane"]]}'
        elif kind == 'mass':
            m = pym.AssembleMass(s, domain=d, material_property=kw['mp'], ndof=kw['ndof'])
            Ke = m.el_mat
            model = f'Kms {dim}%nat {hq} {qlit(fr(kw["mp"]))}%Q {kw["ndof"]}%nat'
        else:
            m = pym.AssemblePoisson(s, domain=d, material_property=kw['mp'])
            Ke = m.poisson_element
            model = f'Kpo {dim}%nat {hq} {qlit(fr(kw["mp"]))}%Q'
        sc = max(1e-300, float(np.abs(Ke).max()))
        elem_obs.append(dict(kind=kind, dim=dim, sizes=hf, kw=dict(kw), Ke=np.array(Ke, dtype=float)))
        ctx.count(f'elem {kind} dim{dim}')
        add(('elem', kind, dim, tuple(hf), tuple(sorted(kw.items()))),
            f'elem_ok (rel {qlit(fr(sc))}) ({model}) {qmat(Ke)}%Q')

    def rand_mat(rngl):
        E = rngl.choice((1.0, 2.0, 0.5, rngl.uniform(0.2, 300)))
        nu = rngl.choice((0.3, 0.0, 0.25, rngl.uniform(-0.8, 0.45)))
        return E, nu

    n2, n3 = (20, 4) if quick else (200, 40)
    for t in range(n2):
        hs = rand_sizes(rng, t % 2 == 0)
        E, nu = rand_mat(rng)
        elem_case('stiffness', 2, hs, E=E, nu=nu, plane=rng.choice(list(MODES)))
        elem_case('mass', 2, hs, mp=rng.choice((1.0, 2.0, rng.uniform(0.1, 9))), ndof=rng.randint(1, 3))
        elem_case('poisson', 2, hs, mp=rng.choice((1.0, 2.0, rng.uniform(0.1, 9))))
    for t in range(n3):
        hs = rand_sizes(rng, t % 2 == 0)
        E, nu = rand_mat(rng)
        elem_case('stiffness', 3, hs, E=E, nu=nu, plane='strain')
        elem_case('mass', 3, hs, mp=rng.choice((1.0, rng.uniform(0.1, 9))), ndof=rng.randint(1, 3))
        elem_case('poisson', 3, hs, mp=rng.choice((1.0, rng.uniform(0.1, 9))))

    # element matrices at small / large magnitudes of the material data and of the element sizes (deterministic, every seed)
    for i, mag in enumerate((1e-12, 8.8541878128e-12, 1e-8, 1e12)):
        hs = ([1.0, 0.5, 0.5], [1e-6, 2e-6, 1e-6], [0.2, 0.1, 0.3], [1e3, 2e3, 1e-6])[i]
        elem_case('poisson', 2, hs, mp=mag)
        elem_case('mass', 2, hs, mp=mag, ndof=1 + i % 3)
        elem_case('stiffness', 2, hs, E=mag, nu=(0.3, 0.0, 0.499, -0.5)[i], plane=('strain', 'stress')[i % 2])
    elem_case('poisson', 3, [0.2, 0.1, 0.3], mp=8.8541878128e-12)
    elem_case('mass', 3, [1e-3, 2e-3, 1e-3], mp=1e12, ndof=2)
    # ---------------- (c) AssembleGeneral, integer data (exact)
    np_rng = np.random.default_rng(ctx.seed)
    ngen = 70 if quick else 500
    for t in range(ngen):
        a, b, c = rand_grid(rng)
        dim = 2 if c == 0 else 3
        en = 2 ** dim
        ndof = rng.choice((1, 1, 2, 3)) if dim == 2 else rng.choice((1, 1, 2))
        m = en * ndof
        n = ndof * (a + 1) * (b + 1) * (c + 1)
        sym = rng.random() < 0.5
        Ke = np.array([[rng.randint(-6, 6) for _ in range(m)] for _ in range(m)], dtype=float)
        if sym:
            Ke = Ke + Ke.T
        nel = a * b * max(c, 1)
        x = [rng.choice((0, 1, 1, 2, 3, -1, 5)) for _ in range(nel)]
        bc = rand_bc(rng, n)
        bcd = rng.choice((None, None, 1.0, 7.0, 0.0, -2.0))
        C, Ct = rand_const(rng, n, np_rng)
        mt = rng.choice(('csc', 'csr'))
        cases.append(dict(kind='general', grid=[a, b, c], sizes=[1.0, 1.0, 1.0], elmat=Ke.tolist(), x=x, bc=bc, bcdiagval=bcd,
                          const=[[r, cc, float(v)] for r, cc, v in Ct], const_fmt=(None if C is None else C.format), matrix_type=mt, exact=True))
    # ---------------- (d) full pipeline
    nfull = 30 if quick else 240
    for t in range(nfull):
        kind = rng.choice(('stiffness', 'stiffness', 'mass', 'poisson'))
        big = t % 6 == 0
        a, b, c = rand_grid(rng, big=big)
        dim = 2 if c == 0 else 3
        exact = rng.random() < 0.5
        hs = [float(h) for h in rand_sizes(rng, exact)]
        nel = a * b * max(c, 1)
        x = [rng.choice((0.0, 1.0, 1.0, 0.5, rng.uniform(0.001, 1.0))) for _ in range(nel)]
        kw = {}
        if kind == 'stiffness':
            E, nu = rand_mat(rng)
            kw = dict(E=E, nu=nu, plane=rng.choice(list(MODES)))
            ndof = dim
        elif kind == 'mass':
            kw = dict(mp=rng.choice((1.0, rng.uniform(0.1, 9))), ndof=rng.randint(1, 3))
            ndof = kw['ndof']
        else:
            kw = dict(mp=rng.choice((1.0, rng.uniform(0.1, 9))))
            ndof = 1
        n = ndof * (a + 1) * (b + 1) * (c + 1)
        bc = rand_bc(rng, n)
        bcd = rng.choice((None, None, 1.0, 3.5))
        C, Ct = rand_const(rng, n, np_rng) if rng.random() < 0.4 else (None, [])
        cases.append(dict(kind=kind, grid=[a, b, c], sizes=hs, x=x, bc=bc, bcdiagval=bcd, kw=kw,
                          const=[[r, cc, float(v)] for r, cc, v in Ct], const_fmt=(None if C is None else C.format),
                          matrix_type=rng.choice(('csc', 'csr')), exact=False))
    # ---------------- (g) boundary values and magnitudes of every numeric option: deterministic, on every seed
    for c in boundary_cases(quick):
        cases.append(c)
    # ---------------- (e) malformed
    nmal = 12 if quick else 60
    for t in range(nmal):
        a, b, c = rand_grid(rng)
        dim = 2 if c == 0 else 3
        en = 2 ** dim
        nel = a * b * max(c, 1)
        n = (a + 1) * (b + 1) * (c + 1)
        what = rng.choice(('xsize', 'elshape', 'bcrange', 'bcneg'))
        m = en
        x = [1] * nel
        bc = None
        if what == 'xsize':
            x = [1] * (nel + rng.choice((-1, 1, 2))) if nel > 1 else [1, 1]
        elif what == 'elshape':
            m = en + rng.choice((1, -1, 2, 3))
        elif what == 'bcrange':
            bc = [0, n + rng.randint(0, 3)]
        else:
            bc = [-rng.randint(1, 3)]
        Ke = np.array([[rng.randint(-3, 3) for _ in range(m)] for _ in range(m)], dtype=float)
        cases.append(dict(kind='general', grid=[a, b, c], sizes=[1.0, 1.0, 1.0], elmat=Ke.tolist(), x=x, bc=bc, bcdiagval=None,
                          const=[], const_fmt=None, matrix_type='csc', exact=True, malformed=what))

    # ---------------- run the implementation on the assembled cases and emit the checks
    for c in cases:
        build_case(ctx, pym, sp, c, add)

    # ---------------- (f) histories: several modules on shared domain objects, dtype kinds, matrix types, aliasing
    scen = c08_hist.stress_scenarios(rng)
    for t in range(4 if quick else 40):
        scen.append(c08_hist.random_scenario(rng, t))
    scen_runs = []
    for sc in scen:
        r = c08_hist.run_scenario(pym, sp, sc)
        scen_runs.append((sc, r))
        vq, kq = c08_hist.coq_scenario(sc, r)
        nresp = len(r['resps'])
        ctx.count('history ' + sc['name'].split(',')[0].split(' element')[0][:24] if sc['name'].startswith('S') else 'history random')
        for mr in r['mods']:
            o = mr['op']
            ctx.count('hist module ' + o['cls'])
            ctx.count('hist matrix_type ' + o['mt'])
            ctx.count('hist bc ' + ('none' if o.get('bc') is None else 'empty' if not o['bc'] else 'set'))
            ctx.count('hist bcdiagval ' + ('default' if o.get('bcd') is None else o['bcd'][0]))
            ctx.count('hist add_constant ' + ('none' if o.get('const') is None else o['const']['k'] + ' ' + o['const']['fmt']))
            ctx.count('hist element matrix kind ' + str(mr.get('ke')))
        for rr in r['resps']:
            ctx.count('hist response x kind ' + str(rr['x']['k']))
        ctx.count('hist responses', nresp)
        for part, v in enumerate(vq):
            add(('history values', sc['name'], nresp, part), v, True, case=sc)
        add(('history kinds', sc['name'], nresp), kq, True, case=sc)

    # balance the shards: heavy cases (3-D stiffness in Q(sqrt 3)) are dealt round-robin
    def cost(e):
        return (12 if 'Kst 3%nat' in e else 1.5 if ('Kst 2%nat' in e or 'Kpo 3%nat' in e or 'Kms 3%nat' in e) else 0.2) + len(e) / 30000.0
    chunk = 12 if quick else 20
    nsh = max(1, -(-len(checks) // chunk))
    order = sorted(range(len(checks)), key=lambda i: -cost(checks[i]))
    perm = [i for k in range(nsh) for i in order[k::nsh]]
    checks = [checks[i] for i in perm]
    labels = [labels[i] for i in perm]
    replay = [replay[i] for i in perm]
    chunk = max(len(order[k::nsh]) for k in range(nsh))
    failing, err = vlib.run_cases(ctx, 'asm', HEADER, checks, chunk=chunk, timeout=1500)
    ctx.obligation('correspondence:case files evaluated', 'correspondence', not err, err)
    if err:
        ctx.violation('correspondence', 'AssembleGeneral', 'case files compile', 'harness', dict(error=err[-3000:]), theorem='cases_asm')
    for idx in failing[:20]:
        lab = labels[idx]
        ctx.violation('correspondence', call_site_of(lab), 'model == implementation', str(lab[0]),
                      dict(label=str(lab)[:1500], case=replay[idx], coq_check=checks[idx][:3000]),
                      note='Coq model and implementation differ')
    oracle(ctx, pym, sp, cases, elem_obs, thorough=(not quick) or bool(failing))
    for sc, r in scen_runs:
        c08_hist.oracle_scenario(ctx, sc, r, sc)


def call_site_of(lab):
    k = lab[0]
    if k in ('get_B', 'get_D'):
        return k
    if k in ('history values', 'history kinds'):
        return 'AssembleGeneral (several modules)'
    if k == 'elem':
        return {'stiffness': 'AssembleStiffness._prepare', 'mass': 'AssembleMass._prepare', 'poisson': 'AssemblePoisson._prepare'}[lab[1]]
    return 'AssembleGeneral._response'


def make_module(pym, sp, c):
    a, b, cz = c['grid']
    d = pym.DomainDefinition(a, b, cz, *c['sizes'])
    s = pym.Signal('x', np.array(c['x'], dtype=float))
    n_guess = None
    kwargs = {}
    if c.get('bc') is not None:
        kwargs['bc'] = np.array(c['bc'], dtype=int) if c.get('bc_as_array') else list(c['bc'])
    if c.get('bcdiagval') is not None:
        kwargs['bcdiagval'] = c['bcdiagval']
    kwargs['matrix_type'] = sp.csc_matrix if c.get('matrix_type', 'csc') == 'csc' else sp.csr_matrix
    kind = c['kind']
    if kind == 'general':
        Ke = np.array(c['elmat'], dtype=float)
        ndof = Ke.shape[-1] // d.elemnodes
    elif kind == 'stiffness':
        ndof = d.dim
    elif kind == 'mass':
        ndof = c['kw']['ndof']
    else:
        ndof = 1
    n = ndof * d.nnodes
    if c.get('const'):
        rows = [int(t[0]) for t in c['const']]
        cols = [int(t[1]) for t in c['const']]
        vals = [float(t[2]) for t in c['const']]
        C = sp.coo_matrix((vals, (rows, cols)), shape=(n, n))
        kwargs['add_constant'] = C.tocsr() if c.get('const_fmt') == 'csr' else C.tocsc()
    elif c.get('const_zero'):
        # add_constant = the zero matrix: no stored entries at all, or explicitly stored zeros
        cz_ = c['const_zero']
        if cz_.endswith('explicit'):
            idx = list(range(0, n, 2))
            C = sp.coo_matrix((np.zeros(len(idx)), (idx, idx[::-1])), shape=(n, n))
        else:
            C = sp.coo_matrix((n, n), dtype=float)
        kwargs['add_constant'] = C.tocsr() if cz_.startswith('csr') else C.tocsc()
    pos = ()
    if c.get('positional'):
        # "Other arguments are passed to AssembleGeneral": bc (and bcdiagval where the signature allows it) given positionally
        pos = (kwargs.pop('bc'),) if 'bc' in kwargs else (None,)
        if kind in ('general', 'stiffness', 'poisson') and 'bcdiagval' in kwargs:
            pos = pos + (kwargs.pop('bcdiagval'),)
    so = pym.Signal('A')
    if kind == 'general':
        m = pym.AssembleGeneral(s, so, d, Ke, *pos, **kwargs) if pos else pym.AssembleGeneral(s, domain=d, element_matrix=Ke, **kwargs)
        Ke_impl = Ke
    elif kind == 'stiffness':
        skw = dict(e_modulus=c['kw']['E'], poisson_ratio=c['kw']['nu'], plane=c['kw']['plane'])
        m = pym.AssembleStiffness(s, so, d, *pos, **skw, **kwargs) if pos else pym.AssembleStiffness(s, domain=d, **skw, **kwargs)
        Ke_impl = m.stiffness_element
    elif kind == 'mass':
        if c.get('bcdiagval') is None:
            kwargs.pop('bcdiagval', None)
        mkw = dict(material_property=c['kw']['mp'], ndof=c['kw']['ndof'])
        m = pym.AssembleMass(s, so, d, *pos, **mkw, **kwargs) if pos else pym.AssembleMass(s, domain=d, **mkw, **kwargs)
        Ke_impl = m.el_mat
    else:
        pkw = dict(material_property=c['kw']['mp'])
        m = pym.AssemblePoisson(s, so, d, *pos, **pkw, **kwargs) if pos else pym.AssemblePoisson(s, domain=d, **pkw, **kwargs)
        Ke_impl = m.poisson_element
    return d, m, Ke_impl, n, ndof


def build_case(ctx, pym, sp, c, add):
    a, b, cz = c['grid']
    dim = 2 if cz == 0 else 3
    kind = c['kind']
    err = None
    A = None
    try:
        d, m, Ke_impl, n, ndof = make_module(pym, sp, c)
        m.response()
        A = m.sig_out[0].state
    except Exception as e:  # noqa
        err = err_name(e)
    c['_err'] = err
    g = f'(G {a} {b} {cz})'
    hq = ql([fr(h) for h in c['sizes']]) + '%Q'
    if kind == 'general':
        Kmodel = '(bqm ' + qmat(c['elmat']) + '%Q)'
    elif kind == 'stiffness':
        kw = c['kw']
        Kmodel = f'(s3_ratm (Kst {dim}%nat {hq} {qlit(fr(kw["E"]))}%Q {qlit(fr(kw["nu"]))}%Q {MODES[kw["plane"]]}))'
    elif kind == 'mass':
        kw = c['kw']
        Kmodel = f'(s3_ratm (Kms {dim}%nat {hq} {qlit(fr(kw["mp"]))}%Q {kw["ndof"]}%nat))'
    else:
        Kmodel = f'(s3_ratm (Kpo {dim}%nat {hq} {qlit(fr(c["kw"]["mp"]))}%Q))'
    bcq = opt(c.get('bc'), zl)
    xq = '(bql ' + ql([fr(v) for v in c['x']]) + '%Q)'
    label = (kind, tuple(c['grid']), tuple(c['sizes']), str(c.get('kw')), str(c.get('bc')), c.get('bcdiagval'), len(c.get('const') or []),
             c.get('matrix_type'), tuple(c['x']), c.get('malformed'), c.get('corpus'), str(c.get('elmat'))[:200],
             c.get('tag'), repr(c.get('bcdiagval')), c.get('const_zero'), c.get('positional'))
    if c.get('tag'):
        ctx.count('boundary stream: ' + c['tag'].split(':')[0])
    ctx.count(f'asm {kind} dim{dim}' + (' malformed' if c.get('malformed') else ''))
    ctx.count('bc ' + ('none' if c.get('bc') is None else 'empty' if len(c['bc']) == 0 else 'set'))
    ctx.count('bcdiagval ' + ('default' if c.get('bcdiagval') is None else 'given'))
    ctx.count('add_constant ' + ('yes' if c.get('const') else 'no'))
    ctx.count('matrix_type ' + str(c.get('matrix_type')))
    nontrivial = a * b * max(cz, 1) >= 2
    if err is not None or c.get('malformed'):
        ctx.count(f'error {err}')
        add(label, f'(let Ke := {Kmodel} in Z.eqb (asm_status {g} Ke {bcq} {xq}) {ERR.get(err, 6)})', nontrivial, case=c)
        return
    c['_A'] = A
    c['_Ke'] = np.array(Ke_impl, dtype=float)
    c['_n'] = n
    c['_ndof'] = ndof
    items, is_sparse = canon_obs(A, n)
    default_mass = kind == 'mass' and c.get('bcdiagval') is None
    bcdq = '(Some 0)' if default_mass else opt(c.get('bcdiagval'), lambda v: qlit(fr(v)))
    cst = trip([(int(t[0]), int(t[1]), fr(t[2])) for t in (c.get('const') or [])])
    Tdef = f'(asm_matrix {g} Ke {bcq} (bcd {bcdq}%Q Ke) (zt {cst}) {xq})'
    T = 'T'
    # tolerances RELATIVE to the scale of the data (no absolute floor): the diagonal positions of constrained dofs are
    # compared relative to the chosen diagonal value (+ constant there), all other entries relative to the largest of them
    dkeys = sorted(set(int(q) * n + int(q) for q in (c.get('bc') or [])))
    dset = set(dkeys)
    cabs = [abs(float(t[2])) for t in (c.get('const') or [])]
    bcd_impl = abs(float(c['bcdiagval'])) if c.get('bcdiagval') is not None else 0.0
    scaleF = max([0.0] + cabs + [abs(float(v)) for k, v in items if k not in dset])
    scaleD = max([0.0, bcd_impl] + cabs + [abs(float(v)) for k, v in items if k in dset])
    scale = max(scaleF, scaleD)
    c['_scaleF'], c['_scaleD'] = scaleF, scaleD
    tol = '0' if c.get('exact') else f'(rel {qlit(fr(scaleF))})'
    tolD = '0' if c.get('exact') else f'(rel {qlit(fr(scaleD))})'
    strict = vlib.blit(is_sparse and not c.get('const') and not c.get('const_zero'))
    size = sum(len(str(v)) for _, v in items)
    parts = [f'Z.eqb (asm_status {g} Ke {bcq} {xq}) 0']
    if size < 60000:
        if dkeys:
            parts.append(f'sp_check2 {tol} {tolD} {zl(dkeys)} {strict} {n} {T} {kv(items)}')
        else:
            parts.append(f'sp_check {tol} {strict} {n} {T} {kv(items)}')
        ctx.count('compare full-triples')
    else:
        # large matrices: number of stored entries + probes A@v, A.T@v with integer vectors
        rs = np.random.default_rng(zlib.crc32(str(label).encode()))
        ctx.count('compare probes')
        for k in range(3):
            v = rs.integers(-3, 4, size=n).astype(float)
            if k == 0:
                v[:] = 0
                v[int(rs.integers(0, n))] = 1
            Av = A @ v
            Atv = A.T @ v
            sc = max(scale, float(np.abs(Av).max()), float(np.abs(Atv).max()))
            cmpf = 'bql_close 0' if c.get('exact') else f'bql_close (rel {qlit(fr(sc))})'
            vq = ql([fr(t) for t in v]) + '%Q'
            parts.append(f'{cmpf} (probe {n} {T} {vq}) {ql([fr(t) for t in np.asarray(Av).ravel()])}%Q')
            parts.append(f'{cmpf} (probe {n} (tr {T}) {vq}) {ql([fr(t) for t in np.asarray(Atv).ravel()])}%Q')
        if is_sparse and not c.get('const') and not c.get('const_zero'):
            parts.append(f'Nat.eqb (length (sp_canon {n} {T})) {len(items)}')
    add(label, f'(let Ke := {Kmodel} in let T := {Tdef} in ' + ' && '.join(parts) + ')', nontrivial,
        case={k: v for k, v in c.items() if not k.startswith('_')})


# ------------------------------------------------------------------------------------------------ oracle
def rigid_modes(d, dim):
    pos = d.get_node_position().T   # (nnodes, dim)
    nn = d.nnodes
    modes = []
    for k in range(dim):
        r = np.zeros((nn, dim))
        r[:, k] = 1
        modes.append(r.ravel())
    pairs = [(0, 1)] if dim == 2 else [(0, 1), (1, 2), (2, 0)]
    for (p, q) in pairs:
        r = np.zeros((nn, dim))
        r[:, p] = -pos[:, q]
        r[:, q] = pos[:, p]
        modes.append(r.ravel())
    return modes


def ref_element(kind, dim, sizes, kw):
    """independent statement of the element matrices: exact integrals of B^T D B, rho N^T N, k gradN^T gradN over the
    element (3-point Gauss-Legendre, exact for these polynomials), thickness sizes[2] included in 2-D"""
    h = np.array(sizes[:dim], dtype=float)
    V = float(np.prod(h))
    t = float(sizes[2]) if dim == 2 else 1.0
    nn = [(-1, -1, -1), (1, -1, -1), (-1, 1, -1), (1, 1, -1), (-1, -1, 1), (1, -1, 1), (-1, 1, 1), (1, 1, 1)][:2 ** dim]
    xi, wi = np.polynomial.legendre.leggauss(3)
    en = 2 ** dim
    if kind == 'stiffness':
        E, nu = kw['E'], kw['nu']
        if dim == 3:
            c = E / ((1 + nu) * (1 - 2 * nu))
            D = np.zeros((6, 6))
            D[:3, :3] = c * nu
            D[np.arange(3), np.arange(3)] = c * (1 - nu)
            D[np.arange(3, 6), np.arange(3, 6)] = c * (1 - 2 * nu) / 2
        elif MODES[kw['plane']] == 0:
            c = E / ((1 + nu) * (1 - 2 * nu))
            D = c * np.array([[1 - nu, nu, 0], [nu, 1 - nu, 0], [0, 0, (1 - 2 * nu) / 2]])
        else:
            D = E / (1 - nu ** 2) * np.array([[1, nu, 0], [nu, 1, 0], [0, 0, (1 - nu) / 2]])
        out = np.zeros((en * dim, en * dim))
    elif kind == 'mass':
        nd = kw['ndof']
        out = np.zeros((en * nd, en * nd))
    else:
        out = np.zeros((en, en))
    import itertools
    for idx in itertools.product(range(3), repeat=dim):
        p = np.array([xi[i] * h[k] / 2 for k, i in enumerate(idx)])
        w = float(np.prod([wi[i] * h[k] / 2 for k, i in enumerate(idx)]))
        fac = np.array([[h[k] / 2 + n[k] * p[k] for k in range(dim)] for n in nn])      # (en, dim)
        N = fac.prod(axis=1) / V
        dN = np.array([[n[k] * np.prod([fac[a, j] for j in range(dim) if j != k]) / V for a, n in enumerate(nn)] for k in range(dim)])
        if kind == 'stiffness':
            B = np.zeros((3 if dim == 2 else 6, en * dim))
            for a in range(en):
                if dim == 2:
                    B[0, 2 * a], B[1, 2 * a + 1], B[2, 2 * a], B[2, 2 * a + 1] = dN[0, a], dN[1, a], dN[1, a], dN[0, a]
                else:
                    B[0, 3 * a], B[1, 3 * a + 1], B[2, 3 * a + 2] = dN[0, a], dN[1, a], dN[2, a]
                    B[3, 3 * a + 1], B[3, 3 * a + 2] = dN[2, a], dN[1, a]      # gamma_yz
                    B[4, 3 * a], B[4, 3 * a + 2] = dN[2, a], dN[0, a]          # gamma_zx
                    B[5, 3 * a], B[5, 3 * a + 1] = dN[1, a], dN[0, a]          # gamma_xy
            out += w * t * B.T @ D @ B
        elif kind == 'mass':
            Nm = np.kron(N[None, :], np.eye(kw['ndof']))
            out += w * t * kw['mp'] * Nm.T @ Nm
        else:
            out += w * t * kw['mp'] * dN.T @ dN
    return out


def oracle(ctx, pym, sp, cases, elem_obs=(), thorough=False):
    """the property stated in numpy, evaluated on the implementation"""
    for eo in elem_obs:
        ctx.search_evaluations += 1
        ref = ref_element(eo['kind'], eo['dim'], eo['sizes'], eo['kw'])
        sc = max(1e-300, float(np.abs(ref).max()))
        if ref.shape != eo['Ke'].shape or np.abs(ref - eo['Ke']).max() > 1e-9 * sc:
            site = {'stiffness': 'AssembleStiffness._prepare', 'mass': 'AssembleMass._prepare', 'poisson': 'AssemblePoisson._prepare'}[eo['kind']]
            ctx.violation('impl-violates', site, 'element matrix equals the exact element integral', f'dim{eo["dim"]}',
                          dict(kind=eo['kind'], dim=eo['dim'], sizes=eo['sizes'], kw=eo['kw']),
                          expected=ref.tolist(), got=eo['Ke'].tolist())
    for c in cases:
        if c.get('_A') is None:
            continue
        ctx.search_evaluations += 1
        a, b, cz = c['grid']
        dim = 2 if cz == 0 else 3
        kind = c['kind']
        A = c['_A']
        Ke = c['_Ke']
        n, ndof = c['_n'], c['_ndof']
        d = pym.DomainDefinition(a, b, cz, *c['sizes'])
        x = np.array(c['x'], dtype=float)
        Ad = A.toarray() if sp.issparse(A) else np.asarray(A)
        site = {'general': 'AssembleGeneral._response', 'stiffness': 'AssembleStiffness', 'mass': 'AssembleMass', 'poisson': 'AssemblePoisson'}[kind]
        pub = {k: v for k, v in c.items() if not k.startswith('_')}

        def bad(pred, expected=None, got=None):
            ctx.violation('impl-violates', site, pred, f'dim{dim}', pub, expected=expected, got=got)
        # dense reference: sum_e x_e scatter(K_e), own dof numbering from the documented node order
        en = 2 ** dim
        ref = np.zeros((n, n))
        nz = max(cz, 1)
        offs = [(0, 0, 0), (1, 0, 0), (0, 1, 0), (1, 1, 0)] + ([(0, 0, 1), (1, 0, 1), (0, 1, 1), (1, 1, 1)] if dim == 3 else [])
        for k in range(nz):
            for j in range(b):
                for i in range(a):
                    e = (k * b + j) * a + i
                    nodes = [((k + o[2]) * (b + 1) + (j + o[1])) * (a + 1) + (i + o[0]) for o in offs]
                    dofs = [nd * ndof + q for nd in nodes for q in range(ndof)]
                    ref[np.ix_(dofs, dofs)] += x[e] * Ke
        free = ref.copy()
        bc = c.get('bc')
        if kind == 'mass' and c.get('bcdiagval') is None:
            bcd = 0.0
        else:
            bcd = c.get('bcdiagval') if c.get('bcdiagval') is not None else float(np.max(Ke))
        if bc is not None:
            ref[bc, :] = 0
            ref[:, bc] = 0
            for q in bc:
                ref[q, q] += bcd
        cabs = 0.0
        if c.get('const'):
            for r_, c_, v_ in c['const']:
                ref[int(r_), int(c_)] += v_
                cabs = max(cabs, abs(v_))
        # every comparison is RELATIVE to the scale of the data it concerns (no absolute floor): the diagonal positions of
        # the constrained dofs relative to the chosen value, everything else relative to the free part
        dmask = np.zeros((n, n), dtype=bool)
        if bc is not None and len(bc):
            dmask[list(bc), list(bc)] = True
        with np.errstate(all='ignore'):
            scaleF = max(cabs, float(np.abs(np.where(dmask, 0.0, ref)).max()))
            scaleD = max(cabs, abs(float(bcd)))
        scale = max(scaleF, scaleD)
        if Ad.shape != ref.shape:
            bad('A == mask_bc(sum_e x_e scatter(K_e)) + bcdiagval*I_bc + constant', list(ref.shape), list(Ad.shape))
        else:
            dif = np.abs(Ad - ref)
            eF = float(np.where(dmask, 0.0, dif).max())
            eD = float(np.where(dmask, dif, 0.0).max())
            if not (eF <= 1e-9 * scaleF):
                bad('A == mask_bc(sum_e x_e scatter(K_e)) + bcdiagval*I_bc + constant', f'free part within 1e-9 of its scale {scaleF}', eF)
            if not (eD <= 1e-9 * scaleD):
                bad('constrained dofs carry the chosen value on their diagonal', f'{bcd} (within 1e-9 relative)', eD)
        if kind == 'general':
            continue
        # ---- physics, on the unconstrained matrix without constant (computed from the element matrix the module exposes)
        ksc = float(np.abs(Ke).max())
        fsc = float(np.abs(free).max())
        refK = ref_element(kind, dim, c['sizes'], c['kw'])
        if refK.shape != Ke.shape or not (np.abs(refK - Ke).max() <= 1e-9 * float(np.abs(refK).max())):
            bad('element matrix equals the exact element integral', None, float(np.abs(refK - Ke).max()) if refK.shape == Ke.shape else list(Ke.shape))
        if not (np.abs(Ke - Ke.T).max() <= 1e-9 * ksc):
            bad('element matrix symmetric', 0.0, float(np.abs(Ke - Ke.T).max()))
        if bc is None and not c.get('const'):
            if not (np.abs(Ad - Ad.T).max() <= 1e-9 * scale):
                bad('assembled matrix symmetric', 0.0, float(np.abs(Ad - Ad.T).max()))
        if np.all(x >= 0):
            # eigenvalues of the matrix scaled to unit size (eigvalsh works on the scaled copy: no under/overflow)
            fs = free / fsc if fsc > 0 else free
            ev = np.linalg.eigvalsh((fs + fs.T) / 2)
            if ev.min() < -1e-9 * abs(ev).max():
                bad('positive semi-definite for x >= 0', '>= 0', float(ev.min()) * fsc)
        vol = float(np.prod(c['sizes']))   # 2-D: in-plane area times thickness
        if kind == 'stiffness':
            for r in rigid_modes(d, dim):
                res = free @ r
                if not (np.abs(res).max() <= 1e-9 * fsc * np.abs(r).max()):
                    bad('stiffness annihilates rigid-body motions', 0.0, float(np.abs(res).max()))
        elif kind == 'mass':
            rho = c['kw']['mp']
            for q in range(ndof):
                one = np.zeros((d.nnodes, ndof))
                one[:, q] = 1
                one = one.ravel()
                tot = one @ free @ one
                exp = rho * vol * x.sum()
                if not (abs(tot - exp) <= 1e-9 * abs(rho * vol) * np.abs(x).sum()):
                    bad('total mass rho*V*sum(x) per direction', exp, float(tot))
        else:
            kcond = c['kw']['mp']
            one = np.ones(n)
            if not (np.abs(free @ one).max() <= 1e-9 * fsc):
                bad('Poisson matrix annihilates constants', 0.0, float(np.abs(free @ one).max()))
            pos = d.get_node_position().T
            gvec = np.array([1.0, -2.0, 0.5])[:dim]
            u = pos @ gvec + 0.75
            en_ = u @ free @ u
            exp = kcond * vol * float(gvec @ gvec) * x.sum()
            if not (abs(en_ - exp) <= 1e-9 * max(abs(kcond * vol) * float(gvec @ gvec) * np.abs(x).sum(), fsc * float(u @ u) * 1e-4)):
                bad('Poisson energy of a linear field k*V*|g|^2*sum(x)', exp, float(en_))


if __name__ == '__main__':
    vlib.main(run, 'C08')
