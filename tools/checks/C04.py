"""C04 — backpropagation is linear in the seed, accumulative and leaves states untouched."""
import io, contextlib, warnings
import numpy as np
import vlib
import modzoo
import C01 as c01


def run(ctx):
    warnings.filterwarnings('ignore')
    import pymoto as pym
    ctx.rule = ('(a) dispatch: random user-defined integer modules (inputs used twice, several outputs, unseeded outputs, None contributions) x '
                'random protocol scripts with repeated sensitivity()/reset()/response() on the real Module/Signal, final store compared exactly '
                'with Model/Dispatch.v; (b) oracle: the four clauses (seed linearity with integer a,b; double sensitivity; states untouched by '
                'sensitivity/reset; response touches no input state and no sensitivity; unseeded sensitivity is a no-op) evaluated on every zoo '
                'entry (all library modules with a sensitivity). Non-trivial: scripts with >= 3 ops. Distinct by content hash.')
    ctx.assumptions += ['purity/linearity of the library modules\' _sensitivity is the hypothesis of the dispatch theorems; for index-linear modules it '
                        'follows from C04_F1_seed_linear (+ the F1 tie of C01), for the others it is validated by the oracle sweep (testing)',
                        'keep_alloc resets (zeroed arrays) are identified with None (C18 covers the allocation behaviour)']
    ctx.trusted += ['Print Assumptions: all C04 theorems are closed under the global context (section hypotheses are explicit premises)']
    vlib.audit(ctx)
    if not vlib.ensure_static(ctx, ['theories/Props/C04.vo', 'theories/Model/DispatchZ.vo']):
        return
    vlib.check_props(ctx)
    quick = ctx.quick()
    checks, labels = c01.dispatch_cases(ctx, pym, 400 if quick else 4000)
    failing, err = vlib.run_cases(ctx, 'dispatch', c01.HEADER_DISPATCH, checks, chunk=150)
    ctx.obligation('correspondence:dispatch case files evaluated', 'correspondence', not err, err)
    ctx.obligation('correspondence:dispatch model == implementation', 'correspondence', not failing and not err, str(failing[:10]))
    if err:
        ctx.violation('correspondence', 'Module.sensitivity', 'case files compile', 'harness', dict(error=err[-3000:]), theorem='cases_dispatch')
    for idx in failing[:10]:
        ctx.violation('correspondence', 'Module.response/sensitivity/reset', 'model == implementation', 'dispatch',
                      dict(label=labels[idx], coq=checks[idx][:3000]))
    # the zoo of C01 + the sparse EigenSolve family (standard / generalised, nmodes 1 .. default, shifts, finite-element pencil)
    E = modzoo.entries(pym, ctx.seed + 11, thorough=not quick, extra=('eig_sparse',))
    rng = np.random.default_rng(ctx.seed + 3)
    with contextlib.redirect_stdout(io.StringIO()):
        for e in E:
            ctx.search_evaluations += 1
            ctx.count('oracle:' + e['name'])
            if e['name'] == 'EigenSolve':
                ctx.count('oracle:EigenSolve ' + str(e['cfg'].get('kind')) + ' nmodes=' + str(e['cfg'].get('nmodes', 'default')))
            try:
                for attempt in range(6):
                    try:
                        fails = modzoo.protocol_check(e, pym, rng)
                        break
                    except Exception as ex:  # noqa
                        if not (isinstance(ex, modzoo.KnownFirstVisit) or (modzoo._is_sparse_eig(e) and 'exactly singular' in str(ex))):
                            raise
                        # known finding K02 (SuperLU 'Factor is exactly singular' while A - lam_i*B is factorised on the FIRST visit
                        # of a mode after a response()); sporadic (ARPACK start vector): the history is run again on new instances
                        ctx.count('K02 on a first visit: history repeated')
                        if attempt == 5:
                            raise RuntimeError(str(ex)) from None
            except Exception as ex:
                # an exception that a single plain response/seed/sensitivity cycle raises as well is C01's business
                # ("the call completes without raising"), not one of C04's clauses; only protocol-specific failures count here
                try:
                    m, ins, outs = e['build']()
                    m.response()
                    for s_, w_ in zip(outs, modzoo.make_seeds(outs, np.random.default_rng(0), pym)):
                        s_.sensitivity = w_
                    m.sensitivity()
                    plain_ok = True
                except Exception:
                    plain_ok = False
                if not plain_ok or (e['name'] == 'EigenSolve' and 'sparse' in str(e['cfg']) and 'exactly singular' in str(ex)):
                    # (the second case is known finding K02 of C01: ARPACK's random start vector makes it sporadic)
                    ctx.count('skipped:plain cycle raises (C01)')
                    continue
                ctx.violation('impl-violates', e['name'], 'protocol completes without raising', 'zoo entry', dict(cfg=str(e['cfg'])),
                              got=f'{type(ex).__name__}: {str(ex)[:500]}')
                continue
            for pred, detail in fails[:3]:
                ctx.violation('impl-violates', e['name'], pred, 'zoo entry', dict(cfg=str(e['cfg']), detail=detail))
    # interactions: pre-existing input sensitivities, shared signals / option objects, interleaved instances, memory layouts
    import zoo_interactions
    zoo_interactions.run_part(ctx, pym, E, 'C04', quick)


if __name__ == '__main__':
    vlib.main(run, 'C04')
