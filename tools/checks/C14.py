"""C14 — the overhang filter prints layer by layer in the requested direction."""
import os, json, glob, itertools, math, time
from fractions import Fraction
import numpy as np
import vlib
from vlib import zl, ql, zlit, qlit
import c14_hist

HEADER = '''From Coq Require Import String Ascii.
From Coq Require Import ZArith QArith Qabs List Bool.
From Pymoto Require Import Base.Num Base.Cmp Model.Grid Model.Overhang Model.OverhangHist.
Import ListNotations.
Open Scope Z_scope.
Definition G (a b c : Z) := {| nelx := a; nely := b; nelz := c |}.
Definition tol : Q := (1 # 1000000000)%Q.
Definition exn_eqb (a b : exn) : bool :=
  match a, b with
  | TypeError, TypeError | ValueError, ValueError | IndexError, IndexError | AssertionError, AssertionError
  | RuntimeError, RuntimeError | OtherError, OtherError => true
  | _, _ => false
  end.
(* _prepare: the model's (direction, nsampling) / exception class against the implementation's *)
Definition prep_check (dimg : Z) (a : dir_arg) (ns : option Z) (obs : res (list Q * Z)) : bool :=
  match prepare dimg a ns, obs with
  | Ok (d, n), Ok (u, m) => dir_matches tol d u && (n =? m)
  | Err e, Err e' => exn_eqb e e'
  | _, _ => false
  end.
(* _prepare followed by _response on a rational instance (integer p, xi_0 = nsampling^(-1/k), eps) *)
Definition resp_check (g : grid) (a : dir_arg) (ns : option Z) (p : nat) (k eps scale : Q) (x out : list Q) : bool :=
  match prepare (dim g) a ns with
  | Ok (d, n) => Ql_close (tol * scale)%Q (response_Q g d n p k eps x) out
  | Err _ => false
  end.
(* a call history (Model/OverhangHist.v) executed on the model with memory: instances built by _prepare on ONE grid,
   EVERY observed response (instance, scale, output state) compared in call order *)
Fixpoint obs_all (tl : Q) (m : list (nat * list Q)) (o : list (nat * Q * list Q)) : bool :=
  match m, o with
  | [], [] => true
  | (j, y) :: m', (j', sc, out) :: o' => Nat.eqb j j' && Ql_close (tl * sc)%Q y out && obs_all tl m' o'
  | _, _ => false
  end.
Definition hist_check (g : grid) (cfgs : list (option (config Q))) (sigs : list (list Q)) (h : list (event Q))
           (obs : list (nat * Q * list Q)) : bool :=
  match all_some cfgs with
  | Some cs => obs_all tol (run_Q g cs sigs h) obs
  | None => false
  end.
'''

HEADER_R = '''From Coq Require Import Reals List.
From Interval Require Import Tactic.
From Pymoto Require Import Model.Grid Model.Overhang.
Import ListNotations.
Open Scope R_scope.
'''

EXN = {TypeError: 'TypeError', ValueError: 'ValueError', IndexError: 'IndexError', AssertionError: 'AssertionError',
       RuntimeError: 'RuntimeError'}
ALPHABET = ['x', 'y', 'z', '+', '-', 'X', 'Y', 'Z', ' ']
# rational instances: integer p, xi_0 = n^(-1/k)  =>  q = p - k, 1/q in {1, 2, 1/2}
INSTANCES = [(2, Fraction(1)), (3, Fraction(2)), (4, Fraction(3)), (3, Fraction(1)), (4, Fraction(2)),
             (1, Fraction(1, 2)), (2, Fraction(3, 2)), (3, Fraction(5, 2))]
OFFSETS = [(-1, 0), (0, 0), (1, 0), (0, -1), (0, 1), (-1, -1), (-1, 1), (1, -1), (1, 1)]


def exn_name(e):
    for k, v in EXN.items():
        if type(e) is k:
            return v
    for k, v in EXN.items():
        if isinstance(e, k):
            return v
    return 'OtherError'


def coq_string(s):
    assert '"' not in s
    return f'"{s}"%string'


def dir_arg(direction):
    """Coq dir_arg for a python direction (string, or anything np.asarray(...).flatten() accepts)"""
    if isinstance(direction, str):
        return f'(DStr {coq_string(direction)})'
    flat = np.asarray(direction, dtype=np.float64).flatten()
    return f'(DVec {ql([Fraction(float(v)) for v in flat])}%Q)'


def ns_arg(ns):
    return 'None' if ns is None else f'(Some {zlit(ns)})'


def make_filter(pym, dom, direction, **kw):
    x = kw.pop('x', None)
    nel = dom.nelx * dom.nely * max(dom.nelz, 1)
    s = pym.Signal('x', np.zeros(nel) if x is None else x)
    return pym.OverhangFilter(s, domain=dom, direction=direction, **kw)


def observe_prepare(pym, dom, direction, ns):
    """-> Coq term of type res (list Q * Z)"""
    try:
        m = make_filter(pym, dom, direction, nsampling=ns)
    except Exception as e:  # noqa
        return f'(Err {exn_name(e)})', exn_name(e)
    d = [Fraction(float(v)) for v in np.asarray(m.direction).ravel()]
    return f'(Ok ({ql(d)}%Q, {zlit(int(m.nsampling))}))', 'ok'


def xi0_of(n, k):
    return float(n) ** (-1.0 / float(k))


# ----------------------------------------------------------------------------------------------------------------
def run(ctx):
    import pymoto as pym
    ctx.rule = ('(a) _prepare: ALL 820 strings of length <= 3 over {x,y,z,+,-,X,Y,Z,space} x {2-D, 3-D} (exhaustive) + generated '
                'vectors (lengths 0..4, nested, scaled, negative, non-aligned, zero) x nsampling {None,0,3,4,5,9}: direction '
                'attribute / nsampling / exception class compared exactly (non-aligned: checked normalisation 1e-9); '
                '(b) _response on rational instances (integer p, xi_0 = n^(-1/k), eps in {0, 1/64, 1e-4}): grids up to 5x5(x4), '
                'all 4/6 directions in string and vector spelling, nsampling 3/5/9, outputs compared with the exact Q model, '
                '1e-9 relative; non-trivial = >= 2 layers in print direction and a non-constant field; distinct by '
                '(grid, direction, spelling, nsampling, instance, eps, field); (c) set_parameters q/shift/backshift by Interval goals; '
                '(d) call histories, the same deterministic scenario set on every seed (values drawn from the seed): A. one instance '
                'per print direction (>= 3 layers) through response / in-place overwrite / single entry written / x[i] += h / seed + '
                'sensitivity() + reset() / fresh array / repeated response; B. all 4 (2-D) or 6 (3-D) directions as instances with '
                'different nsampling and parameters on ONE domain object and two signals, evaluated in interleaved and permuted orders; '
                'C. 3-D domains with one or more size-1 axes: all 6 directions x nsampling {default,5,9} as 18 instances on one domain '
                'and one signal; D. random histories.  The event list and EVERY observed response go into the case file; Coq runs the '
                'model with memory (Model/OverhangHist.v run_Q) and compares all responses (1e-9); distinct by the whole history')
    ctx.assumptions += ['call histories: input signals hold float64 arrays of the domain size; attributes of an instance (p, eps, xi_0, direction, domain) are not re-assigned by the caller after construction (not public API, outside the property)',
                        '1-D domains (nely = 0) and non-float64 inputs are outside the property and not generated',
                        'theorems about values are over the reals; floats are tied by 1e-9 comparison in exact Q arithmetic',
                        'equivariance theorems assume a permutation-invariant smooth maximum (true for the real sum; in floats up to rounding, validated by the oracle at 1e-9)',
                        'non-axis-aligned direction vectors are outside the property; the model follows the code (accepted, first largest component)']
    ctx.trusted += ['Print Assumptions: Z/list/string theorems (refinement, equivariance, parser) are closed under the global context; '
                    'real-number theorems rely on ClassicalDedekindReals.sig_forall_dec, sig_not_dec, functional_extensionality_dep '
                    '(+ Classical_Prop.classic via Rpower/sqrt lemmas); C14_default_parameters additionally on the primitive 63-bit '
                    'integers used by the Interval tactic; that theorem (Props/C14b.v) is checked by coqc on every run but not by coqchk in the '
                    'thorough tier (coqchk of the Interval/Coquelicot/Flocq libraries exceeds the time budget); all other theorems (Props/C14.v) are',
                    'the Q instance evaluated in the correspondence (integer powers, integer square root to 2^-64, min) is the same term as the '
                    'R model under two interpretations (not proved equal); shift < 3e-101 and backshift are set to 0 there (below tolerance)',
                    'modelled rather than verified: numpy meshgrid/fancy-index assignment in _response (validated by correspondence)',
                    'history model (Model/OverhangHist.v) is value-semantic (xprint = x.copy(), self.smax = x.copy()): that no array is shared between the caller and the instance is validated at every call of every history (testing), and the frame (attributes each method writes on self, no class-level attribute, no helper method, no call on instance state) is regenerated from the source and compared by bridge lemma gen_frame_eq']
    vlib.audit(ctx)
    if not vlib.ensure_static(ctx, ['theories/Props/C14.vo', 'theories/Props/C14b.vo']):
        return
    # ---- (T) tables and index arithmetic regenerated from the source
    gen_ok = translator(ctx)
    vlib.check_props(ctx)
    # Props/C14b.v (C14_default_parameters, the only statement proved with the Interval tactic) is compiled and its
    # assumptions are recorded on every run like Props/C14.v, but it is not re-checked by coqchk: coqchk of the
    # Interval / Coquelicot / Flocq library cone alone exceeds the 1500 s budget of vlib.check_props (it made the
    # coqchk obligation of the WHOLE property time out before the statement was moved into its own file).
    tier = ctx.tier
    try:
        ctx.tier = 'quick' if tier == 'thorough' else tier
        vlib.check_props(ctx, 'theories/Props/C14b.v')
    finally:
        ctx.tier = tier

    checks, labels = [], []

    def add(label, expr, nontrivial=True, sample=None):
        checks.append(expr)
        labels.append(label)
        ctx.case(label, nontrivial, sample=sample)

    rng = ctx.rng
    d2 = pym.DomainDefinition(3, 2)
    d3 = pym.DomainDefinition(2, 3, 2)

    # ---- corpus first
    for path in sorted(glob.glob(os.path.join(vlib.ROOT, 'corpus', 'C14', '*.json'))):
        for c in json.load(open(path))['cases']:
            ctx.count('corpus')
            if c['kind'] == 'prepare':
                dom = pym.DomainDefinition(*c['grid'])
                obs, what = observe_prepare(pym, dom, c['direction'], c.get('nsampling'))
                add(('corpus-prepare', os.path.basename(path), repr(c['direction']), tuple(c['grid'])),
                    f'prep_check {dom.dim} {dir_arg(c["direction"])} {ns_arg(c.get("nsampling"))} {obs}',
                    sample=dict(case=c, observed=what))
                if 'expected' in c:   # regression pin of a fixed defect: the implementation itself must give this
                    try:
                        got = make_filter(pym, dom, c['direction']).direction.tolist()
                    except Exception as e:  # noqa
                        got = exn_name(e)
                    ctx.search_evaluations += 1
                    if got != c['expected']:
                        ctx.violation('impl-violates', 'OverhangFilter._prepare', 'string direction parsed',
                                      "string containing '-'" if '-' in str(c['direction']) else 'corpus direction',
                                      c, expected=c['expected'], got=got)
            else:
                sweep_case(ctx, pym, add, tuple(c['grid']), c['direction'], c.get('nsampling'), c['p'], Fraction(c['k']),
                           Fraction(c['eps']), [Fraction(v) for v in c['x']], tag='corpus-sweep')

    # ---- (a) _prepare: every string of the finite set, both dimensions
    strings = ['']
    for L in (1, 2, 3):
        strings += [''.join(t) for t in itertools.product(ALPHABET, repeat=L)]
    assert len(strings) == 820
    for dom in (d2, d3):
        for s in strings:
            obs, what = observe_prepare(pym, dom, s, None)
            ctx.count(f'string:dim{dom.dim}:{what}')
            add(('string', dom.dim, s), f'prep_check {dom.dim} {dir_arg(s)} None {obs}',
                nontrivial=True, sample=dict(direction=s, dim=dom.dim, observed=what))
    # longer / other strings (the parser theorem is for all strings; a few samples through the implementation)
    for s in ['+x ', 'minus y', 'Z-axis', '--z', 'xX', 'x,y', 'up', '+-+y', 'z' * 7]:
        for dom in (d2, d3):
            obs, what = observe_prepare(pym, dom, s, None)
            ctx.count(f'string-long:{what}')
            add(('string-long', dom.dim, s), f'prep_check {dom.dim} {dir_arg(s)} None {obs}')
    # vectors
    nvec = 150 if ctx.quick() else 1200
    for t in range(nvec):
        dom = rng.choice((d2, d3))
        kind = rng.choice(['aligned', 'aligned', 'aligned', 'nonaligned', 'zero', 'nested', 'long', 'short'])
        scale = rng.choice([1.0, -1.0, 2.0, -3.0, 0.5, 7.25, -0.001, 1e6, 3.0, -10.0])
        ax = rng.randrange(3)
        if kind == 'aligned':
            n = rng.choice((2, 3)) if ax < 2 else 3
            v = [0.0] * n
            v[ax] = scale
        elif kind == 'nonaligned':
            v = [float(rng.randint(-4, 4)) for _ in range(rng.choice((2, 3)))]
        elif kind == 'zero':
            v = [0.0] * rng.choice((0, 1, 2, 3, 4))
        elif kind == 'nested':
            v = [[0.0], [0.0], [0.0]]
            v[ax] = [scale]
        elif kind == 'long':
            v = [0.0, 0.0, 0.0, float(rng.randint(-5, 5))] + [1.0] * rng.randint(0, 2)
            v[ax] = scale
        else:
            v = [scale] if rng.random() < 0.5 else []
        ns = rng.choice([None, None, None, 3, 5, 9, 4, 0])
        obs, what = observe_prepare(pym, dom, v, ns)
        ctx.count(f'vector:{kind}:{what}')
        add(('vector', dom.dim, repr(v), ns), f'prep_check {dom.dim} {dir_arg(v)} {ns_arg(ns)} {obs}',
            sample=dict(direction=v, dim=dom.dim, nsampling=ns, observed=what))
    # numpy array / tuple spellings of the six directions
    for dom in (d2, d3):
        for ax in range(3):
            for sg in (1.0, -1.0):
                v = np.zeros(3)
                v[ax] = sg * 2.5
                for spelled in (v, tuple(v.tolist()), v[:2] if ax < 2 else v):
                    obs, what = observe_prepare(pym, dom, spelled, None)
                    ctx.count(f'vector:array:{what}')
                    add(('vector-array', dom.dim, ax, sg, type(spelled).__name__, len(spelled)),
                        f'prep_check {dom.dim} {dir_arg(spelled)} None {obs}')

    # ---- (b) _response on rational instances
    names = 'xyz'
    if ctx.quick():
        grids2 = [(a, b, 0) for a in range(1, 6) for b in range(1, 6)]
        grids3 = [(rng.randint(1, 5), rng.randint(1, 5), rng.randint(1, 4)) for _ in range(36)]
    else:
        grids2 = [(a, b, 0) for a in range(1, 6) for b in range(1, 6)] * 3
        grids3 = [(a, b, c) for a in range(1, 6) for b in range(1, 6) for c in range(1, 5)]
    for (a, b, c) in grids2 + grids3:
        dim = 2 if c == 0 else 3
        for ax in range(dim):
            for sg in (1, -1):
                nsamp = 3 if dim == 2 else rng.choice((5, 9))
                spelling = rng.choice(['str-pre', 'str-post', 'vec', 'vec-scaled', 'vec2' if (dim == 2 or ax < 2) else 'vec'])
                if spelling == 'str-pre':
                    direction = ('+' if sg > 0 else '-') + names[ax]
                    if sg > 0 and rng.random() < 0.3:
                        direction = names[ax].upper()
                elif spelling == 'str-post':
                    direction = names[ax] + ('+' if sg > 0 else '-')
                else:
                    v = [0.0, 0.0, 0.0]
                    v[ax] = float(sg) * (1.0 if spelling == 'vec' else rng.choice([2.0, 0.25, 5.0]))
                    direction = v[:2] if spelling == 'vec2' else v
                nel = a * b * max(c, 1)
                layers = (a, b, max(c, 1))[ax]
                # keep the exact rationals of the Q model small: bits ~ bits0 * degree^(layers-1)
                for attempt in range(40):
                    p, k = rng.choice(INSTANCES) if attempt < 39 else (2, Fraction(1))
                    eps = rng.choice([Fraction(0), Fraction(0), Fraction(0), Fraction(1, 64), Fraction(float(1e-4))]) if attempt < 39 else Fraction(0)
                    mode = rng.random() if attempt < 39 else 0.0
                    q = p - k
                    deg = p if q == 1 else (2 * p if q == Fraction(1, 2) else 1)
                    bits0 = 4 if mode < 0.6 else (1 if mode < 0.8 else (53 if layers <= 2 else 10))
                    if eps != 0:
                        bits0 = max(bits0, 64)
                    if bits0 * deg ** max(layers - 1, 0) <= 3000:
                        break
                if mode < 0.6:
                    xs = [Fraction(rng.choice([0, 0, 16, 16] + list(range(17))), 16) for _ in range(nel)]
                elif mode < 0.8:
                    xs = [Fraction(rng.choice([0, 1])) for _ in range(nel)]
                elif layers <= 2:
                    xs = [Fraction(rng.random()) for _ in range(nel)]
                else:
                    xs = [Fraction(rng.randrange(0, 1025), 1024) for _ in range(nel)]
                ns_given = nsamp if (dim == 3 or rng.random() < 0.5) else None
                sweep_case(ctx, pym, add, (a, b, c), direction, ns_given, p, k, eps, xs, tag='sweep')

    # ---- (d) call histories: several instances on one domain, inputs replaced / written in place, sensitivity calls
    history_cases(ctx, pym, add)

    ctx.exhaustive = True   # the finite string set of the property statement is enumerated completely (both dimensions)
    t_cases = time.time()
    failing, err = vlib.run_cases(ctx, 'c14', HEADER, checks, chunk=150)
    ctx.extra['phase_seconds'] = dict(generate=round(t_cases - ctx.t0, 1), coq_cases=round(time.time() - t_cases, 1))
    ctx.obligation('correspondence:case files evaluated', 'correspondence', not err, err)
    if err:
        ctx.violation('correspondence', 'OverhangFilter', 'case files compile', 'harness', dict(error=err[-3000:]),
                      theorem='cases_c14')
    for idx in failing[:20]:
        lab = labels[idx]
        site = 'OverhangFilter._prepare' if lab[0] in ('string', 'string-long', 'vector', 'vector-array', 'corpus-prepare') \
            else ('OverhangFilter.response (call history)' if lab[0] == 'history' else 'OverhangFilter._response')
        ctx.violation('correspondence', site, 'model == implementation', str(lab[0]),
                      dict(label=[str(v) for v in lab], coq_check=checks[idx][:6000]),
                      note='Coq model and implementation differ')

    # ---- (c) set_parameters (and one smooth-min/max step with the default parameters) through Interval goals
    t_int = time.time()
    try:
        ok_r = interval_goals(ctx, pym)
    except Exception as e:  # noqa  never let this phase prevent the oracle from running
        ok_r = False
        ctx.obligation('interval:harness completed', 'interval', False, repr(e)[:1500])
        ctx.violation('correspondence', 'OverhangFilter.set_parameters', 'R model == implementation (interval)',
                      'harness', dict(error=repr(e)[:1500]), theorem='interval')
    ctx.extra['phase_seconds']['interval'] = round(time.time() - t_int, 1)
    broken = bool(failing) or bool(err) or not gen_ok or not ok_r

    # ---- implementation-side property oracle
    t_or = time.time()
    oracle(ctx, pym, more=(not ctx.quick()) or broken)
    oracle_histories(ctx, pym, more=(not ctx.quick()) or broken)
    ctx.extra['phase_seconds']['oracle'] = round(time.time() - t_or, 1)


def sweep_case(ctx, pym, add, grid, direction, ns, p, k, eps, xs, tag):
    a, b, c = grid
    dom = pym.DomainDefinition(a, b, c)
    n_eff = ns if ns is not None else (3 if dom.dim == 2 else 5)
    x = np.array([float(v) for v in xs], dtype=np.float64)
    xq = [Fraction(float(v)) for v in x]
    label = (tag, grid, repr(direction), ns, p, str(k), str(eps), tuple(xq))
    try:
        m = make_filter(pym, dom, direction, x=x, nsampling=ns, xi_0=xi0_of(n_eff, k), p=float(p), eps=float(eps))
        m.response()
        out = np.asarray(m.sig_out[0].state, dtype=np.float64)
        if out.shape != x.shape or not np.all(np.isfinite(out)):
            raise RuntimeError(f'bad output {out.shape}')
    except Exception as e:  # noqa
        ctx.count(f'{tag}:exception')
        add(label, 'false', sample=dict(grid=grid, direction=direction, error=repr(e)[:200]))
        return
    outq = [Fraction(float(v)) for v in out]
    scale = max([Fraction(1)] + [abs(v) for v in outq])
    size = [a, b, max(c, 1)]
    nontrivial = len(set(xq)) > 1 and any(o != i for o, i in zip(outq, xq))
    ctx.count(f'{tag}:dim{dom.dim}:n{n_eff}:p{p}k{k}:eps{"0" if eps == 0 else "+"}')
    ctx.count(f'{tag}:{"string" if isinstance(direction, str) else "vector"}')
    add(label,
        f'resp_check (G {a} {b} {c}) {dir_arg(direction)} {ns_arg(ns)} {p}%nat {qlit(k)}%Q {qlit(Fraction(float(eps)))}%Q '
        f'{qlit(scale)}%Q {ql(xq)}%Q {ql(outq)}%Q',
        nontrivial=nontrivial,
        sample=dict(grid=grid, direction=direction, nsampling=ns, p=p, k=str(k), eps=float(eps),
                    x=[float(v) for v in x[:8]], y=[float(v) for v in out[:8]]))


# ----------------------------------------------------------------------------------------------------------------
def translator(ctx):
    try:
        import gen_C14
    except ImportError:
        return True
    ok = True
    err = ''
    try:
        text = gen_C14.gen_overhang(vlib.REPO)
        p = ctx.write_gen('OverhangGen.v', text)
        ok, _, err = vlib.compile_file(ctx, p, 'gen:OverhangGen.v compiles', 'translator')
    except Exception as e:  # Unsupported and anything else: the tie is broken, never skipped
        ctx.obligation('gen:OverhangGen.v translation', 'translator', False, str(e))
        ok, err = False, str(e)
    if ok:
        bp = os.path.join(ctx.bridge_dir, 'OverhangBridge.v')
        ok, _, err = vlib.compile_file(ctx, bp, 'bridge:OverhangBridge (generated tables/index arithmetic = model)', 'bridge')
    if not ok:
        ctx.violation('proof', 'pymoto/modules/filter.py', 'generated offsets/orthogonal axes/loop bounds equal Model/Overhang.v',
                      'translator/bridge', dict(error=err[-3000:]), theorem='BridgeC14.OverhangBridge')
    return ok


# ----------------------------------------------------------------------------------------------------------------
def rlit(x):
    f = Fraction(x)
    if f.denominator == 1:
        return f'({f.numerator})'
    return f'({f.numerator} / {f.denominator})'


def interval_goals(ctx, pym):
    """Model formulas over R (q_of, shift_of, backshift_of, smax_R, smin_R) against the implementation's floats:
    generated goals |model - float| <= 1e-9 * scale closed by `interval`."""
    rng = ctx.rng
    psets = [(2, 40.0, 0.5, 1e-4, 3), (3, 40.0, 0.5, 1e-4, 5), (3, 40.0, 0.5, 1e-4, 9)]
    for _ in range(3 if ctx.quick() else 12):
        dim = rng.choice((2, 3))
        psets.append((dim, float(rng.randint(12, 60)), rng.choice([0.3, 0.5, 0.625, 0.75]), rng.choice([1e-2, 1e-4, 1e-6]),
                      3 if dim == 2 else rng.choice((5, 9))))
    goals, labels = [], []
    tiny = Fraction(float(np.finfo(np.float64).tiny))
    assert tiny == Fraction(1, 2 ** 1022)
    for (dim, p, xi0, eps, n) in psets:
        dom = pym.DomainDefinition(3, 3, 0 if dim == 2 else 2)
        nel = dom.nelx * dom.nely * max(dom.nelz, 1)
        x = np.array([rng.choice([0.0, 1.0, rng.random()]) for _ in range(nel)])
        try:
            m = make_filter(pym, dom, '+y', x=x, nsampling=n, xi_0=xi0, p=p, eps=eps)
            m.response()
            y = np.asarray(m.sig_out[0].state)
        except Exception as e:  # noqa  (the oracle below reports the concrete failing input)
            ctx.obligation(f'interval:implementation runs (p={p}, xi_0={xi0}, n={n})', 'interval', False, repr(e)[:500])
            ctx.violation('correspondence', 'OverhangFilter._response', 'R model == implementation (interval)',
                          'default/random parameters', dict(p=p, xi_0=xi0, eps=eps, nsampling=n, error=repr(e)[:500]),
                          theorem='interval')
            return False
        P, XI, EPS = rlit(p), rlit(xi0), rlit(eps)
        Q = f'(q_of {P} {n} {XI})'
        S = f'(shift_of {P} dbl_tiny)'
        B = f'(backshift_of {n} {P} {Q} {S})'
        for nm, model, val in (('q', Q, m.q), ('shift', S, m.shift), ('backshift', B, m.backshift)):
            goals.append(f'Rabs ({model} - {rlit(float(val))}) <= {rlit(Fraction(1, 10 ** 9) * max(Fraction(1, 10 ** 6), abs(Fraction(float(val)))))}')
            labels.append(('set_parameters', nm, p, xi0, n))
            ctx.case(('interval', nm, p, xi0, n), True)
            ctx.count('interval:set_parameters')
        # one element of layer 1 (print direction +y): supports are the printed (= input) values of layer 0
        nx = dom.nelx
        for i in ([0, 1] if ctx.quick() else range(nx)):
            k = 0 if dim == 2 else rng.randrange(dom.nelz)
            offs = OFFSETS[:n]
            supp = []
            for (oa, ob) in offs:   # dir_layer = 1: orth1 = x (2-D) / z (3-D), orth2 = z (2-D) / x (3-D)
                ii, kk = (i + oa, k + ob) if dim == 2 else (i + ob, k + oa)
                if 0 <= ii < nx and 0 <= kk < max(dom.nelz, 1):
                    supp.append(float(y[int(dom.get_elemnumber(ii, 0, kk))]))
            e = int(dom.get_elemnumber(i, 1, k))
            L = '[' + '; '.join(rlit(v) for v in supp) + ']'
            model = f'smin_R {EPS} {rlit(float(x[e]))} (smax_R {P} {Q} {S} {B} {L})'
            goals.append(f'Rabs ({model} - {rlit(float(y[e]))}) <= {rlit(Fraction(1, 10 ** 9))}')
            labels.append(('one-step', p, xi0, eps, n, i, k))
            ctx.case(('interval-step', p, xi0, eps, n, i, k, tuple(supp), float(x[e])), True)
            ctx.count('interval:one-step')
    body = [HEADER_R]
    for i, g in enumerate(goals):
        body.append(f'Goal {g}.\nProof. unfold smin_R, smax_R, rsum, backshift_of, q_of, shift_of, dbl_tiny; cbn [map fold_right]; '
                    f'interval with (i_prec 90). Qed.')
    # compile in a few shards so that a failing goal is located
    nsh = 4
    allok = True
    import concurrent.futures as cf

    def one(sh):
        part = [HEADER_R] + [body[1 + i] for i in range(len(goals)) if i % nsh == sh]
        p = ctx.write_gen(f'interval_{sh}.v', '\n'.join(part) + '\n')
        rc, out, err = ctx.coqc(p, 900)
        return sh, rc, err
    with cf.ThreadPoolExecutor(max_workers=4) as ex:
        for sh, rc, err in ex.map(one, range(nsh)):
            ok = rc == 0
            ctx.obligation(f'interval:shard {sh} ({len([i for i in range(len(goals)) if i % nsh == sh])} goals: q, shift, backshift, one smin/smax step)',
                           'interval', ok, err[-1500:])
            if not ok:
                allok = False
                ctx.violation('correspondence', 'OverhangFilter.set_parameters', 'R model == implementation (interval)',
                              'default/random parameters', dict(shard=sh, error=err[-3000:],
                                                                labels=[str(labels[i]) for i in range(len(goals)) if i % nsh == sh][:40]),
                              theorem=f'interval_{sh}')
    return allok


# ----------------------------------------------------------------------------------------------------------------
def params(p, xi0, n, dtype=np.float64):
    tiny = np.finfo(dtype).tiny
    q = p + np.log(1.0 * n) / np.log(xi0)
    shift = 100.0 * pow(tiny, 1.0 / p)
    backshift = pow(n, 1 / q) * pow(shift, p / q) * 0.95
    return q, shift, backshift


def spec_naive(x3, dim, axis, sign, n, p, xi0, eps):
    """print_spec with the documented formulas, naive loops; x3 indexed [i, j, k].
    In-layer axes: 2-D -> the other in-plane axis carries the first offset component (z has one element);
    3-D -> the two remaining axes in any order (the 5/9-point sets are symmetric)."""
    q, shift, backshift = params(p, xi0, n)
    size = x3.shape
    inl = [a for a in range(3) if a != axis]
    o1, o2 = (inl[0], inl[1]) if dim == 3 else ([a for a in inl if a != 2][0], 2)
    y = x3.copy()
    nl = size[axis]
    for l in range(1, nl):
        L = l if sign > 0 else nl - 1 - l
        Lp = L - sign
        for a in range(size[o1]):
            for b in range(size[o2]):
                keep = 0.0
                for (oa, ob) in OFFSETS[:n]:
                    aa, bb = a + oa, b + ob
                    if 0 <= aa < size[o1] and 0 <= bb < size[o2]:
                        idx = [0, 0, 0]
                        idx[axis], idx[o1], idx[o2] = Lp, aa, bb
                        keep += (y[tuple(idx)] + shift) ** p
                s = keep ** (1 / q) - backshift
                idx = [0, 0, 0]
                idx[axis], idx[o1], idx[o2] = L, a, b
                xv = x3[tuple(idx)]
                y[tuple(idx)] = (xv + s - math.sqrt((xv - s) ** 2 + eps) + math.sqrt(eps)) / 2
    return y


def to3(dom, v):
    return np.asarray(v).reshape((max(dom.nelz, 1), dom.nely, dom.nelx)).transpose(2, 1, 0)


def from3(a3):
    return a3.transpose(2, 1, 0).reshape(-1)


def run_impl(pym, grid, x3, axis, sign, spelling, n, p, xi0, eps):
    dom = pym.DomainDefinition(*grid)
    if spelling == 'str':
        direction = ('+' if sign > 0 else '-') + 'xyz'[axis]
    else:
        direction = [0.0, 0.0, 0.0]
        direction[axis] = float(sign)
    m = make_filter(pym, dom, direction, x=from3(x3).copy(), nsampling=n, xi_0=xi0, p=p, eps=eps)
    m.response()
    return to3(dom, m.sig_out[0].state), m


def oracle(ctx, pym, more=False):
    rng = np.random.default_rng(ctx.seed)
    ncase = 250 if not more else 1500
    nval = dict(premise=0, perm=0)
    for t in range(ncase):
        dim = 2 if t % 2 == 0 else 3
        grid = (int(rng.integers(1, 7)), int(rng.integers(1, 7)), 0 if dim == 2 else int(rng.integers(1, 5)))
        n = 3 if dim == 2 else int(rng.choice((5, 9)))
        if t % 3 == 0:
            p, xi0, eps = 40.0, 0.5, 1e-4       # defaults
        else:
            p = float(rng.integers(12, 60))
            xi0 = float(rng.choice([0.3, 0.5, 0.6, 0.75]))
            eps = float(rng.choice([0.0, 1e-6, 1e-4, 1e-2]))
        q, shift, backshift = params(p, xi0, n)
        axis = int(rng.integers(0, dim))
        sign = int(rng.choice((1, -1)))
        shape = (grid[0], grid[1], max(grid[2], 1))
        style = t % 4
        if style == 0:
            x3 = rng.random(shape)
        elif style == 1:
            x3 = (rng.random(shape) < 0.6).astype(float)
        elif style == 2:
            x3 = np.where(rng.random(shape) < 0.5, 1.0, rng.random(shape)) * (rng.random(shape) < 0.8)
        else:
            x3 = np.round(rng.random(shape) * 4) / 4
        case = dict(grid=grid, axis=axis, sign=sign, nsampling=n, p=p, xi_0=xi0, eps=eps, x=from3(x3).tolist())

        def bad(pred, iclass, expected=None, got=None, **extra):
            ctx.violation('impl-violates', 'OverhangFilter._response', pred, iclass, dict(case, **extra),
                          expected=expected, got=got)
        ctx.search_evaluations += 1
        try:
            y3, m = run_impl(pym, grid, x3, axis, sign, 'str' if t % 2 else 'vec', n, p, xi0, eps)
        except Exception as e:  # noqa
            bad('response computes', f'dim{dim}', got=repr(e)[:300])
            continue
        tolv = 1e-9 * max(1.0, float(np.abs(y3).max()))
        # 1. the layer-by-layer scheme in the requested direction
        ref = spec_naive(x3, dim, axis, sign, n, p, xi0, eps)
        if not np.all(np.isfinite(y3)) or np.abs(ref - y3).max() > tolv:
            bad('output equals the layer-by-layer scheme (naive print_spec)', f'dim{dim}',
                expected=from3(ref).tolist(), got=from3(y3).tolist())
        # 2. base layer unchanged
        sl = [slice(None)] * 3
        sl[axis] = 0 if sign > 0 else shape[axis] - 1
        if not np.array_equal(y3[tuple(sl)], x3[tuple(sl)]):
            bad('base layer unchanged', f'dim{dim}', expected=x3[tuple(sl)].tolist(), got=y3[tuple(sl)].tolist())
        # 3. no overshoot
        if (y3 - x3).max() > math.sqrt(eps) / 2 + 1e-12:
            bad('no element exceeds its input by more than sqrt(eps)/2', f'dim{dim}',
                expected=math.sqrt(eps) / 2, got=float((y3 - x3).max()))
        # premises of the theorems, validated numerically for this parameter set
        prem = q > 0 and q <= p and 0 <= backshift < shift and backshift <= (1 + shift) ** (p / q) - 1
        nval['premise'] += 1
        if not prem:
            ctx.count('oracle:premise-fails')
        else:
            # 4./5. supported solid stays solid, unsupported material is removed (bounds of the theorems)
            inl = [a for a in range(3) if a != axis]
            o1, o2 = (inl[0], inl[1]) if dim == 3 else ([a for a in inl if a != 2][0], 2)
            nl = shape[axis]
            sup = np.zeros(shape, dtype=bool)
            bound = n ** (1 / q) * (math.sqrt(eps) / 2 + shift) ** (p / q) - backshift + math.sqrt(eps) / 2
            for l in range(nl):
                L = l if sign > 0 else nl - 1 - l
                for a in range(shape[o1]):
                    for b in range(shape[o2]):
                        idx = [0, 0, 0]
                        idx[axis], idx[o1], idx[o2] = L, a, b
                        idx = tuple(idx)
                        below = []
                        for (oa, ob) in OFFSETS[:n]:
                            aa, bb = a + oa, b + ob
                            if l > 0 and 0 <= aa < shape[o1] and 0 <= bb < shape[o2]:
                                j = [0, 0, 0]
                                j[axis], j[o1], j[o2] = L - sign, aa, bb
                                below.append(tuple(j))
                        if x3[idx] == 1.0 and (l == 0 or any(sup[j] for j in below)):
                            sup[idx] = True
                            if not (1.0 - 1e-12 <= y3[idx] <= 1.0 + math.sqrt(eps) / 2 + 1e-12):
                                bad('fully supported solid stays solid: 1 <= y <= 1 + sqrt(eps)/2', f'dim{dim}',
                                    expected=[1.0, 1.0 + math.sqrt(eps) / 2], got=float(y3[idx]), element=list(idx))
                        if l > 0 and all(x3[j] == 0.0 for j in below) and y3[idx] > bound + 1e-12:
                            bad('unsupported material is removed: y <= n^(1/q)(sqrt(eps)/2+shift)^(p/q) - backshift + sqrt(eps)/2',
                                f'dim{dim}', expected=bound, got=float(y3[idx]), element=list(idx))
        # 6. equivariance: mirror along a random axis / swap two axes
        for rep in range(2):
            try:
                if rep == 0:
                    mx = int(rng.integers(0, dim))
                    xm = np.flip(x3, axis=mx)
                    what = f'mirror axis {mx}'
                    ym, _ = run_impl(pym, grid, xm, axis, -sign if mx == axis else sign, 'vec', n, p, xi0, eps)
                    back = np.flip(ym, axis=mx)
                else:
                    a1, a2 = (0, 1) if dim == 2 else tuple(sorted(rng.choice(3, size=2, replace=False).tolist()))
                    what = f'swap axes {a1},{a2}'
                    perm = [0, 1, 2]
                    perm[a1], perm[a2] = a2, a1
                    xs = x3.transpose(perm)
                    g2 = list(shape)
                    g2[a1], g2[a2] = g2[a2], g2[a1]
                    grid2 = (g2[0], g2[1], 0 if dim == 2 else g2[2])
                    ax2 = perm[axis]
                    ys, _ = run_impl(pym, grid2, xs, ax2, sign, 'str', n, p, xi0, eps)
                    back = ys.transpose(perm)
            except Exception as e:  # noqa
                bad('response computes', f'dim{dim}', got=repr(e)[:300], symmetry=what)
                continue
            ctx.search_evaluations += 1
            nval['perm'] += 1
            if back.shape != y3.shape or np.abs(back - y3).max() > tolv:
                bad('filtering the mirrored / axis-swapped design in the mapped direction gives the mapped result', f'dim{dim}',
                    expected=from3(y3).tolist(), got=from3(back).tolist(), symmetry=what)
    ctx.oracle_validation['theorem premises 0<q<=p, 0<=backshift<shift, backshift<=(1+shift)^(p/q)-1 (numerical)'] = nval['premise']
    ctx.oracle_validation['smax permutation invariance up to rounding (mirror/swap consistency at 1e-9)'] = nval['perm']
    # direction attribute of the documented spellings
    d2 = pym.DomainDefinition(2, 2)
    d3 = pym.DomainDefinition(2, 2, 2)
    for dom in (d2, d3):
        for ax in range(dom.dim):
            for sg in (1, -1):
                exp = [0.0, 0.0, 0.0]
                exp[ax] = float(sg)
                c = 'xyz'[ax]
                spell = [c + '+-'[sg < 0], '+-'[sg < 0] + c, c.upper() + '+-'[sg < 0], '+-'[sg < 0] + c.upper()] + ([c, c.upper()] if sg > 0 else [])
                vecs = [[v * 3.5 for v in exp], exp[:2] if ax < 2 else exp, tuple(exp), np.array(exp) * 0.25]
                for d in spell + vecs:
                    ctx.search_evaluations += 1
                    try:
                        got = make_filter(pym, dom, d).direction.tolist()
                    except Exception as e:  # noqa
                        got = exn_name(e)
                    if got != exp:
                        ctx.violation('impl-violates', 'OverhangFilter._prepare',
                                      'string direction parsed' if isinstance(d, str) else 'vector direction parsed',
                                      "string containing '-'" if isinstance(d, str) and '-' in d else 'axis direction',
                                      dict(direction=d if isinstance(d, str) else list(map(float, d)), dim=dom.dim),
                                      expected=exp, got=got)

# ----------------------------------------------------------------------------------------------------------------
def pick_instance(rng, layers, bits0):
    """a rational instance (p, k, eps) whose exact Q evaluation stays small: bits ~ bits0 * degree^(layers-1)"""
    for attempt in range(40):
        p, k = rng.choice(INSTANCES)
        eps = rng.choice([Fraction(0), Fraction(0), Fraction(0), Fraction(1, 64), Fraction(float(1e-4))])
        q = p - k
        deg = p if q == 1 else (2 * p if q == Fraction(1, 2) else 1)
        b0 = bits0 if eps == 0 else max(bits0, 64)
        if b0 * deg ** max(layers - 1, 0) <= 3000:
            return p, k, eps
    return 2, Fraction(1), Fraction(0)


def history_cases(ctx, pym, add):
    """(d) every scenario of c14_hist.build_scenarios on rational instances: the event list and every observed response
    go into the case file; Coq runs the model with memory (run_Q) and compares all responses"""
    rng = ctx.rng
    scenarios = c14_hist.build_scenarios(rng, ctx.quick(), big=False)
    with c14_hist.Patched(pym):
        for sc in scenarios:
            a, b, c = sc['grid']
            dim = 2 if c == 0 else 3
            inst_q = [pick_instance(rng, c14_hist.nlayers(sc['grid'], ins['axis']), 6) for ins in sc['insts']]
            binary = rng.random() < 0.25

            def field(nel):
                if binary:
                    return [Fraction(rng.choice([0, 1])) for _ in range(nel)]
                return [Fraction(rng.choice([0, 0, 16, 16] + list(range(17))), 16) for _ in range(nel)]
            sigs0, events = c14_hist.instantiate(
                rng, sc, field, lambda: Fraction(rng.randrange(17), 16),
                lambda v: Fraction(1, 64) if v <= Fraction(1, 2) else Fraction(-1, 64))
            params = []
            for ins, (p, k, eps) in zip(sc['insts'], inst_q):
                n_eff = ins['ns'] if ins['ns'] is not None else (3 if dim == 2 else 5)
                params.append(dict(xi_0=xi0_of(n_eff, k), p=float(p), eps=float(eps)))
            label = ('history', sc['tag'], sc['grid'], repr([(i['direction'], i['ns'], i['src']) for i in sc['insts']]),
                     repr(inst_q), repr(sigs0), repr(events))
            ctx.count(f'history:{sc["tag"]}')
            ctx.count('history:instances', len(sc['insts']))
            for ev in events:
                ctx.count(f'history-event:{ev[0]}')
            try:
                obs, problems, dom = c14_hist.drive(pym, sc, sigs0, events, params)
                for o in obs:
                    if o['out'].shape != o['x'].shape or not np.all(np.isfinite(o['out'])):
                        raise RuntimeError(f'bad output at event {o["pos"]}')
            except Exception as e:  # noqa
                ctx.count('history:exception')
                add(label, 'false', sample=dict(history=sc['tag'], grid=sc['grid'], error=repr(e)[:200]))
                continue
            for pred, detail in problems[:3]:
                ctx.violation('impl-violates', 'OverhangFilter.response (call history)', pred, sc['tag'],
                              dict(grid=sc['grid'], instances=[dict(i, **q) for i, q in zip(sc['insts'], params)],
                                   signals=[[float(v) for v in x] for x in sigs0], events=c14_hist.events_json(events), **detail))
            ctx.search_evaluations += len(obs)
            G = f'(G {a} {b} {c})'
            cfgs = '[' + '; '.join(
                f'cfgQ {G} {ins["src"]} {dir_arg(ins["direction"])} {ns_arg(ins["ns"])} {p}%nat {qlit(k)}%Q {qlit(Fraction(float(eps)))}%Q'
                for ins, (p, k, eps) in zip(sc['insts'], inst_q)) + ']'
            obs_terms = []
            nontrivial = False
            for o in obs:
                outq = [Fraction(float(v)) for v in o['out']]
                scale = max([Fraction(1)] + [abs(v) for v in outq])
                obs_terms.append(f'({o["j"]}%nat, {qlit(scale)}%Q, {ql(outq)}%Q)')
                nontrivial = nontrivial or not np.array_equal(o['out'], o['x'])
            add(label,
                f'hist_check {G} {cfgs} [{"; ".join(ql(x) + "%Q" for x in sigs0)}] '
                f'{c14_hist.coq_events(events, sigs0, ql, qlit)} [{"; ".join(obs_terms)}]',
                nontrivial=nontrivial,
                sample=dict(history=sc['tag'], grid=sc['grid'], instances=len(sc['insts']), events=[e[0] for e in events][:12],
                            responses=len(obs)))


def spec_flat(grid, x, axis, sign, n, p, xi0, eps):
    a, b, c = grid
    x3 = np.asarray(x, dtype=np.float64).reshape((max(c, 1), b, a)).transpose(2, 1, 0)
    return from3(spec_naive(x3, 2 if c == 0 else 3, axis, sign, n, p, xi0, eps))


def oracle_histories(ctx, pym, more=False):
    """implementation-side oracle on call histories (testing): float parameter sets (defaults and random), larger
    grids; EVERY response of a history against the naive layer-by-layer scheme of the current input, against a fresh
    instance (new domain, new signal, new filter), base layer, no overshoot; caller's arrays untouched."""
    rng = ctx.rng
    nchecked = 0
    site = 'OverhangFilter.response (call history)'
    with c14_hist.Patched(pym):
        for rnd in range(3 if more else 1):
            for sc in c14_hist.build_scenarios(rng, not more, big=True):
                grid = sc['grid']
                dim = 2 if grid[2] == 0 else 3
                params = []
                for j, ins in enumerate(sc['insts']):
                    if (j + rnd) % 3 == 0:
                        params.append(dict(xi_0=0.5, p=40.0, eps=1e-4))
                    else:
                        params.append(dict(xi_0=rng.choice([0.3, 0.5, 0.6, 0.75]), p=float(rng.randint(12, 60)),
                                           eps=rng.choice([0.0, 1e-6, 1e-4, 1e-2])))
                style = rng.randrange(4)

                def field(nel):
                    if style == 0:
                        return [rng.random() for _ in range(nel)]
                    if style == 1:
                        return [float(rng.random() < 0.6) for _ in range(nel)]
                    if style == 2:
                        return [(1.0 if rng.random() < 0.5 else rng.random()) * (rng.random() < 0.8) for _ in range(nel)]
                    return [round(rng.random() * 4) / 4 for _ in range(nel)]
                sigs0, events = c14_hist.instantiate(
                    rng, sc, field, lambda: rng.choice([0.0, 1.0, rng.random()]),
                    lambda v: 1e-6 if v <= 0.5 else -1e-6)
                case = dict(grid=grid, instances=[dict(i, **q) for i, q in zip(sc['insts'], params)],
                            signals=[[float(v) for v in x] for x in sigs0], events=c14_hist.events_json(events))
                ctx.count(f'oracle-history:{sc["tag"]}')
                try:
                    obs, problems, dom = c14_hist.drive(pym, sc, sigs0, events, params)
                except Exception as e:  # noqa
                    ctx.search_evaluations += 1
                    ctx.violation('impl-violates', site, 'history computes', sc['tag'], case, got=repr(e)[:300])
                    continue
                for pred, detail in problems[:3]:
                    ctx.violation('impl-violates', site, pred, sc['tag'], dict(case, **detail))
                nbad = 0
                for o in obs:
                    ctx.search_evaluations += 1
                    nchecked += 1
                    if nbad >= 2:
                        break
                    ins, par = sc['insts'][o['j']], params[o['j']]
                    n = ins['ns'] if ins['ns'] is not None else (3 if dim == 2 else 5)
                    x, y = o['x'], o['out']
                    where = dict(case, failing_event=o['pos'], instance=o['j'], input_at_call=x.tolist())
                    if y.shape != x.shape or not np.all(np.isfinite(y)):
                        nbad += 1
                        ctx.violation('impl-violates', site, 'response computes', sc['tag'], where, got=repr(y)[:300])
                        continue
                    ref = spec_flat(grid, x, ins['axis'], ins['sign'], n, par['p'], par['xi_0'], par['eps'])
                    tolv = 1e-9 * max(1.0, float(np.abs(ref).max()))
                    if np.abs(ref - y).max() > tolv:
                        nbad += 1
                        ctx.violation('impl-violates', site,
                                      'every response of a call history equals the layer-by-layer scheme of the CURRENT input',
                                      sc['tag'], where, expected=ref.tolist(), got=y.tolist())
                    # an instance built NOW on a fresh signal: alternately on a fresh domain and on the domain object
                    # the instances of the history share
                    try:
                        fm = make_filter(pym, pym.DomainDefinition(*grid) if nchecked % 2 else dom, ins['direction'],
                                         x=x.copy(), nsampling=ins['ns'], **par)
                        fm.response()
                        fresh = np.asarray(fm.sig_out[0].state)
                    except Exception as e:  # noqa
                        fresh = None
                        nbad += 1
                        ctx.violation('impl-violates', site, 'fresh instance computes', sc['tag'], where, got=repr(e)[:300])
                    if fresh is not None and not np.array_equal(fresh, y):
                        nbad += 1
                        ctx.violation('impl-violates', site, 'a used instance responds like an instance built afresh on the same input',
                                      sc['tag'], where, expected=fresh.tolist(), got=y.tolist())
                    # base layer and overshoot with respect to the CURRENT input
                    x3, y3 = (np.asarray(v).reshape((max(grid[2], 1), grid[1], grid[0])).transpose(2, 1, 0) for v in (x, y))
                    sl = [slice(None)] * 3
                    sl[ins['axis']] = 0 if ins['sign'] > 0 else x3.shape[ins['axis']] - 1
                    if not np.array_equal(y3[tuple(sl)], x3[tuple(sl)]):
                        nbad += 1
                        ctx.violation('impl-violates', site, 'base layer equals the current input', sc['tag'], where,
                                      expected=x3[tuple(sl)].tolist(), got=y3[tuple(sl)].tolist())
                    if (y - x).max() > math.sqrt(par['eps']) / 2 + 1e-12:
                        nbad += 1
                        ctx.violation('impl-violates', site, 'no element exceeds its current input by more than sqrt(eps)/2',
                                      sc['tag'], where, expected=math.sqrt(par['eps']) / 2, got=float((y - x).max()))
    ctx.oracle_validation['history model is value-semantic: responses / sensitivity() / reset() leave the caller\'s input arrays untouched and outputs do not alias them (checked at every call of every history)'] = nchecked


if __name__ == '__main__':
    vlib.main(run, 'C14')
