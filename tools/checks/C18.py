"""C18 — signals and slices alias state, isolate accumulations and reset cleanly.

(H) correspondence: random operation sequences on REAL pymoto Signal / SignalSlice objects; after every operation the
outcome (ok / exception class), every state / sensitivity / test-owned value and the np.shares_memory relation between
all live arrays are written into coq/gen/C18/cases_*.v and compared inside Coq with Model/Signal.v (exact, integer and
Gaussian-integer data).  numpy's index semantics is an oracle: for every (index object, parent shape) that occurs the
harness records which flat positions numpy selects and whether the result is a view, a copy, a scalar or an IndexError,
and validates that table on independent data.
Oracle: the property text stated on the implementation with plain numpy arrays (no model involved).
"""
import os, json, glob, copy
import numpy as np
import vlib
from vlib import zl, zlit, blit

HEADER = '''From Coq Require Import ZArith List Bool.
From Pymoto Require Import Base.Num Base.Cmp Model.Signal.
Import ListNotations.
Open Scope Z_scope.
Definition SI (ix : list nat) (k : kind) (shp : list Z) : sinfo := {| si_idx := ix; si_kind := k; si_shape := shp |}.
'''
NVARS = 6
ERR = {0: 'ok', 1: 'TypeError', 2: 'ValueError', 3: 'IndexError', 4: 'Other'}


# ----------------------------------------------------------------------------- encoding helpers
def errcode(e):
    if isinstance(e, TypeError):
        return 1
    if isinstance(e, ValueError):
        return 2
    if isinstance(e, IndexError):
        return 3
    return 4


def is_arr(x):
    return isinstance(x, np.ndarray)


def cpair(v):
    v = complex(v)
    assert v.real == int(v.real) and v.imag == int(v.imag), v
    return int(v.real), int(v.imag)


def obs_val(x):
    if x is None:
        return [0]
    if is_arr(x):
        cx = np.iscomplexobj(x)
        flat = x.ravel()
        data = []
        for v in flat.tolist():
            re, im = cpair(v)
            data += [re, im] if cx else [re]
            assert cx or im == 0
        return [2, int(cx), x.ndim] + list(x.shape) + data
    cx = np.iscomplexobj(x)
    re, im = cpair(x)
    return [1, int(cx), int(isinstance(x, np.generic)), re, im]


def overlap(a, b):
    return is_arr(a) and is_arr(b) and bool(np.shares_memory(a, b))


def natl(xs):
    return '[' + '; '.join(str(int(x)) for x in xs) + ']%nat'


def cl(cs):
    return '[' + '; '.join(f'({zlit(a)}, {zlit(b)})' for a, b in cs) + ']'


# ----------------------------------------------------------------------------- index objects (numpy is the oracle)
class Index:
    """a python index object + the table {parent shape: what numpy does}"""

    def __init__(self, name, obj, desc):
        self.name, self.obj, self.desc = name, obj, desc
        self.table = {}

    def info(self, shape):
        shape = tuple(int(s) for s in shape)
        if shape in self.table:
            return self.table[shape]
        size = int(np.prod(shape)) if len(shape) else 1
        A = np.arange(size).reshape(shape)
        try:
            R = A[self.obj]
        except IndexError:
            inf = ([], 'KBad', ())
        else:
            if is_arr(R):
                idx = [int(v) for v in R.ravel()]
                kind = 'KView' if (R.size > 0 and np.shares_memory(R, A)) else 'KCopy'
                inf = (idx, kind, tuple(R.shape))
            else:
                inf = ([int(R)], 'KScalar', ())
            assert len(set(inf[0])) == len(inf[0]), 'index with repeats generated'
        self.table[shape] = inf
        return inf

    def coq(self):
        ents = [f'({zl(list(shp))}, SI {natl(idx)} {kind} {zl(list(rs))})' for shp, (idx, kind, rs) in self.table.items()]
        return '[' + '; '.join(ents) + ']'

    def jsonable(self):
        o = self.obj

        def enc(x):
            if isinstance(x, tuple):
                return {'tuple': [enc(y) for y in x]}
            if isinstance(x, slice):
                return {'slice': [x.start, x.stop, x.step]}
            if x is Ellipsis:
                return 'ellipsis'
            if is_arr(x):
                return {'intarray': x.tolist()}
            return {'int': int(x)}
        return enc(o)


def index_from_json(name, j):
    def dec(x):
        if x == 'ellipsis':
            return Ellipsis
        if 'tuple' in x:
            return tuple(dec(y) for y in x['tuple'])
        if 'slice' in x:
            return slice(*x['slice'])
        if 'intarray' in x:
            return np.array(x['intarray'], dtype=int)
        return int(x['int'])
    return Index(name, dec(j), 'corpus')


def rand_slice1(rng, n):
    """a basic slice for an axis of length n (possibly negative bounds / steps, possibly empty)"""
    t = rng.random()
    if t < 0.15:
        return slice(None)
    if t < 0.3:
        return slice(None, None, rng.choice((2, -1, -2, 3)))
    a = rng.randint(-n, n)
    b = rng.randint(-n, n + 1)
    st = rng.choice((None, 1, 1, 2, -1))
    if st is not None and st < 0 and rng.random() < 0.7 and a < b:
        a, b = b, a
    return slice(a if rng.random() < 0.8 else None, b if rng.random() < 0.8 else None, st)


def rand_index(rng, shape, name, malformed=False):
    """index object for an array of the given shape; kinds: basic slice, tuple of slices (and ints / Ellipsis),
    repeat-free integer array (first axis or inside a tuple), integer"""
    nd = len(shape)
    t = rng.random()
    if malformed and t < 0.5:
        # out of range / too many indices
        c = rng.random()
        if c < 0.4:
            return Index(name, int(shape[0]) + rng.randint(0, 2), 'bad-int')
        if c < 0.7:
            return Index(name, tuple([slice(None)] * (nd + 1)), 'bad-too-many')
        return Index(name, np.array([0, int(shape[0]) + 1]), 'bad-intarray')
    if t < 0.3:
        return Index(name, rand_slice1(rng, shape[0]), 'basic')
    if t < 0.6:
        parts = []
        k = rng.randint(1, nd)
        for ax in range(k):
            if rng.random() < 0.2:
                parts.append(rng.randrange(-shape[ax], shape[ax]))
            else:
                parts.append(rand_slice1(rng, shape[ax]))
        if k < nd and rng.random() < 0.3:
            parts.insert(rng.randint(0, len(parts)), Ellipsis)
        return Index(name, tuple(parts), 'tuple')
    if t < 0.85:
        n = shape[0]
        m = rng.randint(1, n)
        perm = list(range(-n, 0)) if rng.random() < 0.2 else list(range(n))
        rng.shuffle(perm)
        arr = np.array(perm[:m], dtype=int)
        if nd >= 2 and rng.random() < 0.4:
            if rng.random() < 0.5:
                return Index(name, (arr, rand_slice1(rng, shape[1])), 'intarray-tuple')
            n1 = shape[1]
            p1 = list(range(n1))
            rng.shuffle(p1)
            return Index(name, (slice(None), np.array(p1[:rng.randint(1, n1)], dtype=int)), 'intarray-tuple')
        return Index(name, arr, 'intarray')
    if t < 0.93:
        return Index(name, rng.randrange(-shape[0], shape[0]), 'int')
    return Index(name, tuple(rng.randrange(-s, s) for s in shape), 'int-full')


# ----------------------------------------------------------------------------- one sequence on the real objects
class Seq:
    def __init__(self, pym):
        self.pym = pym
        self.vars = [None] * NVARS
        self.roots = []
        self.indices = []          # Index objects (shared dictionary)
        self.watch = []            # (root, [index ids innermost-last as in python: base[a][b] -> [a, b]])
        self.ops = []              # coq text of ops
        self.expected = []         # coq text
        self.json_ops = []
        self.slice_cache = {}
        self.kinds = []
        self.prev = []
        self.full_expected = []

    # the signal object for (root, path)
    def sig(self, i, path):
        key = (i, tuple(path))
        if key not in self.slice_cache:
            s = self.roots[i]
            for k in path:
                s = s[self.indices[k].obj]
            self.slice_cache[key] = s
        return self.slice_cache[key]

    def register_chain(self, i, path):
        """make sure every (index, parent shape) numpy will meet on this path has a table entry"""
        for attr in ('state', 'sensitivity'):
            v = getattr(self.roots[i], attr)
            for k in path:
                if not is_arr(v):
                    break
                idx, kind, rs = self.indices[k].info(v.shape)
                if kind in ('KBad', 'KScalar'):
                    break
                v = np.empty(rs)

    def coq_path(self, path):
        return '[' + '; '.join(f'x{k}' for k in reversed(path)) + ']'

    def observe(self):
        allv = list(self.vars)
        vals = [obs_val(x) for x in allv]
        extra = allv
        for (i, path) in self.watch:
            if i >= len(self.roots):        # signal not created yet (prologue): the model reads a default root
                vals += [[0], [0]]
                extra += [None, None]
                continue
            self.register_chain(i, path)
            s = self.sig(i, path)
            for attr in ('state', 'sensitivity'):
                try:
                    x = getattr(s, attr)
                    vals.append(obs_val(x))
                    extra.append(x)
                except Exception as e:
                    vals.append([9, errcode(e)])
                    extra.append(None)
        for r in self.roots:
            for x in (r.state, r.sensitivity):
                vals.append(obs_val(x))
                allv.append(x)
        mask, bit = 0, 1
        for a in range(len(allv)):
            for b in range(a + 1, len(allv)):
                if overlap(allv[a], allv[b]):
                    mask |= bit
                bit <<= 1
        return vals, mask

    def do(self, kind, coq, fn, js):
        try:
            fn()
            code = 0
        except Exception as e:
            code = errcode(e)
        vals, share = self.observe()
        self.ops.append(coq)
        self.json_ops.append(js)
        self.kinds.append((kind, code))
        diffs = [(k, v) for k, v in enumerate(vals) if k >= len(self.prev) or self.prev[k] != v]
        assert len(vals) >= len(self.prev)
        self.prev = vals
        self.expected.append(f'({code}, [' + '; '.join(f'({k}%nat, {zl(v)})' for k, v in diffs) + f'], {share})')
        self.full_expected.append((code, vals, share))
        return code

    # ---- operations
    def new_arr(self, k, data, cx, shape):
        arr = np.array([complex(a, b) for a, b in data] if cx else [a for a, _ in data],
                       dtype=complex if cx else np.int64).reshape(shape)

        def f():
            self.vars[k] = arr
        return self.do('NewArr', f'ONewArr {k} {cl(data)} {blit(cx)} {zl(list(shape))}', f,
                       dict(op='NewArr', k=k, data=data, cx=cx, shape=list(shape)))

    def new_scal(self, k, c, cx, flavour):
        if cx:
            val = complex(*c) if flavour == 0 else np.complex128(complex(*c))
        else:
            val = int(c[0]) if flavour == 0 else np.int64(c[0])

        def f():
            self.vars[k] = val
        return self.do('NewScal', f'ONewScal {k} ({zlit(c[0])}, {zlit(c[1])}) {blit(cx)} {blit(flavour == 1)}', f,
                       dict(op='NewScal', k=k, c=list(c), cx=cx, flavour=flavour))

    def new_none(self, k):
        def f():
            self.vars[k] = None
        return self.do('NewNone', f'ONewNone {k}', f, dict(op='NewNone', k=k))

    def slice_var(self, k, v, ix):
        x = self.vars[v]
        if is_arr(x):
            self.indices[ix].info(x.shape)

        def f():
            self.vars[k] = self.vars[v][self.indices[ix].obj]
        return self.do('SliceVar', f'OSliceVar {k} {v} x{ix}', f, dict(op='SliceVar', k=k, v=v, ix=ix))

    def mut(self, v, data):
        x = self.vars[v]

        def f():
            cx = np.iscomplexobj(x)
            new = np.array([complex(a, b) for a, b in data] if cx else [a for a, _ in data])
            x[...] = new.reshape(np.shape(x))
        return self.do('Mut', f'OMut {v} {cl(data)}', f, dict(op='Mut', v=v, data=data))

    def new_sig(self, a, b):
        def f():
            self.roots.append(self.pym.Signal(f's{len(self.roots)}', state=self.vars[a], sensitivity=self.vars[b]))
        return self.do('NewSig', f'ONewSig {a} {b}', f, dict(op='NewSig', vst=a, vse=b))

    def sigop(self, kind, i, path, arg):
        self.register_chain(i, path)
        s = self.sig(i, path)
        p = self.coq_path(path)
        if kind == 'SetState':
            def f():
                s.state = self.vars[arg]
            coq = f'OSetState {i} {p} {arg}'
        elif kind == 'SetSens':
            def f():
                s.sensitivity = self.vars[arg]
            coq = f'OSetSens {i} {p} {arg}'
        elif kind == 'GetState':
            def f():
                self.vars[arg] = s.state
            coq = f'OGetState {arg} {i} {p}'
        elif kind == 'GetSens':
            def f():
                self.vars[arg] = s.sensitivity
            coq = f'OGetSens {arg} {i} {p}'
        elif kind == 'AddSens':
            def f():
                s.add_sensitivity(self.vars[arg])
            coq = f'OAddSens {i} {p} {arg}'
        elif kind == 'Reset':
            def f():
                if arg is None:
                    s.reset()
                else:
                    s.reset(arg)          # positional, as Module.reset / user code may call it
            coq = f'OReset {i} {p} {"None" if arg is None else "(Some " + blit(arg) + ")"}'
        else:
            raise AssertionError(kind)
        code = self.do(kind, coq, f, dict(op=kind, i=i, path=list(path), arg=arg))
        self.register_chain(i, path)
        return code

    # ---- coq text of the whole case
    def coq_case(self):
        lets = ''.join(f'let x{k} : slc := {ix.coq()} in ' for k, ix in enumerate(self.indices))
        ws = '[' + '; '.join(f'({i}%nat, {self.coq_path(path)})' for i, path in self.watch) + ']'
        ops = '[' + ';\n    '.join(self.ops) + ']'
        ex = '[' + ';\n    '.join(self.expected) + ']'
        return f'{lets}\n   check_trace {ws} (world0 {NVARS}) [] {ops}\n   {ex}'

    def coq_first_bad(self):
        lets = ''.join(f'let x{k} : slc := {ix.coq()} in ' for k, ix in enumerate(self.indices))
        ws = '[' + '; '.join(f'({i}%nat, {self.coq_path(path)})' for i, path in self.watch) + ']'
        ops = '[' + ';\n    '.join(self.ops) + ']'
        ex = '[' + ';\n    '.join(self.expected) + ']'
        return f'{lets}\n   first_bad {ws} (world0 {NVARS}) [] {ops}\n   {ex} 0%nat'


def replay_json(pym, prog):
    """run a corpus / replay program (list of json ops + index objects + watch list)"""
    sq = Seq(pym)
    sq.indices = [index_from_json(f'x{k}', j) for k, j in enumerate(prog['indices'])]
    sq.watch = [(int(i), list(p)) for i, p in prog.get('watch', [])]
    for o in prog['ops']:
        k = o['op']
        if k == 'NewArr':
            sq.new_arr(o['k'], [tuple(c) for c in o['data']], o['cx'], tuple(o['shape']))
        elif k == 'NewScal':
            sq.new_scal(o['k'], tuple(o['c']), o['cx'], o.get('flavour', 0))
        elif k == 'NewNone':
            sq.new_none(o['k'])
        elif k == 'SliceVar':
            sq.slice_var(o['k'], o['v'], o['ix'])
        elif k == 'Mut':
            sq.mut(o['v'], [tuple(c) for c in o['data']])
        elif k == 'NewSig':
            sq.new_sig(o['vst'], o['vse'])
        else:
            sq.sigop(k, o['i'], o['path'], o['arg'])
    return sq


# ----------------------------------------------------------------------------- random generation
def rand_shape(rng):
    nd = rng.choice((1, 1, 2, 2, 3))
    while True:
        shp = tuple(rng.randint(1, 4) for _ in range(nd))
        if int(np.prod(shp)) <= 12:
            return shp


def rand_data(rng, n, cx):
    return [(rng.randint(-9, 9), rng.randint(-9, 9) if cx else 0) for _ in range(n)]


def target_info(sq, kind, i, path, x):
    """(target, is_int_target) the array/scalar an assignment of x will land in, to steer generation away from
    numpy behaviours outside the model (general broadcasting, silent complex->int truncation)"""
    s = sq.sig(i, path)
    try:
        if kind == 'SetState':
            tgt = s.state if path else None
        elif kind == 'SetSens':
            if not path:
                tgt = None
            else:
                tgt = s.sensitivity
                if tgt is None:
                    tgt = s.state
        else:  # AddSens
            tgt = s.sensitivity
            if tgt is None:
                tgt = s.state if path else None
    except Exception:
        return 'err'
    return tgt


def admissible(sq, kind, i, path, x):
    tgt = target_info(sq, kind, i, path, x)
    if isinstance(tgt, str):
        # getter raises (bad index somewhere on the path): numpy's order of index / value checks is not modelled
        return kind == 'AddSens' or (isinstance(x, (int, np.integer)) and not isinstance(x, bool))
    if tgt is None:
        return True
    if x is None:
        # None assigned into an inexact array becomes nan (outside the integer-valued model)
        return not (kind == 'SetState' and path and np.iscomplexobj(tgt))
    # silent truncation of numpy complex objects into integer arrays is outside the model
    x_np_complex = np.iscomplexobj(x) and isinstance(x, (np.generic, np.ndarray))
    if x_np_complex and not np.iscomplexobj(tgt) and kind != 'AddSens':
        return False
    if kind == 'AddSens' and path and np.iscomplexobj(x) and not np.iscomplexobj(tgt) and not is_arr(tgt):
        return False   # int scalar slot + complex -> numpy complex scalar -> silently truncated on assignment
    if is_arr(x) and x.ndim >= 1 and not is_arr(tgt) and path:
        return False       # array into a scalar slot: ValueError or TypeError depending on dtype (not modelled)
    if is_arr(x) and x.ndim >= 1 and is_arr(tgt) and x.shape != tgt.shape:
        # general broadcasting (numpy accepts unequal shapes) is not modelled: try on dummies
        try:
            d = np.zeros(tgt.shape)
            if kind == 'AddSens':
                d += np.zeros(x.shape)
            else:
                d[...] = np.zeros(x.shape)
            return False
        except ValueError:
            pass
    return True


def gen_sequence(ctx, pym, rng, nops, malformed):
    sq = Seq(pym)
    cxfam = rng.random() < 0.35                   # complex family
    shapes = [rand_shape(rng)]
    if rng.random() < 0.4:
        shapes.append(rand_shape(rng))
    if rng.random() < 0.08:
        shapes.append(())
    # index dictionary: 3..5 objects made for the pool shapes and for results of earlier ones (nesting)
    nidx = rng.randint(3, 5)
    res_shapes = []
    for k in range(nidx):
        pool = [s for s in shapes if len(s) >= 1] + [s for s in res_shapes if len(s) >= 1 and int(np.prod(s)) >= 1]
        shp = rng.choice(pool)
        ix = rand_index(rng, shp, f'x{k}', malformed and rng.random() < 0.3)
        sq.indices.append(ix)
        inf = ix.info(shp)
        if inf[1] in ('KView', 'KCopy'):
            res_shapes.append(inf[2])
        ctx.count('index:' + ix.desc)

    def fit_paths(shape, depth):
        """paths (lists of index ids, python order) that numpy accepts on an array of this shape"""
        out = [[]]
        frontier = [([], shape)]
        for _ in range(depth):
            nxt = []
            for p, shp in frontier:
                for k, ix in enumerate(sq.indices):
                    idx, kind, rs = ix.info(shp)
                    if kind == 'KBad' and not malformed:
                        continue
                    out.append(p + [k])
                    if kind in ('KView', 'KCopy') and len(rs) >= 1:
                        nxt.append((p + [k], rs))
            frontier = nxt
        return out

    def cur_shape(i):
        st = sq.roots[i].state
        return st.shape if is_arr(st) else None

    def pick_path(i):
        shp = cur_shape(i)
        if shp is None or len(shp) == 0:
            return rng.choice([[], [], [rng.randrange(len(sq.indices))]]) if malformed else []
        t = rng.random()
        depth = 0 if t < 0.3 else 1 if t < 0.7 else 2 if t < 0.93 else 3
        cands = [p for p in fit_paths(shp, depth) if len(p) == depth] or [[]]
        return rng.choice(cands)

    def free_slot():
        return rng.randrange(NVARS)

    def make_fitting(shape, scalar_ok=True):
        """emit an op that puts a value of the given shape into a slot; returns the slot"""
        k = free_slot()
        cx = cxfam and rng.random() < 0.8
        if shape is None or (scalar_ok and rng.random() < 0.15):
            sq.new_scal(k, (rng.randint(-9, 9), rng.randint(-9, 9) if cx else 0), cx, rng.randrange(2))
        else:
            n = int(np.prod(shape)) if len(shape) else 1
            sq.new_arr(k, rand_data(rng, n, cx), cx, tuple(shape))
        return k

    def value_shape_for(kind, i, path):
        s = sq.sig(i, path)
        try:
            if kind == 'SetState':
                v = s.state if path else sq.roots[i].state
            else:
                v = s.sensitivity
                if v is None:
                    v = s.state
            if is_arr(v):
                return v.shape
            if v is None and not path:
                return rng.choice(shapes)
            return None
        except Exception:
            return None

    # ---- prologue: a few arrays and signals
    nroots = rng.randint(1, 3)
    for r in range(nroots):
        shp = rng.choice(shapes)
        t = rng.random()
        if t < 0.8:
            a = make_fitting(shp, scalar_ok=False)
        elif t < 0.9:
            a = make_fitting(None)
        else:
            a = free_slot()
            sq.new_none(a)
        if rng.random() < 0.15:
            b = make_fitting(shp, scalar_ok=True)
            while b == a:
                b = make_fitting(shp, scalar_ok=True)
        else:
            b = free_slot()
            while b == a:
                b = free_slot()
            sq.new_none(b)
        sq.new_sig(a, b)
    # watch list
    for _ in range(rng.randint(1, 4)):
        i = rng.randrange(len(sq.roots))
        p = pick_path(i)
        if p and (i, p) not in sq.watch:
            sq.watch.append((i, p))
    # the first observation entries were produced before the watch list existed: regenerate prologue observations
    # (simplest: restart the sequence with the final watch list)
    prologue = list(sq.json_ops)
    watch = list(sq.watch)
    prog = dict(indices=[ix.jsonable() for ix in sq.indices], watch=watch, ops=prologue)
    sq = replay_json(pym, prog)

    guard = 0
    while len(sq.ops) < nops and guard < 10 * nops:
        guard += 1
        t = rng.random()
        i = rng.randrange(len(sq.roots))
        if t < 0.30:
            kind = 'AddSens'
        elif t < 0.42:
            kind = 'Reset'
        elif t < 0.54:
            kind = 'SetState'
        elif t < 0.61:
            kind = 'SetSens'
        elif t < 0.66:
            kind = 'GetState'
        elif t < 0.71:
            kind = 'GetSens'
        elif t < 0.80:
            kind = 'Mut'
        elif t < 0.86:
            kind = 'NewArr'
        elif t < 0.90:
            kind = 'SliceVar'
        elif t < 0.93:
            kind = 'NewScal'
        elif t < 0.95:
            kind = 'NewNone'
        elif t < 0.97 and len(sq.roots) < 4:
            kind = 'NewSig'
        else:
            kind = 'AddSens'
        if kind in ('AddSens', 'SetState', 'SetSens'):
            path = pick_path(i)
            if rng.random() < (0.5 if malformed else 0.88):
                shp = value_shape_for(kind, i, path)
                fits = [k for k, x in enumerate(sq.vars) if (is_arr(x) and shp is not None and x.shape == tuple(shp))]
                if fits and rng.random() < 0.5:
                    v = rng.choice(fits)
                else:
                    v = make_fitting(shp)
            else:
                v = rng.randrange(NVARS)
            if not admissible(sq, kind, i, path, sq.vars[v]):
                ctx.count('skipped:outside-model')
                continue
            sq.sigop(kind, i, path, v)
        elif kind == 'Reset':
            sq.sigop('Reset', i, pick_path(i), rng.choice((None, None, True, False)))
        elif kind in ('GetState', 'GetSens'):
            sq.sigop(kind, i, pick_path(i), free_slot())
        elif kind == 'Mut':
            cands = [k for k, x in enumerate(sq.vars) if is_arr(x)]
            if not cands:
                if not malformed:
                    continue
                cands = list(range(NVARS))
            v = rng.choice(cands)
            x = sq.vars[v]
            if is_arr(x):
                sq.mut(v, rand_data(rng, x.size, np.iscomplexobj(x)))
            else:
                sq.mut(v, rand_data(rng, 1, False))
        elif kind == 'NewArr':
            make_fitting(rng.choice(shapes + res_shapes), scalar_ok=False)
        elif kind == 'NewScal':
            make_fitting(None)
        elif kind == 'NewNone':
            sq.new_none(free_slot())
        elif kind == 'SliceVar':
            cands = [k for k, x in enumerate(sq.vars) if is_arr(x) and x.ndim >= 1]
            if not cands:
                continue
            v = rng.choice(cands)
            ok = [k for k, ix in enumerate(sq.indices) if malformed or ix.info(sq.vars[v].shape)[1] != 'KBad']
            if not ok:
                continue
            sq.slice_var(free_slot(), v, rng.choice(ok))
        elif kind == 'NewSig':
            a, b = rng.randrange(NVARS), rng.randrange(NVARS)
            if rng.random() < 0.8:
                b = free_slot()
                sq.new_none(b)
            if a != b or sq.vars[a] is None:
                sq.new_sig(a, b)
    return sq


# ----------------------------------------------------------------------------- numpy index oracle validation
def validate_index_tables(ctx, seqs):
    rng = np.random.default_rng(ctx.seed)
    n = 0
    bad = []
    for sq in seqs:
        for ix in sq.indices:
            for shp, (idx, kind, rs) in ix.table.items():
                n += 1
                B = rng.integers(-50, 50, size=shp)
                flat = B.ravel().copy()
                if kind == 'KBad':
                    try:
                        B[ix.obj]
                        bad.append((ix.jsonable(), shp, 'no IndexError'))
                    except IndexError:
                        pass
                    continue
                R = B[ix.obj]
                if kind == 'KScalar':
                    if is_arr(R) or int(R) != flat[idx[0]]:
                        bad.append((ix.jsonable(), shp, 'scalar'))
                    continue
                if not is_arr(R) or R.shape != rs or R.ravel().tolist() != flat[idx].tolist():
                    bad.append((ix.jsonable(), shp, 'gather'))
                if R.size and (np.shares_memory(R, B) != (kind == 'KView')):
                    bad.append((ix.jsonable(), shp, 'view flag'))
                V = rng.integers(100, 200, size=rs)
                B2 = B.copy()
                B2[ix.obj] = V
                exp = flat.copy()
                exp[idx] = V.ravel()
                if B2.ravel().tolist() != exp.tolist():
                    bad.append((ix.jsonable(), shp, 'scatter'))
    ctx.oracle_validation['numpy_index_semantics(idx, view/copy/scalar/IndexError, result shape)'] = n
    for b in bad[:5]:
        ctx.violation('correspondence', 'harness', 'numpy index table valid', 'index oracle', dict(entry=str(b)))


# ----------------------------------------------------------------------------- main
def run(ctx):
    import pymoto as pym
    ctx.rule = ('random operation sequences (<= 40 ops after a prologue) on real Signal/SignalSlice objects; values: python '
                'int/complex, numpy scalars, int64/complex128 arrays of rank 0..3 with integer / Gaussian-integer entries; '
                'index objects: basic slices, tuples of slices/ints/Ellipsis, repeat-free integer arrays, integers, nested '
                'up to depth 3; ~85% structured sequences, ~15% malformed (wrong shapes, None/scalar states under slices, '
                'out-of-range indices, complex into int); after EVERY op: outcome class, all states/sensitivities/variables/'
                'watched slice getters and the np.shares_memory relation are compared in Coq. A sequence is non-trivial '
                'when it contains an add_sensitivity or an assignment through a slice; distinct by op text')
    ctx.assumptions += ['numpy index semantics is an oracle (table of selected positions, view/copy/scalar/IndexError per '
                        '(index object, parent shape)), validated on independent data each run',
                        'general numpy broadcasting (unequal but broadcastable shapes) and silent complex->int truncation on '
                        'item assignment are outside the model and not generated (counted as skipped:outside-model)',
                        'custom sensitivity objects with their own add_sensitivity method are not modelled']
    ctx.trusted += ['Print Assumptions: all C18 theorems are closed under the global context (Z / list developments)',
                    'modelled rather than verified: CPython attribute/property protocol (augmented assignment through a '
                    'property = get, __iadd__, set), copy.deepcopy of ndarrays, numpy in-place add / item assignment with '
                    'overlapping operands read-before-write (validated by correspondence)']
    # Signal.__init__ records its creation site with inspect.stack() (error-message text only, ~5 ms per object);
    # replaced from outside by a constant, nothing the property speaks about depends on it
    pym.core_objects.get_init_str = lambda: 'File "verif", line 0, in harness'
    vlib.audit(ctx)
    if not vlib.ensure_static(ctx):
        return
    vlib.check_props(ctx)

    rng = ctx.rng
    seqs, labels = [], []
    # corpus first
    for f in sorted(glob.glob(os.path.join(vlib.ROOT, 'corpus', 'C18', '*.json'))):
        prog = json.load(open(f))
        sq = replay_json(pym, prog)
        seqs.append(sq)
        labels.append(('corpus', os.path.basename(f)))
        ctx.count('corpus')
    if getattr(ctx, 'replay', None):
        prog = json.load(open(ctx.replay))
        prog = prog.get('case', prog).get('program', prog.get('case', prog))
        sq = replay_json(pym, prog)
        seqs.append(sq)
        labels.append(('replay', ctx.replay))
    nseq = int(os.environ.get('C18_NSEQ', 700 if ctx.quick() else 10000))
    for t in range(nseq):
        malformed = rng.random() < 0.15
        nops = rng.randint(8, 40)
        sq = gen_sequence(ctx, pym, rng, nops, malformed)
        seqs.append(sq)
        labels.append(('random', t, 'malformed' if malformed else 'structured'))
        ctx.count('malformed' if malformed else 'structured')
    checks = []
    for sq, lab in zip(seqs, labels):
        nontrivial = any(k in ('AddSens',) or (k in ('SetState', 'SetSens')) for k, _ in sq.kinds)
        for k, code in sq.kinds:
            ctx.count('op:' + k)
            ctx.count('outcome:' + ERR[code])
        ctx.count('len:%d-%d' % (10 * (len(sq.ops) // 10), 10 * (len(sq.ops) // 10) + 9))
        checks.append(sq.coq_case())
        ctx.case(tuple(sq.ops), nontrivial, sample=dict(label=lab, nops=len(sq.ops), first_ops=sq.ops[:6]))
    validate_index_tables(ctx, seqs)
    failing, err = vlib.run_cases(ctx, 'sig', HEADER, checks, chunk=12 if ctx.quick() else 14, timeout=1200)
    ctx.obligation('correspondence:case files evaluated', 'correspondence', not err, err)
    if err:
        ctx.violation('correspondence', 'Signal/SignalSlice', 'case files compile', 'harness', dict(error=err[-3000:]),
                      theorem='cases_sig')
    for idx in failing[:10]:
        sq = seqs[idx]
        vals, e2 = vlib.eval_coq(ctx, f'bad{idx}', HEADER, [sq.coq_first_bad()])
        step, model = None, None
        if vals:
            import re
            m = re.search(r'Some\s*\((\d+)%nat\s*,(.*)', vals[0], re.S)
            if m:
                step, model = int(m.group(1)), m.group(2)[:3000]
        prog = dict(indices=[ix.jsonable() for ix in sq.indices], watch=[[i, p] for i, p in sq.watch],
                    ops=sq.json_ops[:(step + 1) if step is not None else None])
        ctx.violation('correspondence', 'Signal/SignalSlice', 'model == implementation after every operation',
                      sq.kinds[step][0] if step is not None else 'sequence',
                      dict(label=labels[idx], first_bad_step=step, op=sq.ops[step] if step is not None else None,
                           program=prog),
                      expected=dict(model=model), got=dict(implementation=str(sq.full_expected[step]) if step is not None else None),
                      note='Coq model and implementation differ at this step (program is truncated after it); '
                           'observation = (outcome, values of vars ++ watched getters ++ root state/sens, sharing mask)')
    oracle(ctx, pym, more=bool(failing) or not ctx.quick())


# ----------------------------------------------------------------------------- implementation-side property oracle
def oracle(ctx, pym, more=False):
    """the property text, stated on the implementation with plain numpy arrays"""
    rng = np.random.default_rng(ctx.seed + 1)
    prng = ctx.rng
    n = 1500 if not more else 8000

    def bad(pred, cls, case, expected=None, got=None):
        ctx.violation('impl-violates', 'Signal/SignalSlice', pred, cls, case, expected=expected, got=got)

    def one_case():
        shp = rand_shape(prng)
        cx = prng.random() < 0.3

        def rnd(shape):
            a = rng.integers(-9, 10, size=shape)
            return (a + 1j * rng.integers(-9, 10, size=shape)) if cx else a
        B = rnd(shp)
        # index path of nested BASIC indices optionally ending in an integer-array index
        path = []
        cur = np.arange(B.size).reshape(shp)
        depth = prng.choice((1, 1, 2, 3))
        for d in range(depth):
            if cur.ndim == 0 or cur.size == 0:
                break
            last = d == depth - 1
            while True:
                ix = rand_index(prng, cur.shape, 'o')
                inf = ix.info(cur.shape)
                if inf[1] == 'KView' or (last and inf[1] in ('KCopy', 'KScalar')):
                    break
            path.append(ix.obj)
            cur = cur[ix.obj]
        idx = np.atleast_1d(np.asarray(cur)).ravel()
        rshape = np.shape(cur)
        case = dict(shape=list(shp), complex=cx, base=str(B.tolist()), path=[str(p) for p in path])
        sig = pym.Signal('b', state=B.copy())
        other = pym.Signal('o', state=B.copy())
        s = sig
        for p in path:
            s = s[p]
        # -- reads
        got = s.state
        if np.asarray(got).ravel().tolist() != B.ravel()[idx].tolist() or np.shape(got) != rshape:
            bad('slice reads the corresponding entries of the base state', 'read', case, B.ravel()[idx].tolist(), str(got))
        if s.sensitivity is not None:
            bad('slice sensitivity is None while the base has none', 'read', case)
        # -- writes
        V = rnd(rshape)
        s.state = V
        exp = B.ravel().copy()
        exp[idx] = np.asarray(V).ravel()
        if sig.state.ravel().tolist() != exp.tolist() or sig.sensitivity is not None \
                or not np.array_equal(other.state, B) or other.sensitivity is not None:
            bad('slice writes exactly its entries of the base state and nothing else', 'write', case, exp.tolist(),
                sig.state.ravel().tolist())
        # -- add through the slice (base has no sensitivity: zero of base shape is created)
        ds = rnd(rshape)
        ds0 = copy.deepcopy(ds)
        s.add_sensitivity(ds)
        es = np.zeros(B.size, dtype=B.dtype)
        es[idx] += np.asarray(ds0).ravel()
        bs = sig.sensitivity
        if not is_arr(bs) or bs.shape != B.shape or bs.ravel().tolist() != es.tolist():
            bad('add through slice accumulates into exactly its entries of a zero sensitivity of base shape', 'add',
                case, es.tolist(), str(bs))
        ds2 = rnd(rshape)
        s.add_sensitivity(ds2)
        es[idx] += np.asarray(ds2).ravel()
        if sig.sensitivity.ravel().tolist() != es.tolist() or sig.state.ravel().tolist() != exp.tolist():
            bad('second add through slice accumulates', 'add', case, es.tolist(), str(sig.sensitivity))
        if is_arr(ds):
            ds[...] = 77
            ds2[...] = -77
            if sig.sensitivity.ravel().tolist() != es.tolist():
                bad('changing ds after add_sensitivity does not change the signal', 'alias', case)
        # -- reset of the slice clears only its entries
        full = rnd(shp)
        sig.sensitivity = full.copy()
        s.reset()
        er = full.ravel().copy()
        er[idx] = 0
        if sig.sensitivity.ravel().tolist() != er.tolist():
            bad('resetting a slice clears only its own entries', 'reset-slice', case, er.tolist(), str(sig.sensitivity))
        sig.sensitivity = None
        s.reset()
        if sig.sensitivity is not None:
            bad('resetting a slice of a base without sensitivity is a no-op', 'reset-slice', case)
        # -- root signals: no aliasing of the added object, same object to two signals
        a1, a2 = pym.Signal('a1'), pym.Signal('a2')
        d = rnd(shp)
        d0 = d.copy()
        a1.add_sensitivity(d)
        a2.add_sensitivity(d)
        if a1.sensitivity is d or a2.sensitivity is d or np.shares_memory(a1.sensitivity, d) \
                or np.shares_memory(a1.sensitivity, a2.sensitivity):
            bad('value passed to add_sensitivity is never aliased', 'alias', case)
        a1.add_sensitivity(d)
        if not np.array_equal(a2.sensitivity, d0) or not np.array_equal(a1.sensitivity, 2 * d0) or not np.array_equal(d, d0):
            bad('adding one object to two signals keeps them independent', 'alias', case)
        d[...] = 5
        if not np.array_equal(a2.sensitivity, d0) or not np.array_equal(a1.sensitivity, 2 * d0):
            bad('changing ds after add_sensitivity does not change the signal', 'alias', case)
        # -- reset with / without kept allocation
        obj = a1.sensitivity
        a1.reset(keep_alloc=True)
        if a1.sensitivity is not obj or np.any(obj != 0):
            bad('reset(keep_alloc=True) zeroes the same object in place', 'reset', case)
        a1.reset()
        if a1.sensitivity is not None:
            bad('reset() clears the sensitivity', 'reset', case)
        k = pym.Signal('k', state=B.copy(), sensitivity=full.copy())
        obj = k.sensitivity
        k.reset()
        if k.sensitivity is not obj or np.any(obj != 0):
            bad('a signal constructed with a sensitivity keeps (and zeroes) its allocation on reset()', 'reset', case)
        k.reset(False)
        if k.sensitivity is not None:
            bad('reset(False) clears the sensitivity', 'reset', case)
        # scalars
        sc = pym.Signal('sc')
        sc.add_sensitivity(3)
        sc.add_sensitivity(4)
        if sc.sensitivity != 7:
            bad('scalar sensitivities accumulate', 'scalar', case)
        sc.reset(True)
        if sc.sensitivity != 0:
            bad('scalar reset with kept allocation gives 0', 'scalar', case)

    for t in range(n):
        ctx.search_evaluations += 1
        try:
            one_case()
        except Exception as e:
            bad('protocol operations on well-formed slices do not raise', 'exception', dict(error=repr(e)[:300]))
    # sequence oracle: protocol operations against plain value-level arrays
    def one_seq():
        shp = rand_shape(prng)
        B = rng.integers(-9, 10, size=shp)
        sigs = [pym.Signal('p0', state=B.copy()), pym.Signal('p1', state=B.copy())]
        spec = [None, None]
        idxs = []
        for _ in range(3):
            while True:
                ix = rand_index(prng, shp, 'o')
                if ix.info(shp)[1] in ('KView', 'KCopy'):
                    break
            idxs.append(ix)
        pool = [rng.integers(-9, 10, size=shp) for _ in range(2)]
        hist = []
        for step in range(25):
            i = prng.randrange(2)
            c = prng.random()
            if c < 0.3:
                d = prng.choice(pool)
                hist.append(('add', i))
                sigs[i].add_sensitivity(d)
                spec[i] = d.copy() if spec[i] is None else spec[i] + d
            elif c < 0.6:
                ix = prng.choice(idxs)
                idx, kind, rs = ix.info(shp)
                d = rng.integers(-9, 10, size=rs)
                hist.append(('add-slice', i, str(ix.obj)))
                sigs[i][ix.obj].add_sensitivity(d)
                if spec[i] is None:
                    spec[i] = np.zeros(shp, dtype=B.dtype)
                f = spec[i].ravel().copy()
                f[idx] += d.ravel()
                spec[i] = f.reshape(shp)
                d[...] = 99
            elif c < 0.7:
                hist.append(('mutate-pool',))
                prng.choice(pool)[...] = rng.integers(-9, 10, size=shp)
            elif c < 0.8:
                hist.append(('reset', i))
                sigs[i].reset()
                spec[i] = None
            elif c < 0.9:
                ix = prng.choice(idxs)
                idx, kind, rs = ix.info(shp)
                hist.append(('reset-slice', i, str(ix.obj)))
                sigs[i][ix.obj].reset()
                if spec[i] is not None:
                    f = spec[i].ravel().copy()
                    f[idx] = 0
                    spec[i] = f.reshape(shp)
            else:
                hist.append(('state', i))
                sigs[i].state = prng.choice(pool)
            for j in range(2):
                g = sigs[j].sensitivity
                if (g is None) != (spec[j] is None) or (g is not None and not np.array_equal(g, spec[j])):
                    bad('sensitivities behave as independent plain arrays under add/reset/slicing', 'sequence',
                        dict(shape=list(shp), history=hist), str(spec[j]), str(g))
                    break


    for t in range(300 if not more else 2000):
        ctx.search_evaluations += 1
        try:
            one_seq()
        except Exception as e:
            bad('protocol operations on well-formed slices do not raise', 'exception', dict(error=repr(e)[:300]))


if __name__ == '__main__':
    vlib.main(run, 'C18')
