"""C18 — signals and slices alias state, isolate accumulations and reset cleanly.

(H) correspondence: random operation sequences on REAL pymoto Signal / SignalSlice objects; after every operation the
outcome (ok / exception class), every state / sensitivity / test-owned value and the np.shares_memory relation between
all live arrays are written into coq/gen/C18/cases_*.v and compared inside Coq with Model/Signal.v (exact, integer and
Gaussian-integer data).  numpy's index semantics is an oracle: for every (index object, parent shape) that occurs the
harness records which flat positions numpy selects and whether the result is a view, a copy, a scalar or an IndexError,
and validates that table on independent data.
Oracle: the property text stated on the implementation with plain numpy arrays (no model involved).
"""
import os, json, glob, copy
import numpy as np
import vlib
from vlib import zl, zlit, blit

HEADER = '''From Coq Require Import ZArith List Bool.
From Pymoto Require Import Base.Num Base.Cmp Model.Signal.
Import ListNotations.
Open Scope Z_scope.
Definition SI (ix : list nat) (k : kind) (shp : list Z) : sinfo := {| si_idx := ix; si_kind := k; si_shape := shp |}.
'''
NVARS = 6
ERR = {0: 'ok', 1: 'TypeError', 2: 'ValueError', 3: 'IndexError', 4: 'Other'}


# ----------------------------------------------------------------------------- encoding helpers
def errcode(e):
    if isinstance(e, TypeError):
        return 1
    if isinstance(e, ValueError):
        return 2
    if isinstance(e, IndexError):
        return 3
    return 4


def is_arr(x):
    return isinstance(x, np.ndarray)


def cpair(v):
    v = complex(v)
    assert v.real == int(v.real) and v.imag == int(v.imag), v
    return int(v.real), int(v.imag)


def obs_val(x):
    if x is None:
        return [0]
    if is_arr(x):
        cx = np.iscomplexobj(x)
        flat = x.ravel()
        data = []
        for v in flat.tolist():
            re, im = cpair(v)
            data += [re, im] if cx else [re]
            assert cx or im == 0
        return [2, int(cx), x.ndim] + list(x.shape) + data
    cx = np.iscomplexobj(x)
    re, im = cpair(x)
    return [1, int(cx), int(isinstance(x, np.generic)), re, im]


def overlap(a, b):
    return is_arr(a) and is_arr(b) and bool(np.shares_memory(a, b))


def natl(xs):
    return '[' + '; '.join(str(int(x)) for x in xs) + ']%nat'


def cl(cs):
    return '[' + '; '.join(f'({zlit(a)}, {zlit(b)})' for a, b in cs) + ']'


# ----------------------------------------------------------------------------- index objects (numpy is the oracle)
class Index:
    """a python index object + the table {parent shape: what numpy does}"""

    def __init__(self, name, obj, desc):
        self.name, self.obj, self.desc = name, obj, desc
        self.table = {}

    def info(self, shape):
        shape = tuple(int(s) for s in shape)
        if shape in self.table:
            return self.table[shape]
        size = int(np.prod(shape)) if len(shape) else 1
        A = np.arange(size).reshape(shape)
        try:
            R = A[self.obj]
        except IndexError:
            inf = ([], 'KBad', ())
        else:
            if is_arr(R):
                idx = [int(v) for v in R.ravel()]
                kind = 'KView' if (R.size > 0 and np.shares_memory(R, A)) else 'KCopy'
                inf = (idx, kind, tuple(R.shape))
            else:
                inf = ([int(R)], 'KScalar', ())
            assert len(set(inf[0])) == len(inf[0]), 'index with repeats generated'
        self.table[shape] = inf
        return inf

    def coq(self):
        ents = [f'({zl(list(shp))}, SI {natl(idx)} {kind} {zl(list(rs))})' for shp, (idx, kind, rs) in self.table.items()]
        return '[' + '; '.join(ents) + ']'

    def jsonable(self):
        o = self.obj

        def enc(x):
            if isinstance(x, tuple):
                return {'tuple': [enc(y) for y in x]}
            if isinstance(x, slice):
                return {'slice': [x.start, x.stop, x.step]}
            if x is Ellipsis:
                return 'ellipsis'
            if is_arr(x):
                return {'intarray': x.tolist()}
            return {'int': int(x)}
        return enc(o)


def index_from_json(name, j):
    def dec(x):
        if x == 'ellipsis':
            return Ellipsis
        if 'tuple' in x:
            return tuple(dec(y) for y in x['tuple'])
        if 'slice' in x:
            return slice(*x['slice'])
        if 'intarray' in x:
            return np.array(x['intarray'], dtype=int)
        return int(x['int'])
    return Index(name, dec(j), 'corpus')


def rand_slice1(rng, n):
    """a basic slice for an axis of length n (possibly negative bounds / steps, possibly empty)"""
    t = rng.random()
    if t < 0.15:
        return slice(None)
    if t < 0.3:
        return slice(None, None, rng.choice((2, -1, -2, 3)))
    a = rng.randint(-n, n)
    b = rng.randint(-n, n + 1)
    st = rng.choice((None, 1, 1, 2, -1))
    if st is not None and st < 0 and rng.random() < 0.7 and a < b:
        a, b = b, a
    return slice(a if rng.random() < 0.8 else None, b if rng.random() < 0.8 else None, st)


def rand_index(rng, shape, name, malformed=False):
    """index object for an array of the given shape; kinds: basic slice, tuple of slices (and ints / Ellipsis),
    repeat-free integer array (first axis or inside a tuple), integer"""
    nd = len(shape)
    t = rng.random()
    if malformed and t < 0.5:
        # out of range / too many indices
        c = rng.random()
        if c < 0.4:
            return Index(name, int(shape[0]) + rng.randint(0, 2), 'bad-int')
        if c < 0.7:
            return Index(name, tuple([slice(None)] * (nd + 1)), 'bad-too-many')
        return Index(name, np.array([0, int(shape[0]) + 1]), 'bad-intarray')
    if t < 0.3:
        return Index(name, rand_slice1(rng, shape[0]), 'basic')
    if t < 0.6:
        parts = []
        k = rng.randint(1, nd)
        for ax in range(k):
            if rng.random() < 0.2:
                parts.append(rng.randrange(-shape[ax], shape[ax]))
            else:
                parts.append(rand_slice1(rng, shape[ax]))
        if k < nd and rng.random() < 0.3:
            parts.insert(rng.randint(0, len(parts)), Ellipsis)
        return Index(name, tuple(parts), 'tuple')
    if t < 0.85:
        n = shape[0]
        m = rng.randint(1, n)
        perm = list(range(-n, 0)) if rng.random() < 0.2 else list(range(n))
        rng.shuffle(perm)
        arr = np.array(perm[:m], dtype=int)
        if nd >= 2 and rng.random() < 0.4:
            if rng.random() < 0.5:
                return Index(name, (arr, rand_slice1(rng, shape[1])), 'intarray-tuple')
            n1 = shape[1]
            p1 = list(range(n1))
            rng.shuffle(p1)
            return Index(name, (slice(None), np.array(p1[:rng.randint(1, n1)], dtype=int)), 'intarray-tuple')
        return Index(name, arr, 'intarray')
    if t < 0.93:
        return Index(name, rng.randrange(-shape[0], shape[0]), 'int')
    return Index(name, tuple(rng.randrange(-s, s) for s in shape), 'int-full')


# ----------------------------------------------------------------------------- one sequence on the real objects
class Seq:
    def __init__(self, pym):
        self.pym = pym
        self.vars = [None] * NVARS
        self.roots = []
        self.indices = []          # Index objects (shared dictionary)
        self.watch = []            # (root, [index ids innermost-last as in python: base[a][b] -> [a, b]])
        self.ops = []              # coq text of ops
        self.expected = []         # coq text
        self.json_ops = []
        self.slice_cache = {}
        self.kinds = []
        self.prev = []
        self.full_expected = []

    # the signal object for (root, path)
    def sig(self, i, path):
        key = (i, tuple(path))
        if key not in self.slice_cache:
            s = self.roots[i]
            for k in path:
                s = s[self.indices[k].obj]
            self.slice_cache[key] = s
        return self.slice_cache[key]

    def register_chain(self, i, path):
        """make sure every (index, parent shape) numpy will meet on this path has a table entry"""
        for attr in ('state', 'sensitivity'):
            v = getattr(self.roots[i], attr)
            for k in path:
                if not is_arr(v):
                    break
                idx, kind, rs = self.indices[k].info(v.shape)
                if kind in ('KBad', 'KScalar'):
                    break
                v = np.empty(rs)

    def coq_path(self, path):
        return '[' + '; '.join(f'x{k}' for k in reversed(path)) + ']'

    def observe(self):
        allv = list(self.vars)
        vals = [obs_val(x) for x in allv]
        extra = allv
        for (i, path) in self.watch:
            if i >= len(self.roots):        # signal not created yet (prologue): the model reads a default root
                vals += [[0], [0]]
                extra += [None, None]
                continue
            self.register_chain(i, path)
            s = self.sig(i, path)
            for attr in ('state', 'sensitivity'):
                try:
                    x = getattr(s, attr)
                    vals.append(obs_val(x))
                    extra.append(x)
                except Exception as e:
                    vals.append([9, errcode(e)])
                    extra.append(None)
        for r in self.roots:
            for x in (r.state, r.sensitivity):
                vals.append(obs_val(x))
                allv.append(x)
        mask, bit = 0, 1
        for a in range(len(allv)):
            for b in range(a + 1, len(allv)):
                if overlap(allv[a], allv[b]):
                    mask |= bit
                bit <<= 1
        return vals, mask

    def do(self, kind, coq, fn, js):
        try:
            fn()
            code = 0
        except Exception as e:
            code = errcode(e)
        vals, share = self.observe()
        self.ops.append(coq)
        self.json_ops.append(js)
        self.kinds.append((kind, code))
        diffs = [(k, v) for k, v in enumerate(vals) if k >= len(self.prev) or self.prev[k] != v]
        assert len(vals) >= len(self.prev)
        self.prev = vals
        self.expected.append(f'({code}, [' + '; '.join(f'({k}%nat, {zl(v)})' for k, v in diffs) + f'], {share})')
        self.full_expected.append((code, vals, share))
        return code

    # ---- operations
    def new_arr(self, k, data, cx, shape):
        arr = np.array([complex(a, b) for a, b in data] if cx else [a for a, _ in data],
                       dtype=complex if cx else np.int64).reshape(shape)

        def f():
            self.vars[k] = arr
        return self.do('NewArr', f'ONewArr {k} {cl(data)} {blit(cx)} {zl(list(shape))}', f,
                       dict(op='NewArr', k=k, data=data, cx=cx, shape=list(shape)))

    def new_scal(self, k, c, cx, flavour):
        if cx:
            val = complex(*c) if flavour == 0 else np.complex128(complex(*c))
        else:
            val = int(c[0]) if flavour == 0 else np.int64(c[0])

        def f():
            self.vars[k] = val
        return self.do('NewScal', f'ONewScal {k} ({zlit(c[0])}, {zlit(c[1])}) {blit(cx)} {blit(flavour == 1)}', f,
                       dict(op='NewScal', k=k, c=list(c), cx=cx, flavour=flavour))

    def new_none(self, k):
        def f():
            self.vars[k] = None
        return self.do('NewNone', f'ONewNone {k}', f, dict(op='NewNone', k=k))

    def slice_var(self, k, v, ix):
        x = self.vars[v]
        if is_arr(x):
            self.indices[ix].info(x.shape)

        def f():
            self.vars[k] = self.vars[v][self.indices[ix].obj]
        return self.do('SliceVar', f'OSliceVar {k} {v} x{ix}', f, dict(op='SliceVar', k=k, v=v, ix=ix))

    def mut(self, v, data):
        x = self.vars[v]

        def f():
            cx = np.iscomplexobj(x)
            new = np.array([complex(a, b) for a, b in data] if cx else [a for a, _ in data])
            x[...] = new.reshape(np.shape(x))
        return self.do('Mut', f'OMut {v} {cl(data)}', f, dict(op='Mut', v=v, data=data))

    def new_sig(self, a, b):
        def f():
            self.roots.append(self.pym.Signal(f's{len(self.roots)}', state=self.vars[a], sensitivity=self.vars[b]))
        return self.do('NewSig', f'ONewSig {a} {b}', f, dict(op='NewSig', vst=a, vse=b))

    def sigop(self, kind, i, path, arg):
        self.register_chain(i, path)
        s = self.sig(i, path)
        p = self.coq_path(path)
        if kind == 'SetState':
            def f():
                s.state = self.vars[arg]
            coq = f'OSetState {i} {p} {arg}'
        elif kind == 'SetSens':
            def f():
                s.sensitivity = self.vars[arg]
            coq = f'OSetSens {i} {p} {arg}'
        elif kind == 'GetState':
            def f():
                self.vars[arg] = s.state
            coq = f'OGetState {arg} {i} {p}'
        elif kind == 'GetSens':
            def f():
                self.vars[arg] = s.sensitivity
            coq = f'OGetSens {arg} {i} {p}'
        elif kind == 'AddSens':
            def f():
                s.add_sensitivity(self.vars[arg])
            coq = f'OAddSens {i} {p} {arg}'
        elif kind == 'Reset':
            def f():
                if arg is None:
                    s.reset()
                else:
                    s.reset(arg)          # positional, as Module.reset / user code may call it
            coq = f'OReset {i} {p} {"None" if arg is None else "(Some " + blit(arg) + ")"}'
        else:
            raise AssertionError(kind)
        code = self.do(kind, coq, f, dict(op=kind, i=i, path=list(path), arg=arg))
        self.register_chain(i, path)
        return code

    # ---- coq text of the whole case
    def coq_case(self):
        lets = ''.join(f'let x{k} : slc := {ix.coq()} in ' for k, ix in enumerate(self.indices))
        ws = '[' + '; '.join(f'({i}%nat, {self.coq_path(path)})' for i, path in self.watch) + ']'
        ops = '[' + ';\n    '.join(self.ops) + ']'
        ex = '[' + ';\n    '.join(self.expected) + ']'
        return f'{lets}\n   check_trace {ws} (world0 {NVARS}) [] {ops}\n   {ex}'

    def coq_first_bad(self):
        lets = ''.join(f'let x{k} : slc := {ix.coq()} in ' for k, ix in enumerate(self.indices))
        ws = '[' + '; '.join(f'({i}%nat, {self.coq_path(path)})' for i, path in self.watch) + ']'
        ops = '[' + ';\n    '.join(self.ops) + ']'
        ex = '[' + ';\n    '.join(self.expected) + ']'
        return f'{lets}\n   first_bad {ws} (world0 {NVARS}) [] {ops}\n   {ex} 0%nat'


def replay_json(pym, prog):
    """run a corpus / replay program (list of json ops + index objects + watch list)"""
    sq = Seq(pym)
    sq.indices = [index_from_json(f'x{k}', j) for k, j in enumerate(prog['indices'])]
    sq.watch = [(int(i), list(p)) for i, p in prog.get('watch', [])]
    for o in prog['ops']:
        k = o['op']
        if k == 'NewArr':
            sq.new_arr(o['k'], [tuple(c) for c in o['data']], o['cx'], tuple(o['shape']))
        elif k == 'NewScal':
            sq.new_scal(o['k'], tuple(o['c']), o['cx'], o.get('flavour', 0))
        elif k == 'NewNone':
            sq.new_none(o['k'])
        elif k == 'SliceVar':
            sq.slice_var(o['k'], o['v'], o['ix'])
        elif k == 'Mut':
            sq.mut(o['v'], [tuple(c) for c in o['data']])
        elif k == 'NewSig':
            sq.new_sig(o['vst'], o['vse'])
        else:
            sq.sigop(k, o['i'], o['path'], o['arg'])
    return sq


# ----------------------------------------------------------------------------- random generation
def rand_shape(rng):
    nd = rng.choice((1, 1, 2, 2, 3))
    while True:
        shp = tuple(rng.randint(1, 4) for _ in range(nd))
        if int(np.prod(shp)) <= 12:
            return shp


def rand_data(rng, n, cx):
    return [(rng.randint(-9, 9), rng.randint(-9, 9) if cx else 0) for _ in range(n)]


def target_info(sq, kind, i, path, x):
    """(target, is_int_target) the array/scalar an assignment of x will land in, to steer generation away from
    numpy behaviours outside the model (general broadcasting, silent complex->int truncation)"""
    s = sq.sig(i, path)
    try:
        if kind == 'SetState':
            tgt = s.state if path else None
        elif kind == 'SetSens':
            if not path:
                tgt = None
            else:
                tgt = s.sensitivity
                if tgt is None:
                    tgt = s.state
        else:  # AddSens
            tgt = s.sensitivity
            if tgt is None:
                tgt = s.state if path else None
    except Exception:
        return 'err'
    return tgt


def admissible(sq, kind, i, path, x):
    tgt = target_info(sq, kind, i, path, x)
    if isinstance(tgt, str):
        # getter raises (bad index somewhere on the path): numpy's order of index / value checks is not modelled
        return kind == 'AddSens' or (isinstance(x, (int, np.integer)) and not isinstance(x, bool))
    if tgt is None:
        return True
    if x is None:
        # None assigned into an inexact array becomes nan (outside the integer-valued model)
        return not (kind == 'SetState' and path and np.iscomplexobj(tgt))
    # silent truncation of numpy complex objects into integer arrays is outside the model
    x_np_complex = np.iscomplexobj(x) and isinstance(x, (np.generic, np.ndarray))
    if x_np_complex and not np.iscomplexobj(tgt) and kind != 'AddSens':
        return False
    if kind == 'AddSens' and path and np.iscomplexobj(x) and not np.iscomplexobj(tgt) and not is_arr(tgt):
        return False   # int scalar slot + complex -> numpy complex scalar -> silently truncated on assignment
    if is_arr(x) and x.ndim >= 1 and not is_arr(tgt) and path:
        return False       # array into a scalar slot: ValueError or TypeError depending on dtype (not modelled)
    if kind == 'AddSens' and not path and is_arr(x) and x.ndim >= 1 and is_arr(tgt) and tgt.ndim >= 1 \
            and x.shape != tgt.shape and np.iscomplexobj(x) and not np.iscomplexobj(tgt):
        # promoting addition on a root signal (F37) is evaluated OUT of place, where numpy broadcasts more shapes
        # than in place, e.g. (2, 1) + (2,): general broadcasting is not modelled
        try:
            np.zeros(tgt.shape) + np.zeros(x.shape)
            return False
        except ValueError:
            pass
    if is_arr(x) and x.ndim >= 1 and is_arr(tgt) and x.shape != tgt.shape:
        # general broadcasting (numpy accepts unequal shapes) is not modelled: try on dummies
        try:
            d = np.zeros(tgt.shape)
            if kind == 'AddSens':
                d += np.zeros(x.shape)
            else:
                d[...] = np.zeros(x.shape)
            return False
        except ValueError:
            pass
    return True


def gen_sequence(ctx, pym, rng, nops, malformed):
    sq = Seq(pym)
    cxfam = rng.random() < 0.35                   # complex family
    shapes = [rand_shape(rng)]
    if rng.random() < 0.4:
        shapes.append(rand_shape(rng))
    if rng.random() < 0.08:
        shapes.append(())
    # index dictionary: 3..5 objects made for the pool shapes and for results of earlier ones (nesting)
    nidx = rng.randint(3, 5)
    res_shapes = []
    for k in range(nidx):
        pool = [s for s in shapes if len(s) >= 1] + [s for s in res_shapes if len(s) >= 1 and int(np.prod(s)) >= 1]
        shp = rng.choice(pool)
        ix = rand_index(rng, shp, f'x{k}', malformed and rng.random() < 0.3)
        sq.indices.append(ix)
        inf = ix.info(shp)
        if inf[1] in ('KView', 'KCopy'):
            res_shapes.append(inf[2])
        ctx.count('index:' + ix.desc)

    def fit_paths(shape, depth):
        """paths (lists of index ids, python order) that numpy accepts on an array of this shape"""
        out = [[]]
        frontier = [([], shape)]
        for _ in range(depth):
            nxt = []
            for p, shp in frontier:
                for k, ix in enumerate(sq.indices):
                    idx, kind, rs = ix.info(shp)
                    if kind == 'KBad' and not malformed:
                        continue
                    out.append(p + [k])
                    if kind in ('KView', 'KCopy') and len(rs) >= 1:
                        nxt.append((p + [k], rs))
            frontier = nxt
        return out

    def cur_shape(i):
        st = sq.roots[i].state
        return st.shape if is_arr(st) else None

    def pick_path(i):
        shp = cur_shape(i)
        if shp is None or len(shp) == 0:
            return rng.choice([[], [], [rng.randrange(len(sq.indices))]]) if malformed else []
        t = rng.random()
        depth = 0 if t < 0.3 else 1 if t < 0.7 else 2 if t < 0.93 else 3
        cands = [p for p in fit_paths(shp, depth) if len(p) == depth] or [[]]
        return rng.choice(cands)

    def free_slot():
        return rng.randrange(NVARS)

    def make_fitting(shape, scalar_ok=True):
        """emit an op that puts a value of the given shape into a slot; returns the slot"""
        k = free_slot()
        cx = cxfam and rng.random() < 0.8
        if shape is None or (scalar_ok and rng.random() < 0.15):
            sq.new_scal(k, (rng.randint(-9, 9), rng.randint(-9, 9) if cx else 0), cx, rng.randrange(2))
        else:
            n = int(np.prod(shape)) if len(shape) else 1
            sq.new_arr(k, rand_data(rng, n, cx), cx, tuple(shape))
        return k

    def value_shape_for(kind, i, path):
        s = sq.sig(i, path)
        try:
            if kind == 'SetState':
                v = s.state if path else sq.roots[i].state
            else:
                v = s.sensitivity
                if v is None:
                    v = s.state
            if is_arr(v):
                return v.shape
            if v is None and not path:
                return rng.choice(shapes)
            return None
        except Exception:
            return None

    # ---- prologue: a few arrays and signals
    nroots = rng.randint(1, 3)
    for r in range(nroots):
        shp = rng.choice(shapes)
        t = rng.random()
        if t < 0.8:
            a = make_fitting(shp, scalar_ok=False)
        elif t < 0.9:
            a = make_fitting(None)
        else:
            a = free_slot()
            sq.new_none(a)
        if rng.random() < 0.15:
            b = make_fitting(shp, scalar_ok=True)
            while b == a:
                b = make_fitting(shp, scalar_ok=True)
        else:
            b = free_slot()
            while b == a:
                b = free_slot()
            sq.new_none(b)
        sq.new_sig(a, b)
    # watch list
    for _ in range(rng.randint(1, 4)):
        i = rng.randrange(len(sq.roots))
        p = pick_path(i)
        if p and (i, p) not in sq.watch:
            sq.watch.append((i, p))
    # the first observation entries were produced before the watch list existed: regenerate prologue observations
    # (simplest: restart the sequence with the final watch list)
    prologue = list(sq.json_ops)
    watch = list(sq.watch)
    prog = dict(indices=[ix.jsonable() for ix in sq.indices], watch=watch, ops=prologue)
    sq = replay_json(pym, prog)

    guard = 0
    while len(sq.ops) < nops and guard < 10 * nops:
        guard += 1
        t = rng.random()
        i = rng.randrange(len(sq.roots))
        if t < 0.30:
            kind = 'AddSens'
        elif t < 0.42:
            kind = 'Reset'
        elif t < 0.54:
            kind = 'SetState'
        elif t < 0.61:
            kind = 'SetSens'
        elif t < 0.66:
            kind = 'GetState'
        elif t < 0.71:
            kind = 'GetSens'
        elif t < 0.80:
            kind = 'Mut'
        elif t < 0.86:
            kind = 'NewArr'
        elif t < 0.90:
            kind = 'SliceVar'
        elif t < 0.93:
            kind = 'NewScal'
        elif t < 0.95:
            kind = 'NewNone'
        elif t < 0.97 and len(sq.roots) < 4:
            kind = 'NewSig'
        else:
            kind = 'AddSens'
        if kind in ('AddSens', 'SetState', 'SetSens'):
            path = pick_path(i)
            if rng.random() < (0.5 if malformed else 0.88):
                shp = value_shape_for(kind, i, path)
                fits = [k for k, x in enumerate(sq.vars) if (is_arr(x) and shp is not None and x.shape == tuple(shp))]
                if fits and rng.random() < 0.5:
                    v = rng.choice(fits)
                else:
                    v = make_fitting(shp)
            else:
                v = rng.randrange(NVARS)
            if not admissible(sq, kind, i, path, sq.vars[v]):
                ctx.count('skipped:outside-model')
                continue
            sq.sigop(kind, i, path, v)
        elif kind == 'Reset':
            sq.sigop('Reset', i, pick_path(i), rng.choice((None, None, True, False)))
        elif kind in ('GetState', 'GetSens'):
            sq.sigop(kind, i, pick_path(i), free_slot())
        elif kind == 'Mut':
            cands = [k for k, x in enumerate(sq.vars) if is_arr(x)]
            if not cands:
                if not malformed:
                    continue
                cands = list(range(NVARS))
            v = rng.choice(cands)
            x = sq.vars[v]
            if is_arr(x):
                sq.mut(v, rand_data(rng, x.size, np.iscomplexobj(x)))
            else:
                sq.mut(v, rand_data(rng, 1, False))
        elif kind == 'NewArr':
            make_fitting(rng.choice(shapes + res_shapes), scalar_ok=False)
        elif kind == 'NewScal':
            make_fitting(None)
        elif kind == 'NewNone':
            sq.new_none(free_slot())
        elif kind == 'SliceVar':
            cands = [k for k, x in enumerate(sq.vars) if is_arr(x) and x.ndim >= 1]
            if not cands:
                continue
            v = rng.choice(cands)
            ok = [k for k, ix in enumerate(sq.indices) if malformed or ix.info(sq.vars[v].shape)[1] != 'KBad']
            if not ok:
                continue
            sq.slice_var(free_slot(), v, rng.choice(ok))
        elif kind == 'NewSig':
            a, b = rng.randrange(NVARS), rng.randrange(NVARS)
            if rng.random() < 0.8:
                b = free_slot()
                sq.new_none(b)
            if a != b or sq.vars[a] is None:
                sq.new_sig(a, b)
    return sq


# ----------------------------------------------------------------------------- numpy index oracle validation
def validate_index_tables(ctx, seqs):
    rng = np.random.default_rng(ctx.seed)
    n = 0
    bad = []
    for sq in seqs:
        for ix in sq.indices:
            for shp, (idx, kind, rs) in ix.table.items():
                n += 1
                B = rng.integers(-50, 50, size=shp)
                flat = B.ravel().copy()
                if kind == 'KBad':
                    try:
                        B[ix.obj]
                        bad.append((ix.jsonable(), shp, 'no IndexError'))
                    except IndexError:
                        pass
                    continue
                R = B[ix.obj]
                if kind == 'KScalar':
                    if is_arr(R) or int(R) != flat[idx[0]]:
                        bad.append((ix.jsonable(), shp, 'scalar'))
                    continue
                if not is_arr(R) or R.shape != rs or R.ravel().tolist() != flat[idx].tolist():
                    bad.append((ix.jsonable(), shp, 'gather'))
                if R.size and (np.shares_memory(R, B) != (kind == 'KView')):
                    bad.append((ix.jsonable(), shp, 'view flag'))
                V = rng.integers(100, 200, size=rs)
                B2 = B.copy()
                B2[ix.obj] = V
                exp = flat.copy()
                exp[idx] = V.ravel()
                if B2.ravel().tolist() != exp.tolist():
                    bad.append((ix.jsonable(), shp, 'scatter'))
    ctx.oracle_validation['numpy_index_semantics(idx, view/copy/scalar/IndexError, result shape)'] = n
    for b in bad[:5]:
        ctx.violation('correspondence', 'harness', 'numpy index table valid', 'index oracle', dict(entry=str(b)))


# ----------------------------------------------------------------------------- main
def run(ctx):
    import pymoto as pym
    ctx.rule = ('random operation sequences (<= 40 ops after a prologue) on real Signal/SignalSlice objects; values: python '
                'int/complex, numpy scalars, int64/complex128 arrays of rank 0..3 with integer / Gaussian-integer entries; '
                'index objects: basic slices, tuples of slices/ints/Ellipsis, repeat-free integer arrays, integers, nested '
                'up to depth 3; ~85% structured sequences, ~15% malformed (wrong shapes, None/scalar states under slices, '
                'out-of-range indices, complex into int); after EVERY op: outcome class, all states/sensitivities/variables/'
                'watched slice getters and the np.shares_memory relation are compared in Coq. A sequence is non-trivial '
                'when it contains an add_sensitivity or an assignment through a slice; distinct by op text. '
                'Implementation-side oracle (search only): enumerated on every run: scripted and random histories on root '
                'signals whose first / later contributions are rank-0 arrays, numpy and python scalars, C / Fortran / '
                'strided arrays of rank 1..3 in int64, float64, complex128 (aliasing, same object to two signals, '
                'mutation afterwards, reset with and without kept allocation, signals constructed with a sensitivity); '
                'every slice form of a fixed catalogue (basic, stepped, negative, tuples, integers, Ellipsis, rank-0 views '
                '(i, ...), integer arrays, boolean masks, nested paths) x base dtype x every contribution-dtype order the '
                'base dtype can hold (int-then-float, real-then-complex, float-then-complex, ...) x add/assign patterns '
                'x value kinds, against a flat plain-numpy reference; rank-0 array states')
    ctx.assumptions += ['numpy index semantics is an oracle (table of selected positions, view/copy/scalar/IndexError per '
                        '(index object, parent shape)), validated on independent data each run',
                        'general numpy broadcasting (unequal but broadcastable shapes) and silent complex->int truncation on '
                        'item assignment are outside the model and not generated (counted as skipped:outside-model)',
                        'custom sensitivity objects with their own add_sensitivity method are not modelled',
                        'dtype universe of the model: int64 / complex128; Signal.add_sensitivity (after fix F37) accumulates a '
                        'contribution the held array cannot take in place out of place (model: catch_type (iadd) (oadd)); '
                        'int->float and float->complex promotions are covered by the implementation-side oracle; out-of-place '
                        'promotion with general broadcasting (unequal shapes) is not generated']
    ctx.trusted += ['Print Assumptions: all C18 theorems are closed under the global context (Z / list developments)',
                    'modelled rather than verified: CPython attribute/property protocol (augmented assignment through a '
                    'property = get, __iadd__, set), copy.deepcopy of ndarrays, numpy in-place add / item assignment with '
                    'overlapping operands read-before-write (validated by correspondence)']
    # Signal.__init__ records its creation site with inspect.stack() (error-message text only, ~5 ms per object);
    # replaced from outside by a constant, nothing the property speaks about depends on it
    pym.core_objects.get_init_str = lambda: 'File "verif", line 0, in harness'
    vlib.audit(ctx)
    if not vlib.ensure_static(ctx):
        return
    vlib.check_props(ctx)

    rng = ctx.rng
    seqs, labels = [], []
    # corpus first
    for f in sorted(glob.glob(os.path.join(vlib.ROOT, 'corpus', 'C18', '*.json'))):
        prog = json.load(open(f))
        sq = replay_json(pym, prog)
        seqs.append(sq)
        labels.append(('corpus', os.path.basename(f)))
        ctx.count('corpus')
    if getattr(ctx, 'replay', None):
        prog = json.load(open(ctx.replay))
        prog = prog.get('case', prog).get('program', prog.get('case', prog))
        sq = replay_json(pym, prog)
        seqs.append(sq)
        labels.append(('replay', ctx.replay))
    nseq = int(os.environ.get('C18_NSEQ', 700 if ctx.quick() else 10000))
    for t in range(nseq):
        malformed = rng.random() < 0.15
        nops = rng.randint(8, 40)
        sq = gen_sequence(ctx, pym, rng, nops, malformed)
        seqs.append(sq)
        labels.append(('random', t, 'malformed' if malformed else 'structured'))
        ctx.count('malformed' if malformed else 'structured')
    checks = []
    for sq, lab in zip(seqs, labels):
        nontrivial = any(k in ('AddSens',) or (k in ('SetState', 'SetSens')) for k, _ in sq.kinds)
        for k, code in sq.kinds:
            ctx.count('op:' + k)
            ctx.count('outcome:' + ERR[code])
        ctx.count('len:%d-%d' % (10 * (len(sq.ops) // 10), 10 * (len(sq.ops) // 10) + 9))
        checks.append(sq.coq_case())
        ctx.case(tuple(sq.ops), nontrivial, sample=dict(label=lab, nops=len(sq.ops), first_ops=sq.ops[:6]))
    validate_index_tables(ctx, seqs)
    failing, err = vlib.run_cases(ctx, 'sig', HEADER, checks, chunk=12 if ctx.quick() else 14, timeout=1200)
    ctx.obligation('correspondence:case files evaluated', 'correspondence', not err, err)
    if err:
        ctx.violation('correspondence', 'Signal/SignalSlice', 'case files compile', 'harness', dict(error=err[-3000:]),
                      theorem='cases_sig')
    for idx in failing[:10]:
        sq = seqs[idx]
        vals, e2 = vlib.eval_coq(ctx, f'bad{idx}', HEADER, [sq.coq_first_bad()])
        step, model = None, None
        if vals:
            import re
            m = re.search(r'Some\s*\((\d+)%nat\s*,(.*)', vals[0], re.S)
            if m:
                step, model = int(m.group(1)), m.group(2)[:3000]
        prog = dict(indices=[ix.jsonable() for ix in sq.indices], watch=[[i, p] for i, p in sq.watch],
                    ops=sq.json_ops[:(step + 1) if step is not None else None])
        ctx.violation('correspondence', 'Signal/SignalSlice', 'model == implementation after every operation',
                      sq.kinds[step][0] if step is not None else 'sequence',
                      dict(label=labels[idx], first_bad_step=step, op=sq.ops[step] if step is not None else None,
                           program=prog),
                      expected=dict(model=model), got=dict(implementation=str(sq.full_expected[step]) if step is not None else None),
                      note='Coq model and implementation differ at this step (program is truncated after it); '
                           'observation = (outcome, values of vars ++ watched getters ++ root state/sens, sharing mask)')
    oracle(ctx, pym, more=bool(failing) or not ctx.quick())


# ----------------------------------------------------------------------------- implementation-side property oracle
def oracle(ctx, pym, more=False):
    """the property text, stated on the implementation with plain numpy arrays"""
    stress_oracle(ctx, pym)
    rng = np.random.default_rng(ctx.seed + 1)
    prng = ctx.rng
    n = 1500 if not more else 8000

    def bad(pred, cls, case, expected=None, got=None):
        ctx.violation('impl-violates', 'Signal/SignalSlice', pred, cls, case, expected=expected, got=got)

    def one_case():
        shp = rand_shape(prng)
        cx = prng.random() < 0.3

        def rnd(shape):
            a = rng.integers(-9, 10, size=shape)
            return (a + 1j * rng.integers(-9, 10, size=shape)) if cx else a
        B = rnd(shp)
        # index path of nested BASIC indices optionally ending in an integer-array index
        path = []
        cur = np.arange(B.size).reshape(shp)
        depth = prng.choice((1, 1, 2, 3))
        for d in range(depth):
            if cur.ndim == 0 or cur.size == 0:
                break
            last = d == depth - 1
            while True:
                ix = rand_index(prng, cur.shape, 'o')
                inf = ix.info(cur.shape)
                if inf[1] == 'KView' or (last and inf[1] in ('KCopy', 'KScalar')):
                    break
            path.append(ix.obj)
            cur = cur[ix.obj]
        idx = np.atleast_1d(np.asarray(cur)).ravel()
        rshape = np.shape(cur)
        case = dict(shape=list(shp), complex=cx, base=str(B.tolist()), path=[str(p) for p in path])
        sig = pym.Signal('b', state=B.copy())
        other = pym.Signal('o', state=B.copy())
        s = sig
        for p in path:
            s = s[p]
        # -- reads
        got = s.state
        if np.asarray(got).ravel().tolist() != B.ravel()[idx].tolist() or np.shape(got) != rshape:
            bad('slice reads the corresponding entries of the base state', 'read', case, B.ravel()[idx].tolist(), str(got))
        if s.sensitivity is not None:
            bad('slice sensitivity is None while the base has none', 'read', case)
        # -- writes
        V = rnd(rshape)
        s.state = V
        exp = B.ravel().copy()
        exp[idx] = np.asarray(V).ravel()
        if sig.state.ravel().tolist() != exp.tolist() or sig.sensitivity is not None \
                or not np.array_equal(other.state, B) or other.sensitivity is not None:
            bad('slice writes exactly its entries of the base state and nothing else', 'write', case, exp.tolist(),
                sig.state.ravel().tolist())
        # -- add through the slice (base has no sensitivity: zero of base shape is created)
        ds = rnd(rshape)
        ds0 = copy.deepcopy(ds)
        s.add_sensitivity(ds)
        es = np.zeros(B.size, dtype=B.dtype)
        es[idx] += np.asarray(ds0).ravel()
        bs = sig.sensitivity
        if not is_arr(bs) or bs.shape != B.shape or bs.ravel().tolist() != es.tolist():
            bad('add through slice accumulates into exactly its entries of a zero sensitivity of base shape', 'add',
                case, es.tolist(), str(bs))
        ds2 = rnd(rshape)
        s.add_sensitivity(ds2)
        es[idx] += np.asarray(ds2).ravel()
        if sig.sensitivity.ravel().tolist() != es.tolist() or sig.state.ravel().tolist() != exp.tolist():
            bad('second add through slice accumulates', 'add', case, es.tolist(), str(sig.sensitivity))
        if is_arr(ds):
            ds[...] = 77
            ds2[...] = -77
            if sig.sensitivity.ravel().tolist() != es.tolist():
                bad('changing ds after add_sensitivity does not change the signal', 'alias', case)
        # -- reset of the slice clears only its entries
        full = rnd(shp)
        sig.sensitivity = full.copy()
        s.reset()
        er = full.ravel().copy()
        er[idx] = 0
        if sig.sensitivity.ravel().tolist() != er.tolist():
            bad('resetting a slice clears only its own entries', 'reset-slice', case, er.tolist(), str(sig.sensitivity))
        sig.sensitivity = None
        s.reset()
        if sig.sensitivity is not None:
            bad('resetting a slice of a base without sensitivity is a no-op', 'reset-slice', case)
        # -- root signals: no aliasing of the added object, same object to two signals
        a1, a2 = pym.Signal('a1'), pym.Signal('a2')
        d = rnd(shp)
        d0 = d.copy()
        a1.add_sensitivity(d)
        a2.add_sensitivity(d)
        if a1.sensitivity is d or a2.sensitivity is d or np.shares_memory(a1.sensitivity, d) \
                or np.shares_memory(a1.sensitivity, a2.sensitivity):
            bad('value passed to add_sensitivity is never aliased', 'alias', case)
        a1.add_sensitivity(d)
        if not np.array_equal(a2.sensitivity, d0) or not np.array_equal(a1.sensitivity, 2 * d0) or not np.array_equal(d, d0):
            bad('adding one object to two signals keeps them independent', 'alias', case)
        d[...] = 5
        if not np.array_equal(a2.sensitivity, d0) or not np.array_equal(a1.sensitivity, 2 * d0):
            bad('changing ds after add_sensitivity does not change the signal', 'alias', case)
        # -- reset with / without kept allocation
        obj = a1.sensitivity
        a1.reset(keep_alloc=True)
        if a1.sensitivity is not obj or np.any(obj != 0):
            bad('reset(keep_alloc=True) zeroes the same object in place', 'reset', case)
        a1.reset()
        if a1.sensitivity is not None:
            bad('reset() clears the sensitivity', 'reset', case)
        k = pym.Signal('k', state=B.copy(), sensitivity=full.copy())
        obj = k.sensitivity
        k.reset()
        if k.sensitivity is not obj or np.any(obj != 0):
            bad('a signal constructed with a sensitivity keeps (and zeroes) its allocation on reset()', 'reset', case)
        k.reset(False)
        if k.sensitivity is not None:
            bad('reset(False) clears the sensitivity', 'reset', case)
        # scalars
        sc = pym.Signal('sc')
        sc.add_sensitivity(3)
        sc.add_sensitivity(4)
        if sc.sensitivity != 7:
            bad('scalar sensitivities accumulate', 'scalar', case)
        sc.reset(True)
        if sc.sensitivity != 0:
            bad('scalar reset with kept allocation gives 0', 'scalar', case)

    for t in range(n):
        ctx.search_evaluations += 1
        try:
            one_case()
        except Exception as e:
            bad('protocol operations on well-formed slices do not raise', 'exception', dict(error=repr(e)[:300]))
    # sequence oracle: protocol operations against plain value-level arrays
    def one_seq():
        shp = rand_shape(prng)
        B = rng.integers(-9, 10, size=shp)
        sigs = [pym.Signal('p0', state=B.copy()), pym.Signal('p1', state=B.copy())]
        spec = [None, None]
        idxs = []
        for _ in range(3):
            while True:
                ix = rand_index(prng, shp, 'o')
                if ix.info(shp)[1] in ('KView', 'KCopy'):
                    break
            idxs.append(ix)
        pool = [rng.integers(-9, 10, size=shp) for _ in range(2)]
        hist = []
        for step in range(25):
            i = prng.randrange(2)
            c = prng.random()
            if c < 0.3:
                d = prng.choice(pool)
                hist.append(('add', i))
                sigs[i].add_sensitivity(d)
                spec[i] = d.copy() if spec[i] is None else spec[i] + d
            elif c < 0.6:
                ix = prng.choice(idxs)
                idx, kind, rs = ix.info(shp)
                d = rng.integers(-9, 10, size=rs)
                hist.append(('add-slice', i, str(ix.obj)))
                sigs[i][ix.obj].add_sensitivity(d)
                if spec[i] is None:
                    spec[i] = np.zeros(shp, dtype=B.dtype)
                f = spec[i].ravel().copy()
                f[idx] += d.ravel()
                spec[i] = f.reshape(shp)
                d[...] = 99
            elif c < 0.7:
                hist.append(('mutate-pool',))
                prng.choice(pool)[...] = rng.integers(-9, 10, size=shp)
            elif c < 0.8:
                hist.append(('reset', i))
                sigs[i].reset()
                spec[i] = None
            elif c < 0.9:
                ix = prng.choice(idxs)
                idx, kind, rs = ix.info(shp)
                hist.append(('reset-slice', i, str(ix.obj)))
                sigs[i][ix.obj].reset()
                if spec[i] is not None:
                    f = spec[i].ravel().copy()
                    f[idx] = 0
                    spec[i] = f.reshape(shp)
            else:
                hist.append(('state', i))
                sigs[i].state = prng.choice(pool)
            for j in range(2):
                g = sigs[j].sensitivity
                if (g is None) != (spec[j] is None) or (g is not None and not np.array_equal(g, spec[j])):
                    bad('sensitivities behave as independent plain arrays under add/reset/slicing', 'sequence',
                        dict(shape=list(shp), history=hist), str(spec[j]), str(g))
                    break


    for t in range(300 if not more else 2000):
        ctx.search_evaluations += 1
        try:
            one_seq()
        except Exception as e:
            bad('protocol operations on well-formed slices do not raise', 'exception', dict(error=repr(e)[:300]))


# ----------------------------------------------------------------------------- deliberate stress cases (every run)
# Plain-numpy reference semantics of the property text: every signal holds a PRIVATE value (nothing it holds is shared
# with a caller's object or another signal), contributions accumulate like `private += ds` on plain arrays, a slice
# addresses exactly the flat positions numpy selects.  The cases below are enumerated, not drawn: rank-0 arrays, numpy
# and python scalars and arrays of rank 1..3 (int64 / float64 / complex128, C / Fortran / strided) as first and later
# contributions; every slice form on every base dtype with every contribution-dtype order the base dtype can hold.
DT = {'i': np.int64, 'f': np.float64, 'c': np.complex128}
DTRANK = {'i': 0, 'f': 1, 'c': 2}


def desc(x):
    if x is None:
        return 'None'
    if is_arr(x):
        return f'np.array({x.tolist()!r}, dtype={x.dtype}) [ndarray shape={x.shape}]'
    return f'{type(x).__module__.split(".")[0]}.{type(x).__name__}({x!r})'.replace('builtins.', '')


class ValSource:
    """small non-zero integers, deterministic per run (every entry differs from 0, 77 and -77)"""

    def __init__(self, rng):
        self.rng = rng

    def one(self, dt):
        r = self.rng.choice((-1, 1)) * self.rng.randint(1, 9)
        if dt == 'c':
            return complex(r, self.rng.choice((-1, 1)) * self.rng.randint(1, 9))
        return float(r) if dt == 'f' else int(r)

    def make(self, kind, dt, shape=()):
        """kind: py (python scalar) | np (numpy scalar) | a0 (rank-0 ndarray) | arr | arrF (Fortran order) |
        view (strided view of a larger array)"""
        if kind == 'py':
            return self.one(dt)
        if kind == 'np':
            return DT[dt](self.one(dt))
        if kind == 'a0':
            return np.array(self.one(dt), dtype=DT[dt])
        n = int(np.prod(shape)) if len(shape) else 1
        if kind == 'view':
            big = np.array([self.one(dt) for _ in range(2 * n)], dtype=DT[dt]).reshape((2 * shape[0],) + tuple(shape[1:]))
            return big[::2]
        a = np.array([self.one(dt) for _ in range(n)], dtype=DT[dt]).reshape(shape)
        return np.asfortranarray(a) if kind == 'arrF' else a


def same_value(got, exp):
    if got is None or exp is None:
        return got is None and exp is None
    try:
        return np.shape(got) == np.shape(exp) and bool(np.array_equal(np.asarray(got), np.asarray(exp))) \
            and np.asarray(got).dtype.kind == np.asarray(exp).dtype.kind
    except Exception:
        return False


class RootHistory:
    """operations on root Signals against private plain values (the reference)"""

    def __init__(self, pym, nsig, vals):
        self.names = ['a', 'b', 'c'][:nsig]
        self.sigs = {n: pym.Signal(n) for n in self.names}
        self.exp = {n: None for n in self.names}
        self.vals = dict(vals)
        self.expv = {k: copy.deepcopy(v) for k, v in vals.items()}
        self.log = [f'{k} = {desc(v)}' for k, v in vals.items()] + [f"{n} = pym.Signal('{n}')" for n in self.names]

    def ref_add(self, cur, v):
        if cur is None:
            return copy.deepcopy(v)
        if is_arr(cur):
            new = cur.copy()
            try:
                new += v
            except TypeError:
                # the sum does not fit the dtype held so far (float onto int, complex onto real; repaired defect F37):
                # the accumulated value is old + ds in the promoted dtype, in a private array of its own
                new = new + v
            return new
        return cur + v

    def step(self, op):
        """returns None or (predicate, input_class, expected, got)"""
        kind = op[0]
        raised = None
        if kind == 'add':
            _, s, v = op
            self.log.append(f'{s}.add_sensitivity({v})')
            try:
                new = self.ref_add(self.exp[s], self.expv[v])
                exp_exc = None
            except (TypeError, ValueError) as e:
                new, exp_exc = self.exp[s], type(e)
            try:
                self.sigs[s].add_sensitivity(self.vals[v])
            except Exception as e:
                raised = e
            if exp_exc is not None:
                if raised is None or not isinstance(raised, (TypeError, ValueError)):
                    return ('a contribution plain numpy rejects (dtype/shape) is rejected', 'root-history',
                            exp_exc.__name__, repr(raised))
                raised = None
            self.exp[s] = new
        elif kind == 'reset':
            _, s, keep = op
            self.log.append(f'{s}.reset({"" if keep is None else keep})')
            try:
                self.sigs[s].reset() if keep is None else self.sigs[s].reset(keep)
            except Exception as e:
                raised = e
            if self.exp[s] is not None:
                self.exp[s] = (self.exp[s] * 0) if keep else None
        elif kind == 'mut':
            _, v, c = op
            self.log.append(f'{v}[...] = {c}')
            self.vals[v][...] = c
            self.expv[v] = np.full_like(self.expv[v], c)
        if raised is not None:
            return ('protocol operations on well-formed values do not raise', 'root-history', None, repr(raised)[:300])
        return self.verify(op)

    def verify(self, op):
        objs = [(f'{n}.sensitivity', self.sigs[n].sensitivity) for n in self.names] + list(self.vals.items())
        for a in range(len(self.names)):
            for b in range(a + 1, len(objs)):
                if is_arr(objs[a][1]) and (objs[a][1] is objs[b][1] or overlap(objs[a][1], objs[b][1])):
                    return ('a value passed to add_sensitivity is never aliased', 'root-history',
                            'no shared memory', f'{objs[a][0]} shares memory with {objs[b][0]}')
        for k, v in self.vals.items():
            if not same_value(v, self.expv[k]):
                return ('a value passed to add_sensitivity is never aliased: the caller\'s object is not changed by '
                        'later operations on the signal', 'root-history', desc(self.expv[k]), f'{k} = {desc(v)}')
        addressed = op[1] if op[0] in ('add', 'reset') else None
        for n in self.names:
            got = self.sigs[n].sensitivity
            if not same_value(got, self.exp[n]):
                if n != addressed:
                    return ('what a signal holds is not changed by operations not addressed to it (changing ds '
                            'afterwards, same object added to two signals)', 'root-history',
                            desc(self.exp[n]), f'{n}.sensitivity = {desc(got)}')
                return ('contributions accumulate / reset as on a private plain array', 'root-history',
                        desc(self.exp[n]), f'{n}.sensitivity = {desc(got)}')
        return None


ROOT_SCENARIOS = [
    [('add', 'a', 'd'), ('add', 'b', 'd'), ('add', 'a', 'e'), ('add', 'b', 'e'), ('mut', 'e', -77)],
    [('add', 'a', 'd'), ('mut', 'd', 77), ('add', 'a', 'e')],
    [('add', 'a', 'd'), ('add', 'b', 'd'), ('reset', 'a', True), ('add', 'a', 'd')],
    [('add', 'a', 'd'), ('add', 'a', 'd'), ('add', 'a', 'd')],
    [('add', 'a', 'd'), ('reset', 'a', True), ('add', 'a', 'e'), ('mut', 'e', -77), ('reset', 'a', False)],
    [('add', 'a', 'd'), ('add', 'b', 'd'), ('add', 'b', 'e'), ('reset', 'b', None), ('add', 'b', 'd'), ('mut', 'd', 77)],
    [('add', 'a', 'e'), ('add', 'a', 'd'), ('mut', 'd', 77), ('reset', 'a', True), ('mut', 'e', -77)],
]


def slice_catalog(shape):
    """deliberately chosen index paths (lists of index objects, python order) for a base of this shape: every form the
    property names (basic slices, tuples of slices, integer arrays without repeats, nested basic slices) plus integers,
    Ellipsis, rank-0 views (i, ...), boolean masks and nested paths ending in each of them"""
    S = slice
    n0 = shape[0]
    out = [[S(None)], [Ellipsis], [S(None, None, -1)], [S(None, None, 2)], [S(-2, None)], [(S(0, max(1, n0 - 1)),)],
           [0], [-1], [np.array([n0 - 1, 0][:n0])], [np.array([-1])], [np.arange(n0) % 2 == 0],
           [S(None), S(None)], [S(None, None, -1), S(0, 1)], [S(None), np.array([0])], [S(None, None, -1), 0]]
    if len(shape) == 1:
        out += [[(0, Ellipsis)], [(Ellipsis, -1)], [S(None, None, -1), (0, Ellipsis)], [(S(None),)], [S(1, None)],
                [S(1, None), S(None, None, -1)], [Ellipsis, Ellipsis], [Ellipsis, np.array([0])]]
    if len(shape) == 2:
        n1 = shape[1]
        out += [[(S(None), S(None))], [(S(0, 1), S(None, None, -1))], [(S(None), n1 - 1)], [(0, n1 - 1)],
                [(0, n1 - 1, Ellipsis)], [(Ellipsis, 0)], [(-1, Ellipsis)], [(np.array([n0 - 1, 0][:n0]), S(None))],
                [(S(None), np.array([n1 - 1, 0][:n1]))], [0, S(None, None, -1)], [0, 0], [0, (0, Ellipsis)],
                [(S(None), 0), S(None, None, -1)], [S(None, None, -1), (S(None), np.array([0]))],
                [(S(None), S(None, None, -1)), (0, 0)], [(S(None), S(None)), 0, np.array([n1 - 1])]]
    if len(shape) == 3:
        out += [[(0,)], [(S(None), 1, S(None))], [(Ellipsis, 0)], [(1, Ellipsis, 0)], [(0, 1, 1)], [(0, 1, 1, Ellipsis)],
                [(S(None), np.array([1]), S(None))], [(np.array([1, 0]), S(None), 0)], [0, 1], [0, 1, 1],
                [0, (S(None), 1)], [(S(None), S(None), 0), (1, Ellipsis)], [1, S(None, None, -1), np.array([0])],
                [(Ellipsis, S(None, None, -1)), (0, 0), (1, Ellipsis)]]
    good = []
    for path in out:
        cur = np.arange(int(np.prod(shape))).reshape(shape)
        ok = True
        try:
            for d, p in enumerate(path):
                nxt = cur[p]
                if d < len(path) - 1 and not (is_arr(nxt) and nxt.size and np.shares_memory(nxt, cur)):
                    ok = False       # a write through a slice of a COPY is lost by design (modelled, not a reference case)
                    break
                cur = nxt
        except IndexError:
            ok = False
        if ok and np.size(cur) >= 1:
            good.append((path, np.atleast_1d(np.asarray(cur)).ravel().copy(), np.shape(cur), is_arr(cur)))
    return good


# contribution-dtype orders a base of the given dtype can hold (plain numpy: same-kind casting into the base dtype)
DTYPE_ORDERS = {'c': ['ic', 'fc', 'ifc', 'cf', 'cic', 'ff', 'c'], 'f': ['if', 'fi', 'ff', 'i'], 'i': ['ii', 'i']}
HOW_PATTERNS = ['aaa', 'saa', 'asa']           # a = add_sensitivity through the slice, s = assignment through the slice
KIND_PATTERNS = [('arr', 'arr', 'arr'), ('arr', 'py', 'a0'), ('a0', 'arr', 'np'), ('py', 'arr', 'arr')]
STRESS_SHAPES = [(3,), (4,), (1,), (2, 3), (3, 1), (2, 2, 2)]


def pstr(p):
    if is_arr(p):
        return f'np.array({p.tolist()})'
    if isinstance(p, tuple):
        return '(' + ', '.join(pstr(q) for q in p) + (',)' if len(p) == 1 else ')')
    return '...' if p is Ellipsis else repr(p)


def stress_oracle(ctx, pym):
    import warnings
    with warnings.catch_warnings():
        warnings.simplefilter('ignore')       # a lossy cast shows up as a wrong value below, not as console noise
        _stress_oracle(ctx, pym)


def _stress_oracle(ctx, pym):
    prng = ctx.rng
    src = ValSource(prng)
    budget = [12]                       # violations reported by this block (the first one becomes the replay)

    def bad(pred, cls, case, expected=None, got=None):
        if budget[0] > 0:
            budget[0] -= 1
            ctx.violation('impl-violates', 'Signal/SignalSlice', pred, cls, case, expected=expected, got=got)

    # ---- A. root signals: first / later contributions of every value kind, scripted histories
    firsts = [(k, dt, ()) for k in ('a0', 'np', 'py') for dt in 'ifc']
    firsts += [(k, dt, shp) for dt in 'ifc' for k, shp in (('arr', (1,)), ('arr', (3,)), ('arr', (2, 2)), ('arr', (1, 1)),
                                                          ('arr', (2, 1, 2)), ('arrF', (2, 3)), ('view', (3,)),
                                                          ('view', (2, 2)))]
    for k1, dt1, shp in firsts:
        for k2 in ('a0', 'py', 'np', 'arr'):
            for dt2 in 'ifc':
                # every dtype order: a later contribution that does not fit the dtype held so far (int-then-float,
                # real-then-complex, float-then-complex) is accumulated out of place in the promoted dtype (F37)
                if k1 not in ('py', 'np') and DTRANK[dt2] > DTRANK[dt1]:
                    ctx.count('stress:root-history:promoting')
                for sc, scen in enumerate(ROOT_SCENARIOS):
                    ctx.search_evaluations += 1
                    ctx.count('stress:root-history')
                    d = src.make(k1, dt1, shp)
                    e = src.make(k2 if k2 != 'arr' else ('arr' if shp else 'a0'), dt2, shp)
                    h = RootHistory(pym, 2, dict(d=d, e=e))
                    for op in scen:
                        if op[0] == 'mut' and not is_arr(h.vals[op[1]]):
                            continue
                        r = h.step(op)
                        if r:
                            bad(r[0], 'root-history', dict(first=f'{k1}:{dt1}:{list(shp)}', later=f'{k2}:{dt2}',
                                                            scenario=sc, operations=list(h.log)), r[2], r[3])
                            break
    # random histories over the same value kinds (three signals, pool of four values incl. rank-0 arrays)
    for t in range(150 if ctx.quick() else 1500):
        ctx.search_evaluations += 1
        ctx.count('stress:root-history-random')
        dt = prng.choice('ifc')
        shp = prng.choice([(), (), (2,), (2, 2), (1,)])
        pool = {}
        for nm in 'defg':
            k = prng.choice(('a0', 'arr', 'np', 'py')) if shp == () else prng.choice(('arr', 'arr', 'a0', 'py', 'arrF'))
            k = 'a0' if (k in ('arr', 'arrF') and shp == ()) else k
            pool[nm] = src.make(k, prng.choice('ifc'), shp)          # any dtype order (promotion included)
        if shp != () and not is_arr(pool['d']) or (is_arr(pool['d']) and pool['d'].ndim == 0 and shp != ()):
            pool['d'] = src.make('arr', dt, shp)      # first value of full shape: later ones broadcast into it
        pool['d'] = pool['d'].astype(DT[dt]) if is_arr(pool['d']) else pool['d']
        h = RootHistory(pym, 3, pool)
        first_done = set()
        for _ in range(14):
            c = prng.random()
            s = prng.choice(h.names)
            if c < 0.55:
                v = 'd' if s not in first_done else prng.choice('defg')
                first_done.add(s)
                op = ('add', s, v)
            elif c < 0.75:
                op = ('reset', s, prng.choice((None, True, False)))
                if op[2] is not True:
                    first_done.discard(s)
            else:
                v = prng.choice('defg')
                if not is_arr(h.vals[v]):
                    continue
                op = ('mut', v, prng.choice((77, -77, 5)))
            r = h.step(op)
            if r:
                bad(r[0], 'root-history', dict(operations=list(h.log)), r[2], r[3])
                break

    # ---- B. slices: every slice form x base dtype x contribution-dtype order x add/assign pattern x value kinds
    for shape in STRESS_SHAPES:
        cat = slice_catalog(shape)
        size = int(np.prod(shape))
        for (path, idx, rshape, res_is_arr) in cat:
            for sdt in 'ifc':
                for order in DTYPE_ORDERS[sdt]:
                    for how in HOW_PATTERNS:
                        for kinds in KIND_PATTERNS:
                            ctx.search_evaluations += 1
                            ctx.count('stress:slice-accumulate')
                            slice_case(ctx, pym, src, bad, shape, size, path, idx, rshape, sdt, order, how, kinds)

    # ---- C. rank-0 array states
    for sdt in 'ifc':
        for ix in (Ellipsis, ()):
            ctx.search_evaluations += 1
            ctx.count('stress:rank0-state')
            st = src.make('a0', sdt)
            st0 = st.copy()
            sig = pym.Signal('z', state=st)
            case = dict(state=desc(st0), index=pstr(ix))
            if sig.state is not st:
                bad('a signal holds the state object it was given', 'rank0-state', case)
            got = sig[ix].state
            if not same_value(got, st0):
                bad('slice reads the corresponding entries of the base state', 'rank0-state', case, desc(st0), desc(got))
            v = src.make(prng.choice(('py', 'a0', 'np')), sdt)
            sig[ix].state = v
            if sig.state is not st or not same_value(st, np.asarray(v)) or sig.sensitivity is not None:
                bad('slice writes exactly its entries of the base state and nothing else', 'rank0-state',
                    dict(case, value=desc(v)), desc(v), desc(sig.state))
            for dkind in ('a0', 'py', 'np'):
                d = src.make(dkind, sdt)
                d0 = copy.deepcopy(d)
                z = pym.Signal('z', state=st0.copy())
                try:
                    z[ix].add_sensitivity(d)
                    z[ix].add_sensitivity(d)
                    ok = same_value(z.sensitivity, np.asarray(d0) * 2)
                    ctx.count('rank0-state-slice-sens:accumulated')
                except TypeError:
                    # `state * 0` of a rank-0 array is a numpy scalar (no item assignment): a loud TypeError, nothing stored
                    ok = z.sensitivity is None or same_value(z.sensitivity, np.asarray(d0) * 0)
                    ctx.count('rank0-state-slice-sens:TypeError')
                if not ok or not same_value(d, d0) or not same_value(z.state, st0):
                    bad('add through a slice of a rank-0 state accumulates or fails loudly without storing anything',
                        'rank0-state', dict(case, ds=desc(d0)), desc(np.asarray(d0) * 2), desc(z.sensitivity))

    # ---- D. signals constructed WITH a sensitivity (allocation kept by default): explicit and default reset arguments
    for k1, dt1, shp in firsts:
        for first_reset in (None, True, False):
            ctx.search_evaluations += 1
            ctx.count('stress:constructed-with-sensitivity')
            x = src.make(k1, dt1, shp)
            x0 = copy.deepcopy(x)
            d = src.make(k1, dt1, shp)
            d0 = copy.deepcopy(d)
            log = [f'x = {desc(x0)}', f'd = {desc(d0)}', "k = pym.Signal('k', sensitivity=x)"]
            case = dict(value=f'{k1}:{dt1}:{list(shp)}', operations=log)
            try:
                k = pym.Signal('k', sensitivity=x)
                log.append(f'k.reset({"" if first_reset is None else first_reset})')
                k.reset() if first_reset is None else k.reset(first_reset)
                if first_reset is False:
                    if k.sensitivity is not None:
                        bad('reset(False) clears the sensitivity (explicit argument overrides the kept allocation)',
                            'constructed-with-sensitivity', case, 'None', desc(k.sensitivity))
                        continue
                    if not same_value(x, x0):
                        bad('reset(False) releases the object instead of zeroing it', 'constructed-with-sensitivity',
                            case, desc(x0), desc(x))
                        continue
                else:
                    if not same_value(k.sensitivity, np.asarray(x0) * 0) or (is_arr(x) and k.sensitivity is not x):
                        bad('reset with kept allocation zeroes the sensitivity in place (same object)',
                            'constructed-with-sensitivity', case, desc(np.asarray(x0) * 0), desc(k.sensitivity))
                        continue
                log.append('k.add_sensitivity(d)')
                k.add_sensitivity(d)
                log.append('k.add_sensitivity(d)')
                k.add_sensitivity(d)
                if not same_value(k.sensitivity, np.asarray(d0) * 2) or not same_value(d, d0) or overlap(k.sensitivity, d):
                    bad('contributions accumulate after a reset and the added object is never aliased',
                        'constructed-with-sensitivity', case, desc(np.asarray(d0) * 2), desc(k.sensitivity))
                    continue
                if first_reset is False and is_arr(x) and (overlap(k.sensitivity, x) or not same_value(x, x0)):
                    bad('after reset(False) the signal no longer writes into the released array',
                        'constructed-with-sensitivity', case, desc(x0), desc(x))
                    continue
                if dt1 != 'c' and first_reset is not False:
                    # a contribution the kept allocation cannot hold: the field is re-bound to old + ds (promoted);
                    # the originally supplied array x keeps its contents and is no longer referenced
                    x1 = copy.deepcopy(x)
                    e = src.make(k1, 'c', shp)
                    e0 = copy.deepcopy(e)
                    log.append(f'k.add_sensitivity(e)   # e = {desc(e0)}')
                    k.add_sensitivity(e)
                    if not same_value(k.sensitivity, np.asarray(d0) * 2 + np.asarray(e0)) or not same_value(e, e0) \
                            or not same_value(x, x1) or overlap(k.sensitivity, e) or overlap(k.sensitivity, x):
                        bad('a contribution the held array cannot take in place is accumulated out of place (old + ds, '
                            'promoted dtype) without aliasing or changing ds or the old array',
                            'constructed-with-sensitivity', case, desc(np.asarray(d0) * 2 + np.asarray(e0)), desc(k.sensitivity))
                        continue
                    log.append('k.reset()')
                    k.reset()
                    if not same_value(k.sensitivity, (np.asarray(d0) * 2 + np.asarray(e0)) * 0) or not same_value(x, x1):
                        bad('reset with kept allocation zeroes the (promoted) sensitivity in place',
                            'constructed-with-sensitivity', case, None, desc(k.sensitivity))
                        continue
                log.append('k.reset(False)')
                k.reset(False)
                if k.sensitivity is not None:
                    bad('reset(False) clears the sensitivity (explicit argument overrides the kept allocation)',
                        'constructed-with-sensitivity', case, 'None', desc(k.sensitivity))
            except Exception as e:
                bad('protocol operations on well-formed values do not raise', 'constructed-with-sensitivity', case, None,
                    repr(e)[:300])


def slice_case(ctx, pym, src, bad, shape, size, path, idx, rshape, sdt, order, how, kinds):
    B = src.make('arr', sdt, shape)
    B0 = B.copy()
    p0, p1 = pym.Signal('p0', state=B), pym.Signal('p1', state=B.copy())
    s0, s1 = p0, p1
    for p in path:
        s0, s1 = s0[p], s1[p]
    pth = ''.join(f'[{pstr(p)}]' for p in path)
    log = [f"B = {desc(B0)}", "p0 = pym.Signal('p0', state=B); p1 = pym.Signal('p1', state=B.copy())"]
    case = dict(base_shape=list(shape), base_dtype=str(B.dtype), slice=pth, contribution_dtypes=order, pattern=how,
                value_kinds=list(kinds[:len(order)]), operations=log)
    ref = [None, None]                                  # flat complex reference of p0 / p1 sensitivities
    held = []

    def apply(r, h, v):
        r = np.zeros(size, dtype=complex) if r is None else r.copy()
        vv = np.broadcast_to(np.asarray(v), rshape).ravel()
        r[idx] = (r[idx] + vv) if h == 'a' else vv
        return r

    def check(where):
        for j, sg in enumerate((p0, p1)):
            g = sg.sensitivity
            if ref[j] is None:
                if g is not None:
                    bad('a base without contributions has no sensitivity', 'slice-accumulate', case, 'None', desc(g))
                    return False
                continue
            if not is_arr(g) or g.shape != tuple(shape) or not np.array_equal(g.ravel(), ref[j]):
                bad('sensitivities added through a slice are accumulated into exactly those entries of the base '
                    '(zero sensitivity of the base\'s shape created when none exists)', 'slice-accumulate', case,
                    f'p{j}.sensitivity.ravel() == {ref[j].tolist()}', f'{where}: p{j}.sensitivity = {desc(g)}')
                return False
            if overlap(g, sg.state) or any(overlap(g, h) for h in held) or (j == 1 and overlap(g, p0.sensitivity)):
                bad('a value passed to add_sensitivity is never aliased', 'slice-accumulate', case, 'no shared memory',
                    f'{where}: p{j}.sensitivity shares memory with the state, a contribution or the other signal')
                return False
        if not np.array_equal(p0.state, B0) or not np.array_equal(p1.state, B0):
            bad('operations on the sensitivity do not change the state', 'slice-accumulate', case, desc(B0), desc(p0.state))
            return False
        return True

    try:
        for k, dt in enumerate(order):
            kd = kinds[k]
            v = src.make(kd if kd != 'arr' else ('arr' if rshape else 'a0'), dt, rshape)
            v0 = copy.deepcopy(v)
            held.append(v)
            h = how[k]
            for j, s in enumerate((s0, s1)):
                if j == 1 and k > 0:
                    continue                           # p1 receives the FIRST object only and must keep exactly that
                if h == 'a':
                    log.append(f'p{j}{pth}.add_sensitivity(v{k})   # v{k} = {desc(v0)}')
                    s.add_sensitivity(v)
                else:
                    log.append(f'p{j}{pth}.sensitivity = v{k}   # v{k} = {desc(v0)}')
                    s.sensitivity = v
                ref[j] = apply(ref[j], h, v0)
            if not same_value(v, v0):
                bad('a value passed to add_sensitivity is never aliased: the caller\'s object is not changed',
                    'slice-accumulate', case, desc(v0), desc(v))
                return
            if not check(f'after operation {k}'):
                return
        # reads through the slice, then changing the contributions afterwards, then resetting the slice
        g = s0.sensitivity
        if np.shape(g) != tuple(rshape) or not np.array_equal(np.asarray(g).ravel(), ref[0][idx]):
            bad('a slice reads the corresponding entries of the base sensitivity', 'slice-accumulate', case,
                str(ref[0][idx].tolist()), desc(g))
            return
        for k, v in enumerate(held):
            if is_arr(v):
                log.append(f'v{k}[...] = 77')
                v[...] = 77
        if not check('after changing the contributed objects'):
            return
        log.append(f'p0{pth}.reset()')
        s0.reset()
        ref[0] = ref[0].copy()
        ref[0][idx] = 0
        check('after resetting the slice')
    except Exception as e:
        bad('protocol operations on well-formed slices do not raise', 'slice-accumulate', case, None, repr(e)[:300])


if __name__ == '__main__':
    vlib.main(run, 'C18')
