"""Shared by C05.py and C07.py: exact Gaussian-rational linear algebra, generators of integer / Gaussian-integer
matrices of every class with bounded condition number (diagonal dominance), Coq literals for Base/CQMat.v."""
from fractions import Fraction
import numpy as np
import vlib

TCODE = {'N': 0, 'T': 1, 'H': 2}


# ----------------------------------------------------------------------------- exact arithmetic over Q[i]
class CQ:
    __slots__ = ('re', 'im')

    def __init__(self, re=0, im=0):
        self.re = Fraction(re)
        self.im = Fraction(im)

    @staticmethod
    def of(z):
        if isinstance(z, CQ):
            return z
        if isinstance(z, (complex, np.complexfloating)):
            return CQ(Fraction(float(z.real)), Fraction(float(z.imag)))
        if isinstance(z, (float, np.floating)):
            return CQ(Fraction(float(z)))
        return CQ(Fraction(int(z)))

    def __add__(self, o):
        return CQ(self.re + o.re, self.im + o.im)

    def __sub__(self, o):
        return CQ(self.re - o.re, self.im - o.im)

    def __mul__(self, o):
        return CQ(self.re * o.re - self.im * o.im, self.re * o.im + self.im * o.re)

    def __truediv__(self, o):
        d = o.re * o.re + o.im * o.im
        return CQ((self.re * o.re + self.im * o.im) / d, (self.im * o.re - self.re * o.im) / d)

    def conj(self):
        return CQ(self.re, -self.im)

    def iszero(self):
        return self.re == 0 and self.im == 0

    def __eq__(self, o):
        return self.re == o.re and self.im == o.im

    def __hash__(self):
        return hash((self.re, self.im))

    def mag(self):
        return max(abs(self.re), abs(self.im))

    def __repr__(self):
        return f'({self.re}+{self.im}j)'


def cq_matrix(a):
    """numpy 2-D (or 1-D -> column) array -> list of rows of CQ (exact)"""
    a = np.asarray(a)
    if a.ndim == 1:
        a = a.reshape(-1, 1)
    return [[CQ.of(v) for v in row] for row in a.tolist()] if a.dtype.kind != 'c' else \
        [[CQ.of(complex(v)) for v in row] for row in a]


def cq_op(A, t):
    n, m = len(A), len(A[0])
    if t == 'N':
        return A
    if t == 'T':
        return [[A[i][j] for i in range(n)] for j in range(m)]
    return [[A[i][j].conj() for i in range(n)] for j in range(m)]


def cq_mul(A, B):
    return [[sum((A[i][k] * B[k][j] for k in range(len(B))), CQ()) for j in range(len(B[0]))] for i in range(len(A))]


def cq_sub(A, B):
    return [[a - b for a, b in zip(ra, rb)] for ra, rb in zip(A, B)]


def cq_solve(A, B):
    """exact solution of A X = B (A square non-singular) by Gauss-Jordan with first-non-zero pivoting; None if singular"""
    n = len(A)
    M = [list(A[i]) + list(B[i]) for i in range(n)]
    for c in range(n):
        piv = next((r for r in range(c, n) if not M[r][c].iszero()), None)
        if piv is None:
            return None
        M[c], M[piv] = M[piv], M[c]
        pv = M[c][c]
        M[c] = [v / pv for v in M[c]]
        for r in range(n):
            if r != c and not M[r][c].iszero():
                f = M[r][c]
                M[r] = [v - f * w for v, w in zip(M[r], M[c])]
    return [row[n:] for row in M]


def cq_inverse(A):
    n = len(A)
    return cq_solve(A, [[CQ(1 if i == j else 0) for j in range(n)] for i in range(n)])


# ----------------------------------------------------------------------------- Coq literals (Base/CQMat.v)
def coq_c(z):
    return f'({vlib.qlit(z.re)}, {vlib.qlit(z.im)})'


def coq_cmat(M):
    """list of rows of CQ -> cmat literal; all-real matrices through rmat (shorter)"""
    if all(v.im == 0 for r in M for v in r):
        return '(rmat [' + '; '.join('[' + '; '.join(vlib.qlit(v.re) for v in r) + ']' for r in M) + '])'
    return '[' + '; '.join('[' + '; '.join(coq_c(v) for v in r) + ']' for r in M) + ']'


def scale_of(X):
    return max([Fraction(1)] + [v.mag() for r in X for v in r])


def coq_check_solve(A, t, X, B, ximpl, rel=Fraction(1, 10 ** 9)):
    """Coq boolean: op_t(A) X = B exactly  and  |ximpl - X| <= rel * scale"""
    tol = rel * scale_of(X)
    return (f'check_solve {TCODE[t]} {coq_cmat(A)} {coq_cmat(X)} {coq_cmat(B)} {coq_cmat(cq_matrix(ximpl))} '
            f'{vlib.qlit(tol)}')


CQ_HEADER = '''From Coq Require Import ZArith QArith List Bool.
From Pymoto Require Import Base.Num Base.CQMat.
Import ListNotations.
Open Scope Q_scope.
'''


# ----------------------------------------------------------------------------- matrix generators
CLASSES_REAL = ['diag', 'spd', 'snd', 'indef', 'zerodiag', 'general', 'permuted', 'lower', 'upper']
CLASSES_CPLX = ['diag', 'hpd', 'hnd', 'hindef', 'hzerodiag', 'csym', 'general', 'permuted', 'lower', 'upper']
HERMITIAN = {'spd', 'snd', 'indef', 'zerodiag', 'hpd', 'hnd', 'hindef', 'hzerodiag'}
DEFINITE = {'spd', 'snd', 'hpd', 'hnd'}


def _entry(rng, cplx, lo=-3, hi=3, pzero=0.35):
    if rng.random() < pzero:
        return 0
    if cplx:
        return complex(rng.randint(lo, hi), rng.randint(lo, hi))
    return rng.randint(lo, hi)


def _absum(z):
    z = complex(z)
    return abs(z.real) + abs(z.imag)


def gen_matrix(rng, cls, n, cplx):
    """integer / Gaussian-integer n x n matrix of the class, non-singular by (permuted) strict diagonal dominance.
    Returns a numpy array of dtype float64 / complex128 holding integer values."""
    A = np.zeros((n, n), dtype=complex)
    sym = cls in ('spd', 'snd', 'indef', 'zerodiag', 'csym', 'hpd', 'hnd', 'hindef', 'hzerodiag')
    herm = cls in ('hpd', 'hnd', 'hindef', 'hzerodiag')
    if cls == 'diag':
        for i in range(n):
            v = 0
            while v == 0:
                v = _entry(rng, cplx, -9, 9, 0)
            A[i, i] = v
    elif cls in ('lower', 'upper'):
        for i in range(n):
            for j in range(i):
                A[i, j] = _entry(rng, cplx)
            v = 0
            while v == 0:
                v = _entry(rng, cplx, -4, 4, 0)
            A[i, i] = v
        if n > 1 and not np.any(np.tril(A, -1)):
            A[n - 1, 0] = 2
        if cls == 'upper':
            A = A.T.copy()
    else:
        for i in range(n):
            for j in range(i):
                v = _entry(rng, cplx)
                A[i, j] = v
                if sym:
                    A[j, i] = np.conj(v) if herm else v
                else:
                    A[j, i] = _entry(rng, cplx)
        if cls in ('zerodiag', 'hzerodiag'):
            assert n % 2 == 0
            for i in range(0, n, 2):
                A[i, i + 1] = A[i + 1, i] = 0
            for i in range(0, n, 2):
                m = max(sum(_absum(v) for v in A[i]), sum(_absum(v) for v in A[i + 1])) + rng.randint(1, 2)
                w = complex(m, rng.randint(1, 2)) if cls == 'hzerodiag' else m * rng.choice((-1, 1))
                A[i, i + 1] = w
                A[i + 1, i] = np.conj(w) if herm else w
        else:
            signs = [1] * n
            if cls in ('snd', 'hnd'):
                signs = [-1] * n
            elif cls in ('indef', 'hindef'):
                signs = [rng.choice((-1, 1)) for _ in range(n)]
                if n > 1:
                    signs[0], signs[1] = 1, -1
            elif cls in ('general', 'permuted'):
                signs = [rng.choice((-1, 1)) for _ in range(n)]
            for i in range(n):
                m = sum(_absum(v) for v in A[i]) + rng.randint(1, 3)
                if cls == 'csym' or (cplx and cls in ('general', 'permuted')):
                    A[i, i] = rng.choice((complex(m, 1), complex(0, m), complex(-m, 2), complex(1, -m)))
                else:
                    A[i, i] = signs[i] * m
            if cls == 'csym' and n >= 1:
                A[0, 0] = complex(0, abs(A[0, 0].real) + abs(A[0, 0].imag))   # certainly not Hermitian
            if cls in ('general', 'permuted') and n > 1:
                # certainly not symmetric / Hermitian
                A[0, 1], A[1, 0] = 1, 2
                for i in (0, 1):
                    A[i, i] = (signs[i] if not cplx else 1) * (sum(_absum(v) for k, v in enumerate(A[i]) if k != i) + 2)
            if cls == 'permuted' and n > 1:
                perm = list(range(n))
                while perm == list(range(n)):
                    rng.shuffle(perm)
                A = A[perm, :]
    if not cplx:
        assert not np.any(A.imag)
        return np.ascontiguousarray(A.real.astype(float))
    if not np.any(A.imag):
        A[0, 0] = A[0, 0]   # complex dtype with real values is allowed (stays complex128)
    return np.ascontiguousarray(A)


def classify(A):
    """exact properties of an integer-valued (complex) matrix"""
    A = np.asarray(A)
    d = np.diag(np.diag(A))
    return dict(diag=bool(np.array_equal(A, d)), lower=bool(np.array_equal(A, np.tril(A))),
                upper=bool(np.array_equal(A, np.triu(A))), cplx=bool(np.iscomplexobj(A)),
                herm=bool(np.array_equal(A, A.conj().T)), sym=bool(np.array_equal(A, A.T)),
                # numpy orders complex numbers lexicographically (exact on integer data)
                dpos=all((z.real, z.imag) > (0, 0) for z in np.diag(A).astype(complex)),
                dneg=all((z.real, z.imag) < (0, 0) for z in np.diag(A).astype(complex)))


def gen_rhs(rng, n, shape_kind, cplx):
    """integer right-hand sides: 'vec' (n,), 'col' (n,1), 'blk' (n,k) with linearly dependent columns,
    'wide' (n, n+1) (necessarily dependent), 'zero' block containing a zero column,
    'cdep' / 'idup' columns that depend on each other through non-real coefficients (need cplx=True)"""
    def col():
        v = np.array([complex(rng.randint(-5, 5), rng.randint(-5, 5)) if cplx else rng.randint(-5, 5) for _ in range(n)])
        if not np.any(v):
            v[0] = 1
        return v
    if shape_kind == 'vec':
        b = col()
    elif shape_kind == 'col':
        b = col().reshape(n, 1)
    elif shape_kind == 'blk':
        c0, c1 = col(), col()
        b = np.stack([c0, c1, 2 * c0 - c1], axis=1)
    elif shape_kind == 'dup':
        c0 = col()
        b = np.stack([c0, c0], axis=1)
    elif shape_kind == 'wide':
        cols = [col() for _ in range(n)]
        cols.append(sum(cols[1:], cols[0]))
        b = np.stack(cols, axis=1)
    elif shape_kind == 'zero':
        c0 = col()
        b = np.stack([c0, np.zeros_like(c0), -c0], axis=1)
    elif shape_kind == 'cdep':      # third column depends on the others through NON-REAL coefficients (complex only)
        c0, c1 = col(), col()
        b = np.stack([c0, c1, (1 + 2j) * c0 - 1j * c1], axis=1)
    elif shape_kind == 'idup':      # second column = i * first column (complex only)
        c0 = col()
        b = np.stack([c0, 1j * c0], axis=1)
    else:
        raise ValueError(shape_kind)
    if shape_kind in ('cdep', 'idup') and not cplx:
        raise ValueError(shape_kind + ' needs a complex right-hand side')
    return b.astype(complex if cplx else float)


def exc_enum(e):
    for k in (TypeError, ValueError, IndexError, AssertionError, RuntimeError):
        if isinstance(e, k):
            return k.__name__
    return 'Other'
